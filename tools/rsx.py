#!/usr/bin/env python3
"""rsx.py -- mechanical extractor: real Rust items from /repo -> one Verus file per unit.

A unit is a template (units/<unit>/unit.rs).  Everything in the template is copied verbatim
(prelude: spec functions, lemmas, shims) except *directive blocks*, which are replaced by the text
of an item located in /repo's working tree on every run:

    //%fn <file> :: [<impl header> ::] <name>          function / method (body copied byte for byte)
    //%struct <file> :: <name>                         struct definition (fields widened to pub)
    //%enum <file> :: <name>                           enum definition (cfg'd variants resolved)
    //%const <file> :: [<impl header> ::] <name>       const item
    //%expr <file> :: [<impl header> ::] <fn> :: "<start tokens>" .. "<end tokens>"
                                                       an expression/statement range inside a fn
    ...sub-directives...
    //%end

Sub-directives (inside a block, each applies to the extracted item only):
    //%contract            following lines (up to the next //% line) are spliced between the
                           signature and the body; the return type `-> T` becomes `-> (r: T)`
    //%ret <name>          use <name> instead of `r`
    //%after "<tokens>"    following lines are inserted right after the matched token sequence
    //%before "<tokens>"   ... right before it
    //%sub "<tokens>" => "<text>"  [# rule / reason]     token-sequence replacement (every match;
                           at least one match required).  `//%sub1` requires exactly one match.
                           An anchor token `__ID1`, `__ID2`, .. matches any one identifier; the same
                           name in <text> is replaced by the matched identifier (pattern sub).
    //%rename <newname>    rename the function (for trait-impl methods pulled into free fns)
    //%mutant <label> "<tokens>" => "<text>"   negative control: applied to the extracted text in
                           thorough mode only; Verus must then reject this function
    //%tail                rule R-tail: bind the tail expression `E` as `let vp_ret = E; vp_ret`
    //%nobody              emit only the signature + contract with `;`-less external body marker
Unit-level directives (outside blocks):
    //%features a b c      feature set used to resolve #[cfg(feature = "...")]
    //%gsub "<tokens>" => "<text>"  [# rule]   applied to every extracted item of the unit
    //%dropawait           rule R-await: `E.await` -> `E` in every extracted item
    //%dropfmt             rule R-fmt: `format_args!(..)` -> `vp_fmt_args()` in every extracted item
Anchors are token sequences (compared after lexing, so whitespace/comments do not matter); they
must match exactly once unless written  "<tokens>"@k  (k-th match, 1-based).

Built-in rules (always on, logged when they fire):
    R-attr  doc comments and outer attributes on/inside the item are dropped
            (#[cfg(...)] is evaluated; a false cfg drops the statement/field/variant/arm it guards)
    R-log   statement-position trace!/debug!/info!/warn!/error!(...) ; dropped
    R-vis   pub(crate)/pub(super)/pub(in ..) -> pub ; struct fields -> pub
Everything else that differs from /repo is an explicit //%sub or //%gsub in the template.
"""
import hashlib
import json
import os
import re
import sys

REPO = os.environ.get("VERIF_REPO", "/repo")


class ExtractError(Exception):
    """lost anchor / item not found / rule refusal -> UNDECIDED (exit 2), never a violation"""


# --------------------------------------------------------------------------------------
# lexer
# --------------------------------------------------------------------------------------
class Tok:
    __slots__ = ("kind", "text", "start", "end")

    def __init__(self, kind, text, start, end):
        self.kind, self.text, self.start, self.end = kind, text, start, end

    def __repr__(self):
        return f"{self.kind}:{self.text!r}@{self.start}"


IDENT_START = set("abcdefghijklmnopqrstuvwxyzABCDEFGHIJKLMNOPQRSTUVWXYZ_")
IDENT_CONT = IDENT_START | set("0123456789")


def lex(src):
    """Rust lexer good enough for item location: comments (nested), strings, raw strings, byte
    strings, chars vs lifetimes, numbers, identifiers, single-char punctuation."""
    toks = []
    i, n = 0, len(src)
    while i < n:
        c = src[i]
        if c in " \t\r\n":
            i += 1
            continue
        if src.startswith("//", i):
            j = src.find("\n", i)
            j = n if j < 0 else j
            text = src[i:j]
            kind = "doc" if (text.startswith("///") and not text.startswith("////")) or text.startswith("//!") else "comment"
            toks.append(Tok(kind, text, i, j))
            i = j
            continue
        if src.startswith("/*", i):
            depth, j = 1, i + 2
            while j < n and depth:
                if src.startswith("/*", j):
                    depth += 1
                    j += 2
                elif src.startswith("*/", j):
                    depth -= 1
                    j += 2
                else:
                    j += 1
            text = src[i:j]
            kind = "doc" if (text.startswith("/**") and not text.startswith("/***") and len(text) > 4) or text.startswith("/*!") else "comment"
            toks.append(Tok(kind, text, i, j))
            i = j
            continue
        # raw strings / byte strings / raw identifiers
        m = re.match(r'(?:b|c)?r(#*)"', src[i:i + 80])
        if m and (c in "brc"):
            hashes = m.group(1)
            close = '"' + hashes
            j = src.find(close, i + m.end())
            if j < 0:
                raise ExtractError("unterminated raw string")
            j += len(close)
            toks.append(Tok("str", src[i:j], i, j))
            i = j
            continue
        if c == '"' or (c in "bc" and i + 1 < n and src[i + 1] == '"'):
            j = i + (1 if c == '"' else 2)
            while j < n and src[j] != '"':
                j += 2 if src[j] == "\\" else 1
            j += 1
            toks.append(Tok("str", src[i:j], i, j))
            i = j
            continue
        if c == "'" or (c == "b" and i + 1 < n and src[i + 1] == "'"):
            k = i + (1 if c == "'" else 2)
            # char literal or lifetime?
            if k < n and src[k] == "\\":
                j = k + 2
                while j < n and src[j] != "'":
                    j += 1
                j += 1
                toks.append(Tok("char", src[i:j], i, j))
                i = j
                continue
            if k + 1 < n and src[k + 1] == "'" and src[k] != "'":
                j = k + 2
                toks.append(Tok("char", src[i:j], i, j))
                i = j
                continue
            if c == "'":
                # multi-byte char literal like 'é' handled above only if single code point
                if k < n and src[k] in IDENT_START:
                    j = k
                    while j < n and src[j] in IDENT_CONT:
                        j += 1
                    toks.append(Tok("lifetime", src[i:j], i, j))
                    i = j
                    continue
                # non-ascii single char
                j = src.find("'", k)
                toks.append(Tok("char", src[i:j + 1], i, j + 1))
                i = j + 1
                continue
        if c in IDENT_START:
            j = i
            while j < n and src[j] in IDENT_CONT:
                j += 1
            toks.append(Tok("ident", src[i:j], i, j))
            i = j
            continue
        if c.isdigit():
            j = i
            while j < n and (src[j] in IDENT_CONT or (src[j] == "." and j + 1 < n and src[j + 1].isdigit())):
                j += 1
            toks.append(Tok("num", src[i:j], i, j))
            i = j
            continue
        toks.append(Tok("punct", c, i, i + 1))
        i += 1
    return toks


def code_toks(toks):
    return [t for t in toks if t.kind not in ("comment", "doc")]


OPEN = {"(": ")", "[": "]", "{": "}"}
CLOSE = {")": "(", "]": "[", "}": "{"}


def match_close(toks, i):
    """toks[i] is an opening bracket; return index of its matching close."""
    assert toks[i].text in OPEN, toks[i]
    depth = 0
    for j in range(i, len(toks)):
        t = toks[j]
        if t.kind == "punct":
            if t.text in OPEN:
                depth += 1
            elif t.text in CLOSE:
                depth -= 1
                if depth == 0:
                    return j
    raise ExtractError(f"unbalanced bracket at byte {toks[i].start}")


def lex_anchor(s):
    return [t.text for t in code_toks(lex(s))]


def find_seq(toks, seq, lo=0, hi=None):
    """all start indexes in toks[lo:hi] where the token texts equal seq"""
    hi = len(toks) if hi is None else hi
    out = []
    L = len(seq)
    if L == 0:
        return out
    def m(t, a):
        # `__IDn` in an anchor matches any single identifier token (pattern subs, see apply_sub)
        return t.text == a or (a.startswith("__ID") and t.kind == "ident")
    for i in range(lo, hi - L + 1):
        if all(m(toks[i + k], seq[k]) for k in range(L)):
            out.append(i)
    return out


# --------------------------------------------------------------------------------------
# cfg evaluation
# --------------------------------------------------------------------------------------
def eval_cfg(toks, features):
    """toks: tokens inside cfg( ... ).  Returns True/False/None(unknown)."""
    pos = [0]

    def peek():
        return toks[pos[0]].text if pos[0] < len(toks) else None

    def nxt():
        t = toks[pos[0]]
        pos[0] += 1
        return t

    def pred():
        t = nxt()
        if t.text in ("all", "any", "not") and peek() == "(":
            nxt()
            args = []
            while peek() != ")":
                args.append(pred())
                if peek() == ",":
                    nxt()
            nxt()
            if t.text == "not":
                return None if args[0] is None else (not args[0])
            if t.text == "all":
                if any(a is False for a in args):
                    return False
                return None if any(a is None for a in args) else True
            if any(a is True for a in args):
                return True
            return None if any(a is None for a in args) else False
        if t.text == "feature" and peek() == "=":
            nxt()
            val = nxt().text.strip('"')
            return val in features
        if t.text == "test":
            return False
        if t.text in ("kani", "verus_keep_ghost", "docsrs", "fuzzing"):
            return False
        if t.text == "debug_assertions":
            return True
        # key = "value" forms we do not know (target_os ...)
        if peek() == "=":
            nxt()
            nxt()
        return None

    return pred()


# --------------------------------------------------------------------------------------
# source file model
# --------------------------------------------------------------------------------------
class Source:
    _cache = {}

    def __init__(self, relpath):
        self.rel = relpath
        self.path = os.path.join(REPO, relpath)
        if not os.path.isfile(self.path):
            raise ExtractError(f"file not found: {relpath}")
        with open(self.path, encoding="utf-8") as f:
            self.text = f.read()
        self.all = lex(self.text)
        self.toks = code_toks(self.all)

    @classmethod
    def get(cls, rel):
        if rel not in cls._cache:
            cls._cache[rel] = Source(rel)
        return cls._cache[rel]

    def line_of(self, byte):
        return self.text.count("\n", 0, byte) + 1


def item_front(toks, i, lo):
    """walk backwards from toks[i] (the `fn`/`struct`/... keyword) over qualifiers and attributes;
    returns the index of the first token belonging to the item (attributes included)."""
    j = i
    while j > lo:
        p = toks[j - 1]
        if p.kind == "ident" and p.text in ("pub", "const", "async", "unsafe", "extern", "default"):
            j -= 1
            continue
        if p.kind == "str" and j - 2 >= lo and toks[j - 2].text == "extern":
            j -= 1
            continue
        if p.text == ")":
            # pub(crate) / pub(in path)
            k = j - 1
            depth = 0
            while k >= lo:
                if toks[k].text == ")":
                    depth += 1
                elif toks[k].text == "(":
                    depth -= 1
                    if depth == 0:
                        break
                k -= 1
            if k - 1 >= lo and toks[k - 1].text == "pub":
                j = k - 1
                continue
            break
        if p.text == "]":
            k = j - 1
            depth = 0
            while k >= lo:
                if toks[k].text == "]":
                    depth += 1
                elif toks[k].text == "[":
                    depth -= 1
                    if depth == 0:
                        break
                k -= 1
            if k - 1 >= lo and toks[k - 1].text == "#":
                j = k - 1
                continue
            break
        break
    return j


def attrs_of(toks, front, kw):
    """list of (start_idx, end_idx_inclusive, inner tokens) for attributes between front and kw"""
    out = []
    j = front
    while j < kw:
        if toks[j].text == "#" and toks[j + 1].text == "[":
            e = match_close(toks, j + 1)
            out.append((j, e, toks[j + 2:e]))
            j = e + 1
        else:
            j += 1
    return out


def cfg_value(attr_inner, features):
    if attr_inner and attr_inner[0].text == "cfg" and len(attr_inner) > 2 and attr_inner[1].text == "(":
        return eval_cfg(attr_inner[2:-1], features)
    return "nocfg"


def find_blocks(src, kw, features, lo=0, hi=None, depth0=True):
    """yield (kw_index, front_index, body_open_index or None, end_index_inclusive) for every
    `kw` item (kw in fn/struct/enum/impl/const/trait/mod) that is a direct child of toks[lo:hi]."""
    toks = src.toks
    hi = len(toks) if hi is None else hi
    i = lo
    depth = 0
    while i < hi:
        t = toks[i]
        if t.kind == "punct" and t.text in OPEN:
            # skip nested groups that are not ours
            i = match_close(toks, i) + 1
            continue
        if t.kind == "ident" and t.text == kw:
            # `impl` inside a type (impl Trait) only occurs inside signatures, which we skip as we
            # jump from item to item below
            front = item_front(toks, i, lo)
            # find end: first `{` or `;` at bracket depth 0 (parens/brackets skipped)
            j = i + 1
            body = None
            while j < hi:
                tt = toks[j]
                if tt.text in ("(", "["):
                    j = match_close(toks, j) + 1
                    continue
                if tt.text == "{":
                    body = j
                    break
                if tt.text == ";":
                    break
                j += 1
            if body is not None:
                end = match_close(toks, body)
                # tuple-struct with where clause etc. ignored
            else:
                end = j
            yield (i, front, body, end)
            i = end + 1
            continue
        if t.kind == "ident" and t.text in ("fn", "struct", "enum", "impl", "trait", "mod", "union", "macro_rules"):
            # some other item: skip it wholesale
            j = i + 1
            body = None
            while j < hi:
                tt = toks[j]
                if tt.text in ("(", "["):
                    j = match_close(toks, j) + 1
                    continue
                if tt.text == "{":
                    body = j
                    break
                if tt.text == ";":
                    break
                j += 1
            i = (match_close(toks, body) if body is not None else j) + 1
            continue
        i += 1


def header_texts(toks, i, body):
    return [t.text for t in toks[i:body]]


def locate(src, path, features):
    """path: list like ['impl<'a> BinDecoder<'a>', 'fn pop'] or ['fn read_inner'] or
    ['struct Name'] ; returns (kw_idx, front_idx, body_idx, end_idx)."""
    toks = src.toks
    lo, hi = 0, len(toks)
    for step_no, step in enumerate(path):
        want = lex_anchor(step)
        kw = want[0]
        last = step_no == len(path) - 1
        cands = []
        scopes = [(lo, hi)]
        # also look inside non-test `mod x { }` blocks at this level
        for (mi, mf, mb, me) in find_blocks(src, "mod", features, lo, hi):
            if mb is None:
                continue
            ok = True
            for (_, _, inner) in attrs_of(toks, mf, mi):
                if cfg_value(inner, features) is False:
                    ok = False
            if ok:
                scopes.append((mb + 1, me))
        # ... and inside the transcriber of a single-rule `macro_rules! m { (..) => { ITEMS } }` at this level
        # (items generated by a macro: the text verified is the macro's body, metavariables handled by subs)
        if step_no == 0:
            for q in range(lo, hi - 3):
                if toks[q].text == "macro_rules" and toks[q + 1].text == "!" and toks[q + 3].text == "{":
                    mend = match_close(toks, q + 3)
                    for z in range(q + 4, mend - 2):
                        if toks[z].text == "=" and toks[z + 1].text == ">" and toks[z + 2].text == "{":
                            scopes.append((z + 3, match_close(toks, z + 2)))
                            break
        for (slo, shi) in scopes:
            for (ki, fi, bi, ei) in find_blocks(src, kw, features, slo, shi):
                cfg_ok = True
                for (_, _, inner) in attrs_of(toks, fi, ki):
                    v = cfg_value(inner, features)
                    if v is False:
                        cfg_ok = False
                if not cfg_ok:
                    continue
                if kw == "impl":
                    if bi is None:
                        continue
                    if header_texts(toks, ki, bi) == want:
                        cands.append((ki, fi, bi, ei))
                else:
                    # name is the token right after the keyword
                    if ki + 1 < len(toks) and toks[ki + 1].text == want[1]:
                        cands.append((ki, fi, bi, ei))
        if not cands:
            raise ExtractError(f"item not found: {src.rel} :: {' :: '.join(path)} (step '{step}')")
        if len(cands) > 1:
            raise ExtractError(f"item ambiguous ({len(cands)} matches): {src.rel} :: {' :: '.join(path)}")
        ki, fi, bi, ei = cands[0]
        if last:
            return ki, fi, bi, ei
        if bi is None:
            raise ExtractError(f"no body to descend into: {step}")
        lo, hi = bi + 1, ei
    raise ExtractError("empty path")


# --------------------------------------------------------------------------------------
# edits over a token range of a source
# --------------------------------------------------------------------------------------
class Edits:
    """collects (start_byte, end_byte, replacement, tag) on the original text of one item"""

    def __init__(self, src, start_byte, end_byte):
        self.src, self.start, self.end = src, start_byte, end_byte
        self.items = []

    def replace(self, s, e, text, tag):
        assert self.start <= s <= e <= self.end, (self.start, s, e, self.end)
        self.items.append((s, e, text, tag))

    def render(self):
        """returns (text, segments) ; segments = list of (out_start, out_end, kind, tag, src_start)
        where kind is 'repo' or 'ins'"""
        items = sorted(self.items, key=lambda x: (x[0], x[1]))
        # drop edits nested inside a deletion
        out, segs = [], []
        pos = self.start
        olen = 0
        last_end = self.start
        for (s, e, text, tag) in items:
            if s < last_end:
                if e <= last_end:
                    continue  # swallowed by an earlier (larger) deletion
                raise ExtractError(f"overlapping edits at byte {s} ({tag})")
            if s > pos:
                chunk = self.src.text[pos:s]
                segs.append((olen, olen + len(chunk), "repo", "", pos))
                out.append(chunk)
                olen += len(chunk)
            if text:
                segs.append((olen, olen + len(text), "ins", tag, s))
                out.append(text)
                olen += len(text)
            pos = e
            last_end = max(last_end, e)
        if pos < self.end:
            chunk = self.src.text[pos:self.end]
            segs.append((olen, olen + len(chunk), "repo", "", pos))
            out.append(chunk)
        return "".join(out), segs


LOG_MACROS = {"trace", "debug", "info", "warn", "error"}


def builtin_rules(src, all_toks_range, ctoks, ed, features, fired, is_struct=False):
    """R-attr, R-log, R-vis on the token range.  all_toks_range: tokens incl. comments within the
    item; ctoks: code tokens within the item."""
    # R-attr (doc comments)
    for t in all_toks_range:
        if t.kind == "doc":
            ed.replace(t.start, t.end, "", "R-attr")
            fired.add("R-attr")
    n = len(ctoks)
    i = 0
    while i < n:
        t = ctoks[i]
        # attributes
        if t.text == "#" and i + 1 < n and ctoks[i + 1].text == "[":
            e = i + 1
            depth = 0
            while e < n:
                if ctoks[e].text == "[":
                    depth += 1
                elif ctoks[e].text == "]":
                    depth -= 1
                    if depth == 0:
                        break
                e += 1
            inner = ctoks[i + 2:e]
            v = cfg_value(inner, features)
            if v is False:
                # drop the guarded thing: up to the next `,` or `;` at depth 0, or a whole block
                j = e + 1
                while j < n:
                    tt = ctoks[j]
                    if tt.text in OPEN:
                        depth2 = 0
                        k = j
                        while k < n:
                            if ctoks[k].text in OPEN:
                                depth2 += 1
                            elif ctoks[k].text in CLOSE:
                                depth2 -= 1
                                if depth2 == 0:
                                    break
                            k += 1
                        if tt.text == "{":
                            # block ends the guarded item (fn/arm body); include trailing comma
                            j = k
                            if j + 1 < n and ctoks[j + 1].text == ",":
                                j += 1
                            break
                        j = k + 1
                        continue
                    if tt.text in (",", ";"):
                        break
                    if tt.text in CLOSE:
                        j -= 1
                        break
                    j += 1
                ed.replace(t.start, ctoks[min(j, n - 1)].end, "", "R-attr(cfg=false)")
                fired.add("R-attr(cfg=false)")
                i = j + 1
                continue
            if v is None:
                raise ExtractError(f"cannot decide #[cfg] at {src.rel}:{src.line_of(t.start)}")
            ed.replace(t.start, ctoks[e].end, "", "R-attr")
            fired.add("R-attr")
            i = e + 1
            continue
        # R-log
        if (t.kind == "ident" and t.text in LOG_MACROS and i + 2 < n and ctoks[i + 1].text == "!"
                and ctoks[i + 2].text == "(" and (i == 0 or ctoks[i - 1].text in ("{", "}", ";", ")") or ctoks[i - 1].text == ">")):
            # must be statement position: previous token is `{`, `}`, `;` (or `=>` for a match arm)
            depth = 0
            e = i + 2
            while e < n:
                if ctoks[e].text == "(":
                    depth += 1
                elif ctoks[e].text == ")":
                    depth -= 1
                    if depth == 0:
                        break
                e += 1
            prev = ctoks[i - 1].text if i else "{"
            if e + 1 < n and ctoks[e + 1].text == ";" and prev in ("{", "}", ";"):
                calls = [ctoks[k].text for k in range(i + 3, e) if ctoks[k].kind == "ident" and k + 1 < e and ctoks[k + 1].text == "("]
                ed.replace(t.start, ctoks[e + 1].end, "", "R-log")
                fired.add("R-log" + (f"(drops calls: {','.join(calls)})" if calls else ""))
                i = e + 2
                continue
            if prev == ">" and e + 1 < n and ctoks[e + 1].text == ",":
                # match arm `pat => warn!(..),`  ->  `pat => {},`
                ed.replace(t.start, ctoks[e].end, "{}", "R-log")
                fired.add("R-log")
                i = e + 1
                continue
        # R-vis
        if t.kind == "ident" and t.text == "pub" and i + 1 < n and ctoks[i + 1].text == "(":
            depth = 0
            e = i + 1
            while e < n:
                if ctoks[e].text == "(":
                    depth += 1
                elif ctoks[e].text == ")":
                    depth -= 1
                    if depth == 0:
                        break
                e += 1
            if ctoks[i + 2].text in ("crate", "super", "in", "self"):
                ed.replace(ctoks[i + 1].start, ctoks[e].end, "", "R-vis")
                fired.add("R-vis")
                i = e + 1
                continue
        i += 1


def widen_fields(ctoks, body_open, body_close, ed, fired, tuple_struct=False):
    """make every field of a struct `pub` (R-vis)"""
    i = body_open + 1
    expect_field = True
    depth = 0
    while i < body_close:
        t = ctoks[i]
        if t.text in OPEN or t.text == "<":
            depth += 1
        elif t.text in CLOSE or (t.text == ">" and ctoks[i - 1].text != "-"):
            depth -= 1
        elif t.text == "," and depth == 0:
            expect_field = True
            i += 1
            continue
        if expect_field and depth == 0 or (expect_field and t.text == "#"):
            if t.text == "#":
                # attribute: skip
                j = i + 1
                d2 = 0
                while j < body_close:
                    if ctoks[j].text == "[":
                        d2 += 1
                    elif ctoks[j].text == "]":
                        d2 -= 1
                        if d2 == 0:
                            break
                    j += 1
                i = j + 1
                continue
            if t.text != "pub":
                ed.replace(t.start, t.start, "pub ", "R-vis")
                fired.add("R-vis")
            expect_field = False
        i += 1


# --------------------------------------------------------------------------------------
# template processing
# --------------------------------------------------------------------------------------
DIRECTIVE = re.compile(r"^\s*//%(\w+\??)\s*(.*)$")
SUB_RE = re.compile(r'^\s*("(?:[^"\\]|\\.)*")(?:@(\d+))?\s*=>\s*("(?:[^"\\]|\\.)*")\s*(?:#\s*(.*))?$')
ANCHOR_RE = re.compile(r'^\s*("(?:[^"\\]|\\.)*")(?:@(\d+))?\s*(?:#\s*(.*))?$')
MUT_RE = re.compile(r'^\s*(\S+)\s+("(?:[^"\\]|\\.)*")(?:@(\d+))?\s*=>\s*("(?:[^"\\]|\\.)*")\s*(?:#\s*(.*))?$')


def unq(s):
    return json.loads(s)


class Item:
    def __init__(self, kind, spec, line_no):
        self.kind = kind  # fn/struct/enum/const/expr
        self.spec = spec
        self.line_no = line_no
        self.contract = None
        self.ret = "r"
        self.inserts = []  # (where, anchor, k, text)
        self.subs = []  # (anchor, k, text, tag, exact1)
        self.mutants = []  # (label, anchor, k, text)
        self.closures = []  # (anchor, k, header)
        self.attrs = []
        self.forloops = []  # (anchor, k, invariant text)
        self.rename = None
        self.tail = False
        self.mutself = False
        self.entry = ""
        self.novis = False
        self.tailproof = ""
        self.nobody = False
        self.twin = True
        # outputs
        self.name = None
        self.file = None
        self.lines = None
        self.sha = None
        self.fired = set()


def parse_template(text):
    """returns (parts, unit_meta) ; parts = list of ('text', str) | ('item', Item)"""
    parts = []
    meta = {"features": [], "gsubs": []}
    lines = text.split("\n")
    i = 0
    buf = []
    cur = None
    mode = None  # collecting lines for contract/after/before
    pending = None

    def flush_pending():
        nonlocal pending, mode
        if pending is not None:
            kind, data, acc = pending
            body = "\n".join(acc)
            if kind == "contract":
                cur.contract = body
            elif kind == "closure":
                cur.closures.append((data[1], data[2], body.strip()))
            elif kind == "forloop":
                cur.forloops.append((data[1], data[2], body))
            elif kind == "tailproof":
                cur.tailproof = body
            elif kind == "entry":
                cur.entry = body
            else:
                where, anchor, k = data
                cur.inserts.append((where, anchor, k, body))
            pending = None
        mode = None

    while i < len(lines):
        ln = lines[i]
        m = DIRECTIVE.match(ln)
        if not m:
            if cur is None:
                buf.append(ln)
            elif pending is not None:
                pending[2].append(ln)
            elif ln.strip():
                raise ExtractError(f"template line {i+1}: stray text inside a directive block: {ln!r}")
            i += 1
            continue
        d, rest = m.group(1), m.group(2).strip()
        if cur is None:
            if d == "features":
                meta["features"] = rest.split()
            elif d == "dropawait":
                meta["dropawait"] = True
            elif d == "dropfmt":
                meta["dropfmt"] = True
            elif d == "gsub":
                mm = SUB_RE.match(rest)
                if not mm:
                    raise ExtractError(f"template line {i+1}: bad gsub")
                meta["gsubs"].append((lex_anchor(unq(mm.group(1))), unq(mm.group(3)), mm.group(4) or "gsub"))
            elif d in ("fn", "struct", "enum", "const", "expr", "type", "trait", "impl"):
                if buf:
                    parts.append(("text", "\n".join(buf) + "\n"))
                    buf = []
                cur = Item(d, rest, i + 1)
            elif d in ("unit", "note"):
                pass
            else:
                raise ExtractError(f"template line {i+1}: unknown directive //%{d}")
            i += 1
            continue
        # inside a block
        flush_pending()
        if d == "end":
            parts.append(("item", cur))
            cur = None
        elif d == "contract":
            pending = ("contract", None, [])
        elif d == "entry":
            pending = ("entry", None, [])
        elif d in ("after", "before", "closure", "forloop"):
            mm = ANCHOR_RE.match(rest)
            if not mm:
                raise ExtractError(f"template line {i+1}: bad anchor")
            pending = (d, (d, lex_anchor(unq(mm.group(1))), int(mm.group(2)) if mm.group(2) else None), [])
        elif d in ("sub", "sub1", "sub?"):
            mm = SUB_RE.match(rest)
            if not mm:
                raise ExtractError(f"template line {i+1}: bad sub")
            cur.subs.append((lex_anchor(unq(mm.group(1))), int(mm.group(2)) if mm.group(2) else None, unq(mm.group(3)), mm.group(4) or "sub", d == "sub1", d != "sub?"))
        elif d == "mutant":
            mm = MUT_RE.match(rest)
            if not mm:
                raise ExtractError(f"template line {i+1}: bad mutant")
            cur.mutants.append((mm.group(1), lex_anchor(unq(mm.group(2))), int(mm.group(3)) if mm.group(3) else None, unq(mm.group(4))))
        elif d == "attr":
            cur.attrs.append(rest)
        elif d == "ret":
            cur.ret = rest
        elif d == "rename":
            cur.rename = rest
        elif d == "tail":
            cur.tail = True
            pending = ("tailproof", None, [])
        elif d == "nobody":
            cur.nobody = True
        elif d == "notwin":
            cur.twin = False
        elif d == "novis":
            cur.novis = True
        elif d == "mutself":
            cur.mutself = True
        else:
            raise ExtractError(f"template line {i+1}: unknown sub-directive //%{d}")
        i += 1
    if cur is not None:
        raise ExtractError(f"template: block starting line {cur.line_no} not closed with //%end")
    if buf:
        parts.append(("text", "\n".join(buf)))
    return parts, meta


def select_match(ctoks, anchor, k, what, lo=0, hi=None):
    hits = find_seq(ctoks, anchor, lo, hi)
    if not hits:
        raise ExtractError(f"lost anchor ({what}): {' '.join(anchor)!r} not found")
    if k is None:
        if len(hits) != 1:
            raise ExtractError(f"lost anchor ({what}): {' '.join(anchor)!r} matches {len(hits)} places")
        return hits[0]
    if k > len(hits):
        raise ExtractError(f"lost anchor ({what}): {' '.join(anchor)!r} has only {len(hits)} matches, wanted #{k}")
    return hits[k - 1]


def extract_item(item, meta, mutant=None, twin=False):
    """returns (text, segs) for the item; fills item.name/file/lines/sha/fired"""
    features = meta["features"]
    spec = item.spec
    parts = [p.strip() for p in spec.split("::")]
    # first part is the file; `::` also occurs inside impl headers (a::b) -> re-join smartly
    file = parts[0]
    rest = spec[spec.index("::") + 2:]
    # split the rest on ' :: ' (with spaces) only
    steps = [s.strip() for s in re.split(r"\s::\s", rest.strip())]
    src = Source.get(file)
    expr_range = None
    if item.kind == "expr":
        # last step: "<start>" .. "<end>"
        mm = re.match(r'^("(?:[^"\\]|\\.)*")(?:@(\d+))?\s*\.\.(<?)\s*("(?:[^"\\]|\\.)*")(?:@(\d+))?$', steps[-1])
        if not mm:
            raise ExtractError(f"bad //%expr range: {steps[-1]}")
        expr_range = (lex_anchor(unq(mm.group(1))), int(mm.group(2)) if mm.group(2) else None,
                      lex_anchor(unq(mm.group(4))), int(mm.group(5)) if mm.group(5) else None, mm.group(3) == "<")
        steps = steps[:-1]
    path = []
    for s in steps[:-1]:
        path.append(s)
    kwmap = {"fn": "fn", "struct": "struct", "enum": "enum", "const": "const", "expr": "fn", "type": "type", "trait": "trait", "impl": "impl"}
    last = steps[-1]
    if not (last.startswith(kwmap[item.kind] + " ") or last.startswith(kwmap[item.kind] + "<")):
        last = kwmap[item.kind] + " " + last
    path.append(last)
    ki, fi, bi, ei = locate(src, path, features)
    toks = src.toks
    item.file = file
    item.name = " :: ".join(steps)

    if item.kind == "expr":
        if bi is None:
            raise ExtractError("expr: function has no body")
        a1, k1, a2, k2, excl = expr_range
        s_idx = select_match(toks, a1, k1, item.name + " expr-start", bi, ei + 1)
        # the end anchor is the FIRST match at or after the start (so `.. ";"` means "to the end of the statement")
        e_idx = select_match(toks, a2, k2 if k2 is not None else 1, item.name + " expr-end", s_idx, ei + 1)
        e_idx = e_idx - 1 if excl else e_idx + len(a2) - 1
        start_b, end_b = toks[s_idx].start, toks[e_idx].end
        lo_idx, hi_idx = s_idx, e_idx
    else:
        # skip leading attributes for the emitted text (builtin rule drops them anyway)
        start_b, end_b = toks[fi].start, toks[ei].end
        lo_idx, hi_idx = fi, ei
    item.lines = (src.line_of(start_b), src.line_of(end_b))
    raw = src.text[start_b:end_b]
    item.sha = hashlib.sha256(raw.encode()).hexdigest()
    ctoks = toks[lo_idx:hi_idx + 1]
    alltoks = [t for t in src.all if start_b <= t.start and t.end <= end_b]
    ed = Edits(src, start_b, end_b)
    fired = item.fired
    builtin_rules(src, alltoks, ctoks, ed, features, fired)

    if item.kind == "struct" and not item.novis:
        # fields -> pub
        if bi is not None:
            widen_fields(toks, bi, ei, ed, fired)
        else:
            # tuple struct: find the paren group
            for j in range(ki, ei + 1):
                if toks[j].text == "(":
                    widen_fields(toks, j, match_close(toks, j), ed, fired, True)
                    break

    # explicit subs (item + unit level)
    def apply_sub(anchor, k, text, tag, exact1, required=True):
        hits = find_seq(ctoks, anchor)
        if not hits:
            if required:
                raise ExtractError(f"lost anchor (sub in {item.name}): {' '.join(anchor)!r} not found")
            return
        if exact1 and len(hits) != 1 and k is None:
            raise ExtractError(f"lost anchor (sub1 in {item.name}): {' '.join(anchor)!r} matches {len(hits)} places")
        if k is not None:
            if k > len(hits):
                raise ExtractError(f"lost anchor (sub in {item.name}): only {len(hits)} matches")
            hits = [hits[k - 1]]
        last_end = -1
        for h in hits:
            if h <= last_end:
                continue
            s, e = ctoks[h].start, ctoks[h + len(anchor) - 1].end
            txt = text
            for q, a in enumerate(anchor):
                if a.startswith("__ID"):
                    txt = txt.replace(a, ctoks[h + q].text)
            ed.replace(s, e, txt, tag)
            fired.add(tag)
            last_end = h + len(anchor) - 1

    for (anchor, k, text, tag, exact1, required) in item.subs:
        apply_sub(anchor, k, text, tag, exact1, required)
    for (anchor, text, tag) in meta["gsubs"]:
        apply_sub(anchor, None, text, tag, False, required=False)
    if meta.get("dropfmt"):
        # R-fmt: `format_args!( .. )` (a message for a log line / error text) -> `vp_fmt_args()`; the arguments are
        # dropped: formatting has no effect on the decisions verified
        k = 0
        while k < len(ctoks) - 2:
            if ctoks[k].text == "format_args" and ctoks[k + 1].text == "!" and ctoks[k + 2].text == "(":
                close = match_close(ctoks, k + 2)
                ed.replace(ctoks[k].start, ctoks[close].end, "vp_fmt_args()", "R-fmt")
                fired.add("R-fmt")
                k = close + 1
            else:
                k += 1
    if meta.get("dropawait"):
        # R-await: `E.await` -> `E` (the awaited calls are modelled as plain calls; only decisions are verified)
        for k in range(len(ctoks) - 1):
            if ctoks[k].text == "." and ctoks[k + 1].text == "await":
                ed.replace(ctoks[k].start, ctoks[k + 1].end, "", "R-await")
                fired.add("R-await")
    if mutant is not None:
        (label, anchor, k, text) = mutant
        h = select_match(ctoks, anchor, k, item.name + " mutant " + label)
        ed.replace(ctoks[h].start, ctoks[h + len(anchor) - 1].end, text, "MUTANT:" + label)

    if item.kind == "fn":
        # signature: tokens ki .. bi
        if bi is None:
            raise ExtractError(f"{item.name}: function without body")
        if item.rename:
            nt = toks[ki + 1]
            ed.replace(nt.start, nt.end, item.rename, "rename")
        # locate the parameter list
        j = ki + 2
        # generics
        if toks[j].text == "<":
            depth = 0
            while True:
                if toks[j].text == "<":
                    depth += 1
                elif toks[j].text == ">" and toks[j - 1].text != "-":
                    depth -= 1
                    if depth == 0:
                        break
                j += 1
            j += 1
        if toks[j].text != "(":
            raise ExtractError(f"{item.name}: cannot find parameter list")
        pe = match_close(toks, j)
        # return type
        k = pe + 1
        if item.contract is not None or item.nobody:
            if toks[k].text == "-" and toks[k + 1].text == ">":
                ts = k + 2
                te = ts
                depth = 0
                while te < bi:
                    tt = toks[te]
                    if tt.text in ("<", "(", "["):
                        depth += 1
                    elif tt.text in (")", "]") or (tt.text == ">" and toks[te - 1].text != "-"):
                        depth -= 1
                    elif tt.text == "where" and depth == 0:
                        break
                    te += 1
                ed.replace(toks[ts].start, toks[ts].start, f"({item.ret}: ", "R-ann(ret)")
                ed.replace(toks[te - 1].end, toks[te - 1].end, ")", "R-ann(ret)")
            if item.contract is not None:
                ed.replace(toks[bi].start, toks[bi].start, "\n" + item.contract.rstrip() + "\n", "R-ann(contract)")
        if item.mutself:
            # R-mutself: `fn f(mut self, ..) { B }`  ->  `fn f(self, ..) { let mut vp_self = self; B[self := vp_self] }`
            if not (toks[j + 1].text == "mut" and toks[j + 2].text == "self"):
                raise ExtractError(f"{item.name}: //%mutself but the receiver is not `mut self`")
            ed.replace(toks[j + 1].start, toks[j + 2].start, "", "R-mutself")
            for tt in toks[bi + 1:ei]:
                if tt.kind == "ident" and tt.text == "self":
                    ed.replace(tt.start, tt.end, "vp_self", "R-mutself")
            ed.replace(toks[bi].end, toks[bi].end, " let mut vp_self = self; ", "R-mutself")
            fired.add("R-mutself")
        if twin and item.twin:
            ed.replace(toks[bi].end, toks[bi].end, " assert(false); /*TWIN*/ ", "TWIN")
        if item.entry:
            ed.replace(toks[bi].end, toks[bi].end, "\n" + item.entry.rstrip() + "\n", "R-ann")
        if item.tail:
            # tail expression: after the last `;` or `}`-terminated statement at depth 1 ... we
            # only support the simple case: the last statement is an expression with no trailing ;
            j = ei - 1
            depth = 0
            while j > bi:
                tt = toks[j]
                if tt.text in CLOSE:
                    depth += 1
                elif tt.text in OPEN:
                    depth -= 1
                elif tt.text == ";" and depth == 0:
                    break
                j -= 1
            ts = toks[j + 1]
            for tt in toks[j + 1:ei]:
                if tt.text in ("return", "break", "?"):
                    raise ExtractError(f"{item.name}: R-tail refused (tail contains {tt.text})")
            ed.replace(ts.start, ts.start, "let vp_ret = ", "R-tail")
            ed.replace(toks[ei - 1].end, toks[ei - 1].end, ";\n" + item.tailproof.rstrip() + "\n vp_ret", "R-tail")
            fired.add("R-tail")
    # R-for: `for P in E { B }` -> `let mut it = vp_into_iter(E); loop INV { match it.next() { Some(P) => { B } None => break, } }`
    for n_for, (anchor, k, inv) in enumerate(item.forloops):
        h = select_match(ctoks, anchor, k, f"{item.name} //%forloop")
        if ctoks[h].text != "for":
            raise ExtractError(f"{item.name}: //%forloop anchor must start at `for`")
        # find `in` at depth 0 and the body `{`
        j = h + 1
        depth = 0
        in_idx = None
        while j < len(ctoks):
            tt = ctoks[j]
            if tt.text in ("(", "["):
                depth += 1
            elif tt.text in (")", "]"):
                depth -= 1
            elif tt.text == "in" and depth == 0 and in_idx is None:
                in_idx = j
            elif tt.text == "{" and depth == 0 and in_idx is not None:
                break
            j += 1
        body_open = j
        # matching close
        d2 = 0
        e = body_open
        while e < len(ctoks):
            if ctoks[e].text == "{":
                d2 += 1
            elif ctoks[e].text == "}":
                d2 -= 1
                if d2 == 0:
                    break
            e += 1
        pat = item_text = src.text[ctoks[h + 1].start:ctoks[in_idx - 1].end]
        expr = src.text[ctoks[in_idx + 1].start:ctoks[body_open - 1].end]
        itn = f"vp_it{n_for}"
        ed.replace(ctoks[h].start, ctoks[body_open].end,
                   f"let mut {itn} = vp_into_iter({expr});\n loop\n{inv.rstrip()}\n {{ match {itn}.next() {{ Some({pat}) => {{", "R-for")
        ed.replace(ctoks[e].start, ctoks[e].end, "} None => break, } }", "R-for")
        fired.add("R-for")
    # R-clo: closure headers
    for (anchor, k, header) in item.closures:
        h = select_match(ctoks, anchor, k, f"{item.name} //%closure")
        # an optional line `@body: <statements>` in the header text is inserted at the start of the closure body
        # (R-ref: a `|&x|` parameter pattern becomes `|vp_x: &T|` + `let x = *vp_x;`)
        prologue = ""
        if "@body:" in header:
            header, prologue = header.split("@body:", 1)
            header, prologue = header.rstrip(), " " + prologue.strip() + " "
        ed.replace(ctoks[h].start, ctoks[h + len(anchor) - 1].end, header, "R-clo")
        fired.add("R-clo")
        b = h + len(anchor)
        if ctoks[b].text == "{" and prologue:
            ed.replace(ctoks[b].end, ctoks[b].end, prologue, "R-clo")
        if ctoks[b].text != "{":
            depth = 0
            e = b
            while e < len(ctoks):
                tt = ctoks[e]
                if tt.text in OPEN:
                    depth += 1
                elif tt.text in CLOSE:
                    if depth == 0:
                        break
                    depth -= 1
                elif tt.text == "," and depth == 0:
                    break
                e += 1
            ed.replace(ctoks[b].start, ctoks[b].start, " { " + prologue, "R-clo")
            ed.replace(ctoks[e - 1].end, ctoks[e - 1].end, " }", "R-clo")
    # inserts
    for (where, anchor, k, text) in item.inserts:
        h = select_match(ctoks, anchor, k, f"{item.name} //%{where}")
        if where == "after" and anchor[0] in ("while", "for") and anchor[-1] not in ("in", "{"):
            # a loop annotation (invariant / decreases) goes between the loop header and its body: the anchor must cover the
            # WHOLE header, otherwise the splice would cut the condition in two and the text verified would not be the code
            nxt = ctoks[h + len(anchor)].text if h + len(anchor) < len(ctoks) else ""
            if nxt != "{":
                raise ExtractError(f"lost anchor ({item.name} //%after): loop header changed: {' '.join(anchor)!r} is no longer followed by the loop body")
        if where == "after":
            p = ctoks[h + len(anchor) - 1].end
            ed.replace(p, p, "\n" + text.rstrip() + "\n", "R-ann")
        else:
            p = ctoks[h].start
            ed.replace(p, p, text.rstrip() + "\n", "R-ann")
    for a in item.attrs:
        ed.replace(start_b, start_b, a + "\n", "R-ann(attr)")
    text, segs = ed.render()
    if item.nobody:
        # keep only up to the body
        pass
    return text, segs


INCLUDE = re.compile(r"^\s*//%include\s+(\S+)\s*$")


def read_template(path, depth=0):
    if depth > 5:
        raise ExtractError("include depth")
    out = []
    with open(path, encoding="utf-8") as f:
        for ln in f.read().split("\n"):
            m = INCLUDE.match(ln)
            if m:
                out.append(read_template(os.path.join(os.path.dirname(path), m.group(1)), depth + 1))
            else:
                out.append(ln)
    return "\n".join(out)


def generate(unit_dir, mutant_sel=None, twin=False):
    """returns dict(text=..., items=[...], regions=[(start,end,item_index,segs)], meta=...)"""
    tpath = os.path.join(unit_dir, "unit.rs")
    ttext = read_template(tpath)
    Source._cache.clear()
    parts, meta = parse_template(ttext)
    out = []
    olen = 0
    regions = []
    items = []
    for kind, val in parts:
        if kind == "text":
            out.append(val)
            olen += len(val)
        else:
            it = val
            mut = None
            if mutant_sel is not None:
                for m in it.mutants:
                    if (len(items), m[0]) == mutant_sel:
                        mut = m
            text, segs = extract_item(it, meta, mutant=mut, twin=twin)
            text = text.rstrip() + "\n"
            regions.append((olen, olen + len(text), len(items), segs))
            items.append(it)
            out.append(text)
            olen += len(text)
    return {"text": "".join(out), "items": items, "regions": regions, "meta": meta}


def main():
    import argparse
    ap = argparse.ArgumentParser()
    ap.add_argument("unit_dir")
    ap.add_argument("--twin", action="store_true")
    ap.add_argument("--diff", action="store_true", help="show repo text vs verified text per item")
    ap.add_argument("-o", "--out")
    a = ap.parse_args()
    try:
        g = generate(a.unit_dir, twin=a.twin)
    except ExtractError as e:
        print("UNDECIDED extract:", e, file=sys.stderr)
        sys.exit(2)
    if a.diff:
        import difflib
        for (s, e, idx, segs) in g["regions"]:
            it = g["items"][idx]
            src = Source.get(it.file)
            lo = sum(len(l) + 1 for l in src.text.split("\n")[:it.lines[0] - 1])
            # original text of the item lines
            orig = "\n".join(src.text.split("\n")[it.lines[0] - 1:it.lines[1]]) + "\n"
            new = g["text"][s:e]
            sys.stdout.writelines(difflib.unified_diff(orig.splitlines(True), new.splitlines(True),
                                                       f"{it.file}:{it.lines[0]}-{it.lines[1]}", f"verified:{it.name}"))
        return
    if a.out:
        with open(a.out, "w") as f:
            f.write(g["text"])
    else:
        sys.stdout.write(g["text"])


if __name__ == "__main__":
    main()
