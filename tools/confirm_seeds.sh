#!/bin/bash
# tools/confirm_seeds.sh [seed ...]  -- confirm each seeded change in a scratch worktree of /repo:
#  (1) the demo passes without the patch, (2) fails with it, (3) the workspace suite's failing set is the
#  baseline's with the patch applied.  Writes seeded/<id>/confirm.json.  The worktree is removed at the end.
set -u
ROOT="$(cd "$(dirname "$0")/.." && pwd)"
WT=${CONFIRM_WT:-/tmp/wt_confirm}
TAG=$(basename $WT)
export CARGO_NET_OFFLINE=true
git -C /repo worktree remove --force $WT 2>/dev/null
git -C /repo worktree add -q --detach $WT HEAD || exit 2
cd $WT
run_suite() { cargo nextest run --workspace --no-fail-fast --offline --test-threads 8 2>&1 | grep -E "^\s+(FAIL|SIGABRT|SIGSEGV|TIMEOUT)|Summary" | sed -E 's/\[ *[0-9.]+s\]//; s/\([ 0-9/]+\)//' | sort -u; }
if [ ! -f /tmp/confirm_head_suite.txt ]; then run_suite > /tmp/confirm_head_suite.txt; fi
seeds="$@"; [ -z "$seeds" ] && seeds=$(ls $ROOT/seeded | grep -v head_finding)
for sd in $seeds; do
  d=$ROOT/seeded/$sd
  [ -f $d/patch.diff ] || continue
  git checkout -q -- . ; git clean -fdq -e target
  applies=true; git apply --check $d/patch.diff 2>/dev/null || applies=false
  mkdir -p crates/proto/tests crates/net/tests crates/resolver/tests crates/server/tests
  ( sh $d/demo/run.sh > /tmp/${TAG}_demo_without.log 2>&1 ); without=$?
  git checkout -q -- . ; git clean -fdq -e target
  with=-1; suite_same=unknown; nfail=""
  if $applies; then
    git apply $d/patch.diff
    mkdir -p crates/proto/tests crates/net/tests crates/resolver/tests crates/server/tests
    ( sh $d/demo/run.sh > /tmp/${TAG}_demo_with.log 2>&1 ); with=$?
    # suite with the patch but without the demo file
    git clean -fdq -e target
    run_suite > /tmp/${TAG}_suite_with.txt
    if diff -q <(grep -v Summary /tmp/confirm_head_suite.txt) <(grep -v Summary /tmp/${TAG}_suite_with.txt) >/dev/null; then suite_same=true; else suite_same=false; fi
    nfail=$(grep Summary /tmp/${TAG}_suite_with.txt | tr -s ' ')
    diff <(grep -v Summary /tmp/confirm_head_suite.txt) <(grep -v Summary /tmp/${TAG}_suite_with.txt) > $d/suite_diff.txt || true
    [ -s $d/suite_diff.txt ] || rm -f $d/suite_diff.txt
  fi
  python3 - "$sd" "$applies" "$without" "$with" "$suite_same" "$nfail" <<'PY' > $d/confirm.json
import json,sys
sd,applies,without,withp,same,nfail=sys.argv[1:7]
print(json.dumps({"seed":sd,"patch_applies_at_repo_head":applies=="true","demo_without_patch":"pass" if without=="0" else "FAIL(rc=%s)"%without,
  "demo_with_patch":"fail" if withp not in("0","-1") else ("PASSES" if withp=="0" else "not run"),"suite_failing_set_same_as_head":same,"suite_summary":nfail.strip(),
  "confirmed": applies=="true" and without=="0" and withp not in("0","-1") and same=="true"},indent=1))
PY
  echo "$sd: $(tr -d '\n' < $d/confirm.json | cut -c1-300)"
done
cd /; git -C /repo worktree remove --force $WT
