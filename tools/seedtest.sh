#!/bin/sh
# tools/seedtest.sh <seed-dir-name> [<PROP>]  -- apply a seeded change to /repo, run the property's quick check
# (evidence goes to .build/scratch_evidence), undo the change.  Never leaves /repo modified.
cd "$(dirname "$0")/.." || exit 2
sd="$1"; prop="${2:-${sd%%_*}}"
git -C /repo apply "$(pwd)/seeded/$sd/patch.diff" || exit 2
VERIF_SCRATCH=1 ./check "$prop" quick; rc=$?
git -C /repo checkout -- .
echo "== seed $sd property $prop rc=$rc"
exit 0
