#!/bin/sh
# tools/seedmatrix.sh [seed ...] -- run seeded changes (all, or the ones named) through their property's quick check (scratch
# evidence) and merge the outcome VIOLATION / UNDECIDED / missed per seed into seeded/results.json.  /repo is restored after each.
# VERIF_NO_REPLAY=1 skips the replay search (the replay crate is rebuilt against every seeded tree: minutes per seed).
cd "$(dirname "$0")/.." || exit 2
tmp=.build/seedmatrix.txt; : > $tmp
if [ $# -gt 0 ]; then list="$*"; else list=$(ls seeded); fi
for sd in $list; do
  d=seeded/$sd/; [ -f $d/patch.diff ] || continue
  case $sd in C06_head_finding) continue;; esac
  prop=${sd%%_*}
  git -C /repo apply "$(pwd)/$d/patch.diff" 2>/dev/null || { echo "$sd NOAPPLY" >> $tmp; continue; }
  o=$(VERIF_SCRATCH=1 ./check "$prop" quick 2>&1); rc=$?
  git -C /repo checkout -- . ; git -C /repo clean -fdq 2>/dev/null
  w=$(echo "$o" | grep -c "^VIOLATION.*replay=[^ ]*$")
  case $rc in 0) r=missed;; 1) r=VIOLATION; [ "$w" -gt 0 ] && r="VIOLATION+witness";; *) r=UNDECIDED;; esac
  echo "$sd $r" >> $tmp
done
python3 - <<'PY'
import json,subprocess,os
f='/verif/seeded/results.json'
old=json.load(open(f)) if os.path.exists(f) else {"results":{}}
res=dict(old.get("results",{})); asof=dict(old.get("as_of",{}))
head=subprocess.run(["git","-C","/verif","rev-parse","--short","HEAD"],capture_output=True,text=True).stdout.strip()
noreplay=bool(os.environ.get("VERIF_NO_REPLAY"))
for l in open('/verif/.build/seedmatrix.txt'):
    a,b=l.split(None,1); b=b.strip()
    if noreplay and b=="VIOLATION" and res.get(a,"").startswith("VIOLATION+witness"):
        b=res[a]          # a run without the replay search does not take a recorded witness away
    res[a]=b; asof[a]=head+(" (no replay search)" if noreplay else "")
json.dump({"what":"outcome of ./check <property> quick with each seeded change applied to /repo (tools/seedmatrix.sh); as_of: the /verif commit each entry was last produced at","results":dict(sorted(res.items())),"as_of":dict(sorted(asof.items()))},open(f,'w'),indent=1)
from collections import Counter
print(Counter(v.split('+')[0] for v in res.values()))
PY
