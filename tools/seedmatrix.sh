#!/bin/sh
# tools/seedmatrix.sh -- run every seeded change through its property's quick check (scratch evidence) and write
# seeded/results.json: outcome VIOLATION / UNDECIDED / missed per seed.  /repo is restored after each.
cd "$(dirname "$0")/.." || exit 2
out=seeded/results.json; tmp=.build/seedmatrix.txt; : > $tmp
for d in seeded/*/; do
  sd=$(basename $d); [ -f $d/patch.diff ] || continue
  case $sd in C06_head_finding) continue;; esac
  prop=${sd%%_*}
  git -C /repo apply "$(pwd)/$d/patch.diff" 2>/dev/null || { echo "$sd NOAPPLY" >> $tmp; continue; }
  o=$(VERIF_SCRATCH=1 ./check "$prop" quick 2>&1); rc=$?
  git -C /repo checkout -- . ; git -C /repo clean -fdq 2>/dev/null
  w=$(echo "$o" | grep -c "^VIOLATION.*replay=[^ ]*$")
  case $rc in 0) r=missed;; 1) r=VIOLATION; [ "$w" -gt 0 ] && r="VIOLATION+witness";; *) r=UNDECIDED;; esac
  echo "$sd $r" >> $tmp
done
python3 - <<'PY'
import json
res={}
for l in open('/verif/.build/seedmatrix.txt'):
    a,b=l.split(None,1); res[a]=b.strip()
json.dump({"what":"outcome of ./check <property> quick with each seeded change applied to /repo (tools/seedmatrix.sh)","results":res},open('/verif/seeded/results.json','w'),indent=1)
from collections import Counter
print(Counter(v.split('+')[0] for v in res.values()))
PY
