#!/bin/sh
# re-run every registered check on the current (clean) tree and validate manifest + evidence
cd "$(dirname "$0")/.." || exit 2
test -z "$(git -C /repo status --porcelain)" || { echo "/repo is not clean"; exit 2; }
python3 tools/mkmanifest.py
for p in $(python3 -c "import json;print(' '.join(c['property_id'] for c in json.load(open('MANIFEST.json'))['checks']))"); do ./check $p ${1:-quick} | tail -1; done
python3-vt tools/validate.py | grep -v "^ok "
