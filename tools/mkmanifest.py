#!/usr/bin/env python3
"""MANIFEST.json is generated from units/index.json so that it cannot drift from what the driver runs."""
import json, os
ROOT = os.path.dirname(os.path.dirname(os.path.abspath(__file__)))
idx = json.load(open(os.path.join(ROOT, 'units', 'index.json')))
props = [json.loads(l) for l in open(os.path.join(ROOT, 'properties.jsonl'))]
checks, na = [], []
for p in props:
    pid = p['id']
    if pid in idx['properties']:
        pi = idx['properties'][pid]
        checks.append({
            'property_id': pid,
            'quick_cmd': f'./check {pid} quick',
            'thorough_cmd': f'./check {pid} thorough',
            'evidence_file': f'/verif/evidence/{pid}.json',
            'replay_cmd_template': 'python3 tools/check.py replay {path}',
            'engine': 'verus-extract',
            'level_claimed': {'category': 'proof', 'text': pi['level_text'], 'design_ref': pi.get('design_ref', 'DESIGN.md section 5')},
            'level_note': pi['level_note'],
            'technique': pi.get('technique', 'contract-based deductive verification: Verus discharges requires/ensures/invariant/decreases obligations on functions extracted mechanically from /repo on every run'),
        })
    else:
        na.append({'property_id': pid, 'reason': idx['not_applicable'][pid]})
m = {
    'version': 1,
    'setup_cmd': 'mkdir -p .build evidence && verus --version && python3 tools/check.py selftest',
    'hooks': {
        'guard': 'none (no source hook is needed: the checks read /repo source text and verify it with Verus; nothing in /repo is compiled with a verification flag)',
        'enable': 'nothing to enable; tools/rsx.py re-extracts the functions under contract from /repo\'s working tree on every run',
        'baseline_off_cmd': 'cd /repo && cargo nextest run --workspace --no-fail-fast --tool-config-file pb:/w/lib/nextest.toml --profile pb --test-threads 8 --offline',
        'source_commits': idx.get('source_commits', []),
        'add_only': True,
    },
    'engines': [
        {'name': 'verus-extract', 'path': 'tools/check.py', 'serves_properties': [c['property_id'] for c in checks],
         'kind_free_text': 'mechanical extraction of real functions (tools/rsx.py) + spliced contracts (units/*/unit.rs) + Verus 0.2026.09.13; vacuity twin, negative controls, seed stability; replay oracles in replay/'},
    ],
    'checks': checks,
    'not_applicable': na,
    'notes': idx.get('notes', ''),
}
json.dump(m, open(os.path.join(ROOT, 'MANIFEST.json'), 'w'), indent=1)
print('MANIFEST.json written:', len(checks), 'checks', len(na), 'not applicable')
