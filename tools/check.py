#!/usr/bin/env python3
"""check.py -- driver: property -> units -> extract (rsx) -> verus -> classify -> evidence.

usage:
  check.py run <PROP> [--tier quick|thorough]     the registered check
  check.py unit <unit> [--keep]                   one unit, verbose (authoring aid)
  check.py baseline [<unit> ...]                  (re)write baseline/<unit>.json from the current tree
  check.py diff <unit>                            unified diff repo text -> verified text
  check.py replay <path>                          re-run a replay file

exit codes: 0 property held on everything explored; 1 violation (VIOLATION line printed);
            2 undecided (tool limit / lost anchor / machinery drift) -- never a VIOLATION line.
"""
import argparse
import concurrent.futures as cf
import hashlib
import json
import os
import re
import shutil
import subprocess
import sys
import time

HERE = os.path.dirname(os.path.abspath(__file__))
ROOT = os.path.dirname(HERE)
sys.path.insert(0, HERE)
import rsx  # noqa: E402

BUILD = os.path.join(ROOT, ".build")
UNITS = os.path.join(ROOT, "units")
BASE = os.path.join(ROOT, "baseline")
# VERIF_SCRATCH=1 (used when trying seeded changes by hand) keeps the committed evidence files untouched
EVID = os.path.join(BUILD, "scratch_evidence") if os.environ.get("VERIF_SCRATCH") else os.path.join(ROOT, "evidence")
VERUS = shutil.which("verus") or "/usr/local/bin/verus"

VERIF_FAIL = (
    "postcondition not satisfied", "precondition not satisfied", "assertion failed",
    "possible arithmetic underflow/overflow", "loop invariant not satisfied",
    "invariant not satisfied at end of loop body", "invariant not satisfied before loop",
    "decreases not satisfied", "possible division by zero", "possible bit shift underflow/overflow",
    "recursive call may not terminate", "loop may not terminate", "could not show termination",
    "constructed value may fail to meet its declared type invariant", "may fail to meet",
    "unable to prove", "unreachable", "not satisfied", "cannot show", "failed",
)
VERIF_KEYS = ("not satisfied", "assertion failed", "arithmetic underflow/overflow", "division by zero", "shift underflow/overflow",
              "may not terminate", "could not show termination", "decreases", "unable to prove", "type invariant", "failed to meet",
              "precondition", "postcondition", "invariant", "unreachable", "index out of bounds", "cannot prove", "could not prove",
              "possible overflow", "possible underflow", "truncat")
TOOL_LIMIT = ("resource limit", "rlimit", "timed out", "timeout", "solver returned", "panicked", "internal error",
              "not supported", "unsupported", "is not supported")


def index():
    with open(os.path.join(UNITS, "index.json")) as f:
        return json.load(f)


def sha(s):
    return hashlib.sha256(s.encode()).hexdigest()


def run_verus(path, extra=(), timeout=600):
    cmd = [VERUS, os.path.basename(path), "--output-json", "--time", "--error-format=json",
           "--multiple-errors", "40", *extra]
    t0 = time.time()
    try:
        p = subprocess.run(cmd, cwd=os.path.dirname(path), capture_output=True, text=True, timeout=timeout)
        out, err, rc = p.stdout, p.stderr, p.returncode
    except subprocess.TimeoutExpired as e:
        out, err, rc = "", f"TIMEOUT after {timeout}s", 124
    wall = time.time() - t0
    res = None
    try:
        res = json.loads(out)
    except Exception:
        # stdout may carry other lines before the json
        m = re.search(r"\{.*\}\s*$", out, re.S)
        if m:
            try:
                res = json.loads(m.group(0))
            except Exception:
                res = None
    diags = []
    other = []
    for ln in err.splitlines():
        ln = ln.strip()
        if ln.startswith("{"):
            try:
                diags.append(json.loads(ln))
                continue
            except Exception:
                pass
        if ln:
            other.append(ln)
    return {"cmd": " ".join(cmd), "rc": rc, "json": res, "diags": diags, "stderr_other": other, "wall": wall}


def fn_ranges(text):
    """(start,end,name) of every fn in generated text, innermost-first lookup is done by caller"""
    toks = rsx.code_toks(rsx.lex(text))
    out = []
    for i, t in enumerate(toks):
        if t.kind == "ident" and t.text == "fn" and i + 1 < len(toks) and toks[i + 1].kind == "ident":
            j = i + 2
            body = None
            while j < len(toks):
                tt = toks[j]
                if tt.text in ("(", "["):
                    j = rsx.match_close(toks, j) + 1
                    continue
                if tt.text == "{":
                    body = j
                    break
                if tt.text == ";":
                    break
                j += 1
            if body is not None:
                e = rsx.match_close(toks, body)
                out.append((t.start, toks[e].end, toks[i + 1].text))
    return out


def norm(s, n=110):
    s = re.sub(r"\s+", " ", s).strip()
    return s if len(s) <= n else s[:n] + "..."


def classify_diag(d):
    msg = d.get("message", "")
    lvl = d.get("level")
    if lvl != "error":
        return "note"
    if msg.startswith("aborting due to"):
        return "summary"
    low = msg.lower()
    if any(k in low for k in TOOL_LIMIT):
        return "tool"
    if any(k in low for k in VERIF_KEYS):
        return "verif"
    return "tool"  # type errors, unsupported constructs, ... -> undecided


def attribute(gen, d, fnr):
    """obligation id for a verification-failure diagnostic"""
    spans = d.get("spans", [])
    prim = [s for s in spans if s.get("is_primary")] or spans
    if not prim:
        return {"fn": "?", "item": None, "clause": norm(d.get("message", "")), "kind": d.get("message", ""), "where": "?"}
    sp = prim[0]
    b = sp["byte_start"]
    text = gen["text"]
    item = None
    where = "prelude"
    for (s, e, idx, segs) in gen["regions"]:
        if s <= b < e:
            item = idx
            where = "repo-text"
            for (os_, oe, kind, tag, _src) in segs:
                if s + os_ <= b < s + oe:
                    where = "annotation" if kind == "ins" else "repo-text"
                    break
            break
    fname = "?"
    best = None
    for (s, e, name) in fnr:
        if s <= b < e and (best is None or (e - s) < best[0]):
            best = (e - s, name)
    if best:
        fname = best[1]
    if item is not None:
        fname = gen["items"][item].name
    clause = norm(text[sp["byte_start"]:sp["byte_end"]])
    # secondary span often says where (which return / which call)
    sec = [norm(text[s["byte_start"]:s["byte_end"]], 60) for s in spans if not s.get("is_primary")]
    return {"fn": fname, "item": item, "kind": d.get("message", ""), "clause": clause, "where": where, "at": sec[:2],
            "line": sp.get("line_start"), "rendered": d.get("rendered", ""), "span": (sp["byte_start"], sp["byte_end"])}


def count_clauses(text):
    """number of explicit proof clauses in an annotation text: comma-separated clauses after
    requires/ensures/invariant/decreases + assert(...) statements"""
    toks = rsx.code_toks(rsx.lex(text))
    n = 0
    i = 0
    L = len(toks)
    while i < L:
        t = toks[i]
        if t.kind == "ident" and t.text in ("requires", "ensures", "invariant", "invariant_except_break", "decreases", "recommends"):
            n += 1
            depth = 0
            j = i + 1
            while j < L:
                tt = toks[j]
                if tt.text in rsx.OPEN:
                    if tt.text == "{" and depth == 0:
                        # body start unless it is a struct/match brace inside an expression:
                        # annotation clauses are followed by body `{` only at the very end
                        break
                    depth += 1
                elif tt.text in rsx.CLOSE:
                    depth -= 1
                    if depth < 0:
                        break
                elif tt.text == "," and depth == 0:
                    # trailing comma before next keyword does not add a clause
                    if j + 1 < L and not (toks[j + 1].kind == "ident" and toks[j + 1].text in ("requires", "ensures", "invariant", "invariant_except_break", "decreases", "recommends")) and toks[j + 1].text != "{":
                        n += 1
                elif tt.kind == "ident" and tt.text in ("requires", "ensures", "invariant", "invariant_except_break", "decreases", "recommends") and depth == 0:
                    break
                j += 1
            i = j
            continue
        if t.kind == "ident" and t.text in ("assert", "assert_by") and i + 1 < L and toks[i + 1].text == "(":
            n += 1
        i += 1
    return n


class UnitResult:
    def __init__(self, unit):
        self.unit = unit
        self.status = "ok"  # ok | violation | undecided
        self.reason = ""
        self.failures = []  # attributed obligations that failed
        self.functions = []
        self.verified = 0
        self.errors = 0
        self.explicit = 0
        self.solver_ms = 0
        self.wall = 0.0
        self.cmd = ""
        self.twin_expected = 0
        self.twin_hit = 0
        self.trusted = []
        self.hints_dropped = []
        self.note = ""
        self.changed_items = []
        self.mutants = []  # (label, fn, killed?)
        self.prelude_fns = 0
        self.fn_ms = {}
        self.seeds = []
        self.clause_owners = {}
        self.fn_names = []


TRUST_PAT = re.compile(r"(external_body|external_type_specification|external_trait_specification|external_fn_specification|assume_specification|\bassume\s*\(|\badmit\s*\(|\buninterp\b|verifier::external\b(?!_)|verifier::trusted)")


IMPL_PAT = re.compile(r"\bimpl\b(?:\s*<[^{]*?>)?\s+(?:[^{;]*?\bfor\s+)?([A-Za-z_][\w:]*)[^{;]*\{")


def scan_trusted(text):
    """every trusted declaration in the generated file: (kind, name); a function inside an `impl .. X {` block is
    named `X::f` (the impl header is looked for on the same line, else the nearest enclosing one above)"""
    out = []
    lines = text.split("\n")
    cur_impl, cur_indent = None, 0
    for i, ln in enumerate(lines):
        stripped = ln.lstrip()
        if stripped.startswith("//"):
            continue
        indent = len(ln) - len(stripped)
        if cur_impl is not None and stripped.startswith("}") and indent <= cur_indent:
            cur_impl = None
        mi = IMPL_PAT.search(ln)
        same_line_impl = None
        if mi and stripped.startswith(("impl", "pub impl", "unsafe impl")) or (mi and "impl" in ln):
            if mi:
                # one-line impl (closed on the same line) does not open a scope
                if ln.count("{") > ln.count("}"):
                    cur_impl, cur_indent = mi.group(1), indent
                same_line_impl = mi.group(1)
        m = TRUST_PAT.search(ln)
        if not m:
            continue
        name = ""
        if m.group(1) == "assume_specification":
            st = ln.find("[", m.end())
            depth, k = 0, st
            while st >= 0 and k < len(ln):
                if ln[k] == "[":
                    depth += 1
                elif ln[k] == "]":
                    depth -= 1
                    if depth == 0:
                        break
                k += 1
            name = ln[st + 1:k].replace(" ", "") if st >= 0 else ""
        if not name:
            for k in range(i, min(i + 6, len(lines))):
                seg = lines[k][m.end():] if k == i else lines[k]
                mm = re.search(r"\b(fn|struct|trait|type|enum)\s+(\w+)", seg)
                if mm:
                    name = mm.group(2)
                    if mm.group(1) == "fn":
                        owner = None
                        if k == i:
                            pre = [x for x in IMPL_PAT.finditer(ln) if x.end() <= m.start()]
                            owner = pre[-1].group(1) if pre else cur_impl
                        else:
                            owner = cur_impl
                        if owner:
                            name = owner.split("::")[-1] + "::" + name
                    break
        kind = m.group(1).rstrip("( ").split("::")[-1]
        out.append(f"{kind}:{name}")
    return sorted(set(out))


def scan_standins(gen):
    """executable functions WRITTEN IN THE TEMPLATE (not extracted from /repo, not external_body): getters of stand-in
    types, structural PartialEq models, wrappers around //%expr ranges.  Verus checks their bodies, but that they
    behave like the real counterpart is an assumption; they are listed in the evidence so nothing hand-written is
    silently counted as code of /repo."""
    text = gen["text"]
    regions = [(s, e) for (s, e, _i, _segs) in gen["regions"]]
    # blank out comments so braces/keywords in them do not count
    clean = re.sub(r"//[^\n]*", lambda m: " " * len(m.group(0)), text)
    out = []
    for m in re.finditer(r"\bfn\s+(\w+)", clean):
        a = m.start()
        if any(s <= a < e for (s, e) in regions) or m.group(1) == "main":
            continue
        # the item's leading text: back to the previous `;`, `{` or `}`
        k = a
        while k > 0 and clean[k - 1] not in ";{}":
            k -= 1
        lead = clean[k:a]
        if re.search(r"\b(spec|proof)\b", lead) or "external_body" in lead:
            continue
        # body?
        depth, j, body = 0, m.end(), None
        while j < len(clean):
            ch = clean[j]
            if ch in "([":
                depth += 1
            elif ch in ")]":
                depth -= 1
            elif depth == 0 and ch == "{":
                body = j
                break
            elif depth == 0 and ch == ";":
                break
            j += 1
        if body is None:
            continue
        d, j = 0, body
        while j < len(clean):
            if clean[j] == "{":
                d += 1
            elif clean[j] == "}":
                d -= 1
                if d == 0:
                    break
            j += 1
        wraps = any(body < s_ and e_ <= j + 1 for (s_, e_) in regions)
        # owner: nearest enclosing impl header
        owner = None
        for mi in IMPL_PAT.finditer(clean[:a]):
            ob = mi.end() - 1
            dd, q = 0, ob
            while q < len(clean):
                if clean[q] == "{":
                    dd += 1
                elif clean[q] == "}":
                    dd -= 1
                    if dd == 0:
                        break
                q += 1
            if ob < a < q:
                owner = mi.group(1).split("::")[-1]
        name = (owner + "::" if owner else "") + m.group(1)
        out.append(name + (" (wrapper binding the free variables of an extracted statement range)" if wraps else ""))
    return sorted(set(out))


def process_unit(unit, tier, keep=False, verbose=False, seed=0):
    r = UnitResult(unit)
    udir = os.path.join(UNITS, unit)
    bdir = os.path.join(BUILD, unit)
    os.makedirs(bdir, exist_ok=True)
    t0 = time.time()
    try:
        gen = rsx.generate(udir)
        twin = rsx.generate(udir, twin=True)
    except rsx.ExtractError as e:
        r.status, r.reason = "undecided", f"extract: {e}"
        r.wall = time.time() - t0
        return r
    except Exception as e:  # lexer/locator crash on unexpected source
        r.status, r.reason = "undecided", f"extract crashed: {type(e).__name__}: {e}"
        r.wall = time.time() - t0
        return r
    main_path = os.path.join(bdir, f"{unit}.rs")
    twin_path = os.path.join(bdir, f"{unit}_twin.rs")
    with open(main_path, "w") as f:
        f.write(gen["text"])
    with open(twin_path, "w") as f:
        f.write(twin["text"])
    # baseline comparison
    basef = os.path.join(BASE, f"{unit}.json")
    base = None
    if os.path.isfile(basef):
        with open(basef) as f:
            base = json.load(f)
    seen_keys = {}
    for it in gen["items"]:
        key = it.file + " :: " + it.name
        seen_keys[key] = seen_keys.get(key, 0) + 1
        if seen_keys[key] > 1:
            key += f" #{seen_keys[key]}"        # several ranges of one function
        r.functions.append({"item": it.name, "kind": it.kind, "file": it.file, "lines": list(it.lines), "sha256": it.sha,
                            "rules": sorted(it.fired), "key": key})
        if base is not None:
            bsha = base["items"].get(key)
            if bsha != it.sha:
                r.changed_items.append(it.name)
    # explicit clause count: annotation segments + prelude text
    ann = []
    for (s, e, idx, segs) in gen["regions"]:
        for (os_, oe, kind, tag, _src) in segs:
            if kind == "ins" and tag.startswith("R-ann"):
                ann.append(gen["text"][s + os_:s + oe])
    pre = []
    pos = 0
    for (s, e, idx, segs) in gen["regions"]:
        pre.append(gen["text"][pos:s])
        pos = e
    pre.append(gen["text"][pos:])
    r.explicit = sum(count_clauses(a) for a in ann) + sum(count_clauses(p) for p in pre)
    # clause counts per owner (extracted item or prelude function), used to de-duplicate shared fragments
    owners = {}
    for (s_, e_, idx, segs) in gen["regions"]:
        key = r.functions[idx]["key"]
        n = 0
        for (os_, oe, kind, tag, _src) in segs:
            if kind == "ins" and tag.startswith("R-ann"):
                n += count_clauses(gen["text"][s_ + os_:s_ + oe])
        if n:
            owners["item:" + key] = n
    item_spans = [(s_, e_) for (s_, e_, _i, _sg) in gen["regions"]]
    for (fs, fe, name) in fn_ranges(gen["text"]):
        if any(s_ <= fs < e_ for (s_, e_) in item_spans):
            continue
        n = count_clauses(gen["text"][fs:fe])
        if n:
            owners["prelude:" + name] = max(owners.get("prelude:" + name, 0), n)
    r.clause_owners = owners
    r.trusted = scan_trusted(gen["text"])
    r.standins = scan_standins(gen)
    declared = set()
    for tf in (os.path.join(udir, "trusted.txt"), os.path.join(UNITS, "common", "trusted.txt")):
        if os.path.isfile(tf):
            declared |= {l.split("#")[0].strip() for l in open(tf) if l.split("#")[0].strip()}
    undeclared = [t for t in r.trusted if t not in declared]
    # run main + twin in parallel
    extra = []
    with cf.ThreadPoolExecutor(max_workers=2) as ex:
        fm = ex.submit(run_verus, main_path, extra)
        ft = ex.submit(run_verus, twin_path, extra)
        vm, vt = fm.result(), ft.result()
    r.cmd = vm["cmd"]
    fnr = fn_ranges(gen["text"])
    jr = vm["json"] or {}
    vres = jr.get("verification-results", {})
    r.verified = vres.get("verified", 0)
    r.errors = vres.get("errors", 0)
    r.fn_names = sorted(k.split("::", 1)[1] for k in jr.get("func-details", {}) if k.startswith(unit + "::"))
    try:
        smt = jr["times-ms"]["smt"]
        r.solver_ms = smt.get("total", 0)
        for mod in smt.get("smt-run-module-times", []):
            for fb in mod.get("function-breakdown", []):
                r.fn_ms[fb["function"].split("::", 1)[-1]] = fb.get("time", 0)
    except Exception:
        pass
    tool_msgs, verif = [], []
    for d in vm["diags"]:
        c = classify_diag(d)
        if c == "tool":
            tool_msgs.append(norm(d.get("message", ""), 200))
        elif c == "verif":
            verif.append(attribute(gen, d, fnr))
    r.failures = verif
    if verbose:
        for d in vm["diags"]:
            if d.get("level") == "error" and d.get("rendered"):
                sys.stderr.write(d["rendered"])
        for ln in vm["stderr_other"]:
            sys.stderr.write(ln + "\n")
    if vm["rc"] == 124:
        r.status, r.reason = "undecided", "verus timeout"
    elif vm["json"] is None:
        r.status, r.reason = "undecided", "verus produced no result: " + "; ".join((tool_msgs + vm["stderr_other"])[:3])
    elif tool_msgs or vres.get("encountered-vir-error"):
        r.status, r.reason = "undecided", "verus rejected the extracted text (unsupported construct / type error / resource limit): " + "; ".join(tool_msgs[:3])
    elif verif:
        r.status = "violation"
    elif not vres.get("success"):
        r.status, r.reason = "undecided", "verus reported failure without diagnostics"
    # ---- proof hints are not obligations.  Templates splice two kinds of `assert`: OBLIGATIONS (tagged `// Cnn` or
    # `// obligation` on their line: something the property demands inside a body) and HINTS that only help the solver
    # reach a postcondition.  If the ONLY failures are hints, the text is re-verified with exactly those hints neutralised
    # (`assert(true)`): if every contract clause still verifies, the property holds on this code and nothing is reported
    # (a hint that no longer fits a harmless refactor is not an alarm); otherwise the failures of that second run --
    # contract clauses -- are what is reported.
    if r.status == "violation":
        def is_hint(f):
            if not f.get("kind", "").startswith("assertion failed") or f.get("where") not in ("annotation", "prelude") or not f.get("span"):
                return False
            b, e = f["span"]
            line_end = gen["text"].find("\n", e)
            line = gen["text"][gen["text"].rfind("\n", 0, b) + 1: line_end if line_end >= 0 else len(gen["text"])]
            return not re.search(r"//.*\b(C\d\d\b|obligation)", line)
        hints = [f for f in r.failures if is_hint(f)]
        if hints and len(hints) == len(r.failures) and all(f["span"][1] - f["span"][0] >= 4 for f in hints):
            txt = gen["text"]
            for (b, e) in sorted({tuple(f["span"]) for f in hints}, reverse=True):
                txt = txt[:b] + "true" + " " * ((e - b) - 4) + txt[e:]      # same length: offsets of regions stay valid
            hp = os.path.join(bdir, f"{unit}_nohints.rs")
            with open(hp, "w") as fh:
                fh.write(txt)
            vh = run_verus(hp, extra)
            g2 = dict(gen, text=txt)
            f2 = [attribute(g2, d, fn_ranges(txt)) for d in vh["diags"] if classify_diag(d) == "verif"]
            t2 = [d for d in vh["diags"] if classify_diag(d) == "tool"]
            r.hints_dropped = [obligation_id(unit, f) for f in hints]
            if vh["json"] and not t2 and not f2 and vh["json"].get("verification-results", {}).get("success"):
                r.status, r.failures = "ok", []
                r.verified = vh["json"]["verification-results"].get("verified", r.verified)
                r.errors = 0
                r.note = "proof hints no longer provable but every contract clause verifies without them: " + "; ".join(r.hints_dropped)[:400]
            elif f2:
                r.failures = f2          # the contract clauses that fail once the hints are out of the way
    # ---- vacuity guards (also when the only failures are recorded findings)
    known_all0 = {k["obligation"] for k in load_known().get("findings", [])}
    ids0 = {obligation_id(unit, f) for f in r.failures}
    known_only0 = r.status == "violation" and bool(ids0) and ids0 <= known_all0
    if r.status == "ok" or known_only0:
        if undeclared:
            r.status, r.reason = "undecided", f"assumption scan: undeclared trusted items {undeclared}"
        # twin: every TWIN splice must be reported as a failing assertion
        tw_text = twin["text"]
        splices = [m.start() for m in re.finditer(r"assert\(false\); /\*TWIN\*/", tw_text)]
        r.twin_expected = len(splices)
        hit = set()
        for d in vt["diags"]:
            if d.get("level") != "error":
                continue
            for sp in d.get("spans", []):
                for s in splices:
                    if s <= sp["byte_start"] <= s + 14:
                        hit.add(s)
        r.twin_hit = len(hit)
        if vt["json"] is None or r.twin_hit != r.twin_expected:
            missing = []
            tfn = fn_ranges(tw_text)
            for s in splices:
                if s not in hit:
                    nm = [n for (a, b, n) in tfn if a <= s < b]
                    missing.append(nm[-1] if nm else "?")
            r.status, r.reason = "undecided", f"vacuity guard: assert(false) at entry was NOT refuted in {missing} (contradictory precondition?)"
        if base is not None and r.status == "ok":
            if r.verified < base.get("verified", 0):
                r.status, r.reason = "undecided", f"obligation count dropped: {r.verified} < baseline {base['verified']}"
    # ---- thorough: negative controls + seeds
    # failures that are ALL recorded in known_findings.json do not stop the negative controls / seed runs; a control
    # then counts as rejected only if it produces a failing obligation that the unmutated text does not have
    known_all = {k["obligation"] for k in load_known().get("findings", [])}
    base_fail_ids = {obligation_id(unit, f) for f in r.failures}
    known_only = r.status == "violation" and bool(base_fail_ids) and base_fail_ids <= known_all
    if tier == "thorough" and (r.status == "ok" or known_only):
        jobs = []
        for idx, it in enumerate(gen["items"]):
            for m in it.mutants:
                jobs.append((idx, it.name, m[0]))

        def run_mut(job):
            idx, name, label = job
            try:
                g = rsx.generate(udir, mutant_sel=(idx, label))
            except rsx.ExtractError as e:
                return (label, name, None, f"extract: {e}")
            p = os.path.join(bdir, f"{unit}_mut_{idx}_{label}.rs")
            with open(p, "w") as f:
                f.write(g["text"])
            v = run_verus(p)
            fails = [attribute(g, d, fn_ranges(g["text"])) for d in v["diags"] if classify_diag(d) == "verif"]
            tool = [d.get("message") for d in v["diags"] if classify_diag(d) == "tool"]
            if not keep:
                os.remove(p)
            if tool and all("resource limit" in (t or "").lower() for t in tool):
                # the mutated function is no longer provable within the resource limit: the proof is gone
                return (label, name, True, "proof no longer goes through (rlimit): " + norm("; ".join(tool), 120))
            if tool:
                return (label, name, None, "tool: " + norm("; ".join(tool), 200))
            fails = [f for f in fails if obligation_id(unit, f) not in base_fail_ids]
            return (label, name, bool(fails), "; ".join(sorted({f['fn'] + ': ' + f['kind'] for f in fails}))[:300])

        with cf.ThreadPoolExecutor(max_workers=6) as ex:
            for (label, name, killed, info) in ex.map(run_mut, jobs):
                r.mutants.append({"mutant": label, "fn": name, "rejected": killed, "by": info})
                if killed is not True:
                    r.status, r.reason = "undecided", f"negative control '{label}' in {name} was not rejected ({info}) -- contract too weak or control stale"
        # stability: two more solver seeds and a tighter rlimit must still prove everything
        if r.status == "ok" or (known_only and r.status == "violation"):
            def run_seed(s):
                return s, run_verus(main_path, ["--smt-option", f"smt.random_seed={s}", "--smt-option", f"sat.random_seed={s}", "--rlimit", "5"])
            with cf.ThreadPoolExecutor(max_workers=2) as ex:
                for s, v in ex.map(run_seed, [seed * 2 + 11, seed * 2 + 12]):
                    ok = bool(v["json"] and v["json"].get("verification-results", {}).get("success"))
                    if known_only and v["json"]:
                        sf = [attribute(gen, d, fn_ranges(gen["text"])) for d in v["diags"] if classify_diag(d) == "verif"]
                        stool = [d for d in v["diags"] if classify_diag(d) == "tool"]
                        ok = not stool and {obligation_id(unit, f) for f in sf} <= base_fail_ids
                    r.seeds.append({"random_seed": s, "rlimit": 5, "success": ok})
                    if not ok:
                        r.status, r.reason = "undecided", f"proof unstable: fails with smt.random_seed={s} at rlimit 5"
    r.wall = time.time() - t0
    return r


def load_known():
    p = os.path.join(ROOT, "known_findings.json")
    if os.path.isfile(p):
        with open(p) as f:
            return json.load(f)
    return {"findings": [], "fixed": [], "observations": []}


def obligation_id(unit, f):
    return f"{unit}::{f['fn']}::{f['kind']}::{f['clause']}"


def run_replay(prop, unit, fails, seed, outpath):
    """try to turn failed obligations into a failing input against the real code"""
    idx = index()
    oracles = idx.get("oracles", {})
    names = []
    for f in fails:
        for pat, orc in (oracles.get(prop + ":" + unit) or oracles.get(unit, {})).items():
            if re.search(pat, f["fn"]) and orc not in names:
                names.append(orc)
    rec = {"property": prop, "unit": unit, "seed": seed,
           "failed_obligations": [{"id": obligation_id(unit, f), "where": f["where"], "line": f.get("line"), "at": f.get("at"),
                                   "verifier_output": f.get("rendered", "")} for f in fails],
           "oracles_tried": names, "witness": None}
    found = False
    rdir = os.path.join(ROOT, "replay")
    if os.environ.get("VERIF_NO_REPLAY"):
        # used by the seed matrix only (a rebuild of the replay crate per seeded tree costs minutes): the verdict does not depend on it
        rec["oracle_log"] = ["replay search skipped (VERIF_NO_REPLAY)"]
        names = []
    if names and os.path.isdir(rdir):
        env = dict(os.environ, CARGO_TARGET_DIR=os.path.join(BUILD, "replay-target"), CARGO_NET_OFFLINE="true")
        for orc in names:
            try:
                p = subprocess.run(["cargo", "run", "--offline", "--release", "-q", "--", orc, str(seed)], cwd=rdir, env=env,
                                   capture_output=True, text=True, timeout=1500)
            except subprocess.TimeoutExpired:
                rec.setdefault("oracle_log", []).append(f"{orc}: timeout")
                continue
            out = p.stdout.strip().splitlines()
            rec.setdefault("oracle_log", []).append(f"{orc}: rc={p.returncode} " + (out[-1] if out else p.stderr[-300:]))
            for ln in out:
                if ln.startswith("WITNESS "):
                    rec["witness"] = json.loads(ln[len("WITNESS "):])
                    rec["witness"]["oracle"] = orc
                    found = True
                    break
            if found:
                break
    os.makedirs(os.path.dirname(outpath), exist_ok=True)
    with open(outpath, "w") as f:
        json.dump(rec, f, indent=1)
    return found


def cmd_run(a):
    idx = index()
    prop = a.prop
    tier = a.tier or os.environ.get("VERIF_TIER") or "quick"
    if tier not in ("quick", "thorough"):
        tier = "quick"
    seed = int(os.environ.get("VERIF_SEED", "0") or 0)
    if prop not in idx["properties"]:
        print(f"unknown property {prop}", file=sys.stderr)
        return 2
    pinfo = idx["properties"][prop]
    units = pinfo["units"]
    t0 = time.time()
    os.makedirs(EVID, exist_ok=True)
    evp = os.path.join(EVID, f"{prop}.json")
    if os.path.exists(evp):
        os.remove(evp)
    with cf.ThreadPoolExecutor(max_workers=min(6, len(units))) as ex:
        results = list(ex.map(lambda u: process_unit(u, tier, seed=seed), units))
    why = {}
    for u in units + ["common"]:
        tf = os.path.join(UNITS, u, "trusted.txt")
        if os.path.isfile(tf):
            for l in open(tf):
                if "#" in l and l.split("#")[0].strip():
                    why.setdefault(l.split("#")[0].strip(), l.split("#", 1)[1].strip())
    known = load_known()
    known_ids = {k["obligation"]: k for k in known.get("findings", []) if k.get("property") == prop}
    rc = 0
    viol_lines, known_lines, und_lines = [], [], []
    total_obl = total_dis = 0
    distinct_fns, distinct_clauses, all_failed, undecided_units = set(), {}, set(), 0
    fn_list, trusted, samples, mutants, seeds = [], set(), [], [], []
    for r in results:
        nfail = 0
        if r.status == "violation":
            new = []
            for f in r.failures:
                oid = obligation_id(r.unit, f)
                if oid in known_ids:
                    known_lines.append(f"KNOWN-FINDING: property={prop} {known_ids[oid].get('what', oid)}")
                else:
                    new.append(f)
            nfail = len({obligation_id(r.unit, f) for f in r.failures})
            if new:
                base_exists = os.path.isfile(os.path.join(BASE, f"{r.unit}.json"))
                if base_exists and not r.changed_items:
                    und_lines.append(f"UNDECIDED unit={r.unit} obligations fail although every extracted item is byte-identical to the baseline (machinery/tool drift): " + "; ".join(obligation_id(r.unit, f) for f in new[:3]))
                    rc = max(rc, 2)
                else:
                    rp = os.path.join(BUILD, "replay", f"{prop}_{r.unit}.json")
                    found = run_replay(prop, r.unit, new, seed, rp)
                    for f in new[:6]:
                        print(f"  failed obligation: {obligation_id(r.unit, f)}  [{f['where']}]")
                    viol_lines.append(f"VIOLATION property={prop} replay={rp}" + ("" if found else " no-failing-input-found"))
                    rc = 1 if rc != 1 else rc
        elif r.status == "undecided":
            und_lines.append(f"UNDECIDED unit={r.unit} {r.reason}")
            if rc == 0:
                rc = 2
        all_failed.update(obligation_id(r.unit, f).split("::", 1)[1] for f in r.failures)
        for fn in r.fn_names:
            distinct_fns.add(fn)
        for o, n in r.clause_owners.items():
            distinct_clauses[o] = max(distinct_clauses.get(o, 0), n)
        if r.status == "undecided":
            undecided_units += 1
        for f in r.functions:
            f2 = dict(f, unit=r.unit)
            fn_list.append(f2)
        trusted.update(f"{r.unit}: {t}" + (f" -- {why[t]}" if why.get(t) else "") for t in r.trusted)
        mutants += [dict(m, unit=r.unit) for m in r.mutants]
        seeds += [dict(s, unit=r.unit) for s in r.seeds]
    # shared fragments are included by several units: every function / clause is counted ONCE per property
    total_all = len(distinct_fns) + sum(distinct_clauses.values())
    # an obligation listed in known_findings.json is a recorded defect of /repo, not part of what is claimed proved:
    # it is taken out of the obligation count and reported under coverage.known_findings
    known_failed = {oid.split("::", 1)[1] for oid in known_ids if oid.split("::", 1)[1] in all_failed}
    total_obl = total_all - len(known_failed)
    total_dis = 0 if undecided_units else max(0, total_all - len(all_failed))
    # samples: a few obligations written out
    seen_s = set()
    for r in results:
        try:
            gen = rsx.generate(os.path.join(UNITS, r.unit))
            cands = []
            for (s, e, i, segs) in gen["regions"]:
                for (os_, oe, kind, tag, _src) in segs:
                    if kind == "ins" and tag == "R-ann(contract)":
                        cands.append((oe - os_, gen["items"][i].name, gen["text"][s + os_:s + oe]))
                        break
            for (_n, name, text) in sorted(cands, reverse=True):
                if name in seen_s:
                    continue
                seen_s.add(name)
                samples.append({"obligation": f"{r.unit}::{name}::contract", "text": norm(text, 600)})
                if sum(1 for x in samples if x["obligation"].startswith(r.unit + "::")) >= 2:
                    break
        except Exception:
            pass
    if rc == 1:
        # a violation dominates undecided
        pass
    wall = time.time() - t0
    ev = {
        "property_id": prop, "tier": tier, "seed": seed, "level": "proof",
        "coverage": {
            "obligations": total_obl, "discharged": total_dis,
            "checker_cmd": "; ".join(sorted({r.cmd for r in results if r.cmd})) or "verus <unit>.rs --output-json --time --error-format=json",
            "trusted_base": sorted(trusted) + idx.get("trusted_base_common", []) + pinfo.get("trusted_base", []),
            "template_written_standins": {r.unit: getattr(r, "standins", []) for r in results},
            "template_written_standins_note": "executable functions written in the unit templates (getters of stand-in types, structural PartialEq models, wrappers binding the free variables of an extracted statement range); Verus checks their bodies, but their agreement with the real counterpart in /repo is ASSUMED, like the external_body items in trusted_base",
            "explanation": pinfo.get("what", ""),
            "obligation_counting_rule": "obligations = distinct functions Verus checked (each bundles its implicit safety obligations: overflow, index bounds, callee preconditions, unreachable panics, termination) + distinct explicit requires/ensures/invariant/decreases/assert clauses in the spliced annotations and the prelude; a function or clause of a fragment shared by several units of the property is counted once",
            "distinct_functions": len(distinct_fns), "distinct_explicit_clauses": sum(distinct_clauses.values()),
            "units": [{"unit": r.unit, "status": r.status, "reason": r.reason, "functions_verified": r.verified, "verus_errors": r.errors,
                       "explicit_clauses": r.explicit, "solver_ms": r.solver_ms, "wall_s": round(r.wall, 2), "backend": "verus-z3",
                       "vacuity_twin": {"splices": r.twin_expected, "refuted": r.twin_hit},
                       "changed_vs_baseline": r.changed_items, "proof_hints_dropped": getattr(r, "hints_dropped", []), "note": getattr(r, "note", "")} for r in results],
            "functions_under_contract": fn_list,
            "samples": samples or [{"note": "no contract could be rendered (extraction failed)"}],
            "negative_controls": mutants,
            "seed_stability": seeds,
            "not_decided": pinfo.get("not_decided", []),
            "bounded": pinfo.get("bounded", []),
            "failed_obligations": [obligation_id(r.unit, f) for r in results for f in r.failures],
            "known_findings": [{"obligation": k["obligation"], "what": k.get("what", "")} for k in known_ids.values() if k["obligation"].split("::", 1)[1] in all_failed],
            "obligations_including_known_findings": total_all,
        },
        "assumptions": idx.get("assumptions_common", []) + pinfo.get("assumptions", []),
        "wall_s": round(wall, 2),
        "violations": len(viol_lines),
    }
    with open(evp, "w") as f:
        json.dump(ev, f, indent=1)
    for r in results:
        if getattr(r, "note", ""):
            print(f"NOTE unit={r.unit} {r.note}")
    for l in known_lines:
        print(l)
    for l in und_lines:
        print(l)
    for l in viol_lines:
        print(l)
    if rc == 0:
        print(f"OK property={prop} tier={tier} units={len(results)} obligations={total_obl} discharged={total_dis} wall={wall:.1f}s")
    if viol_lines:
        return 1
    return rc


def cmd_unit(a):
    r = process_unit(a.unit, a.tier or "quick", keep=True, verbose=True)
    print(json.dumps({"unit": r.unit, "status": r.status, "reason": r.reason, "verified": r.verified, "errors": r.errors,
                      "explicit": r.explicit, "twin": [r.twin_hit, r.twin_expected], "changed": r.changed_items,
                      "trusted": r.trusted, "mutants": r.mutants, "seeds": r.seeds, "solver_ms": r.solver_ms, "wall": round(r.wall, 1),
                      "failures": [obligation_id(r.unit, f) for f in r.failures]}, indent=1))
    return 0 if r.status == "ok" else (1 if r.status == "violation" else 2)


def cmd_baseline(a):
    os.makedirs(BASE, exist_ok=True)
    units = a.units or sorted(d for d in os.listdir(UNITS) if os.path.isfile(os.path.join(UNITS, d, "unit.rs")))
    for u in units:
        bf = os.path.join(BASE, f"{u}.json")
        if getattr(a, "force", False) and os.path.isfile(bf):
            os.remove(bf)          # a deliberate change of the template (fewer functions) needs the old baseline out of the way
        r = process_unit(u, "quick")
        known_all = {k["obligation"] for k in load_known().get("findings", [])}
        ids = {obligation_id(u, f) for f in r.failures}
        if r.status == "violation" and ids and ids <= known_all:
            r.status = "ok"        # the only failing obligations are recorded findings: the baseline describes this tree
        if r.status != "ok":
            print(f"{u}: NOT written ({r.status}: {r.reason} {[obligation_id(u, f) for f in r.failures][:3]})")
            continue
        head = subprocess.run(["git", "-C", rsx.REPO, "rev-parse", "HEAD"], capture_output=True, text=True).stdout.strip()
        with open(os.path.join(BASE, f"{u}.json"), "w") as f:
            json.dump({"unit": u, "repo_head": head, "verified": r.verified, "explicit": r.explicit,
                       "items": {x["key"]: x["sha256"] for x in r.functions}}, f, indent=1, sort_keys=True)
        print(f"{u}: baseline written ({r.verified} functions, {r.explicit} explicit clauses)")
    return 0


def cmd_diff(a):
    os.execv(sys.executable, [sys.executable, os.path.join(HERE, "rsx.py"), os.path.join(UNITS, a.unit), "--diff"])


def cmd_replay(a):
    with open(a.path) as f:
        rec = json.load(f)
    print(json.dumps({k: rec[k] for k in ("property", "unit", "oracles_tried", "witness")}, indent=1))
    w = rec.get("witness")
    if not w:
        print("no failing input recorded (no-failing-input-found); failed obligations:")
        for o in rec["failed_obligations"]:
            print("  ", o["id"])
        return 0
    env = dict(os.environ, CARGO_TARGET_DIR=os.path.join(BUILD, "replay-target"), CARGO_NET_OFFLINE="true")
    p = subprocess.run(["cargo", "run", "--offline", "--release", "-q", "--", w["oracle"], "--input", w.get("input", "")],
                       cwd=os.path.join(ROOT, "replay"), env=env)
    return p.returncode


def cmd_selftest(a):
    """the verifier runs offline, proves a true claim and refutes a false one"""
    d = os.path.join(BUILD, "selftest")
    os.makedirs(d, exist_ok=True)
    ok_src = "use vstd::prelude::*;\nverus!{ fn f(x: u8) -> (r: u8) requires x < 255 ensures r == x + 1 { x + 1 } }\nfn main(){}\n"
    bad_src = "use vstd::prelude::*;\nverus!{ fn f(x: u8) -> (r: u8) ensures r == x + 1 { x + 1 } }\nfn main(){}\n"
    open(os.path.join(d, "ok.rs"), "w").write(ok_src)
    open(os.path.join(d, "bad.rs"), "w").write(bad_src)
    a1 = run_verus(os.path.join(d, "ok.rs"))
    a2 = run_verus(os.path.join(d, "bad.rs"))
    good = bool(a1["json"] and a1["json"]["verification-results"]["success"]) and bool(a2["json"] and not a2["json"]["verification-results"]["success"])
    print("selftest", "ok" if good else "FAILED")
    return 0 if good else 2


def main():
    ap = argparse.ArgumentParser()
    sp = ap.add_subparsers(dest="cmd", required=True)
    p = sp.add_parser("run"); p.add_argument("prop"); p.add_argument("--tier")
    p = sp.add_parser("unit"); p.add_argument("unit"); p.add_argument("--tier"); p.add_argument("--keep", action="store_true")
    p = sp.add_parser("baseline"); p.add_argument("units", nargs="*"); p.add_argument("--force", action="store_true")
    p = sp.add_parser("diff"); p.add_argument("unit")
    p = sp.add_parser("replay"); p.add_argument("path")
    p = sp.add_parser("selftest")
    a = ap.parse_args()
    rc = {"run": cmd_run, "unit": cmd_unit, "baseline": cmd_baseline, "diff": cmd_diff, "replay": cmd_replay, "selftest": cmd_selftest}[a.cmd](a)
    sys.exit(rc)


if __name__ == "__main__":
    main()
