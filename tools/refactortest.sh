#!/bin/sh
# tools/refactortest.sh <refactor-dir-name>  -- apply a semantics-preserving refactor, run EVERY registered
# check (scratch evidence), undo.  Expected outcome: no VIOLATION line (exit 0; exit 2 = undecided is tolerated
# but noted).
cd "$(dirname "$0")/.." || exit 2
rf="$1"
git -C /repo apply "$(pwd)/refactors/$rf/patch.diff" || exit 2
for p in $(python3 -c "import json;print(' '.join(c['property_id'] for c in json.load(open('MANIFEST.json'))['checks']))"); do
  out=$(VERIF_SCRATCH=1 ./check $p quick 2>&1); rc=$?
  [ $rc -ne 0 ] && echo "$rf $p rc=$rc: $(echo "$out" | grep -E 'VIOLATION|UNDECIDED|failed obligation' | head -4 | tr '\n' '|')"
done
git -C /repo checkout -- .
echo "== refactor $rf done"
