use vstd::prelude::*;
use core::cmp::Ordering;
verus! {

pub struct Name {
    pub is_fqdn: bool,
    pub label_data: Vec<u8>,
    pub label_ends: Vec<u8>,
}

pub struct LabelIter<'a> {
    pub name: &'a Name,
    pub start: u8,
    pub end: u8,
}

impl<'a> Iterator for LabelIter<'a> {
    type Item = &'a [u8];

    fn next(&mut self) -> Option<Self::Item> {
        if self.start >= self.end {
            return None;
        }

        let end = *self.name.label_ends.get(self.start as usize)?;
        let start = match self.start {
            0 => 0,
            _ => self.name.label_ends[(self.start - 1) as usize],
        };
        self.start += 1;
        Some(&self.name.label_data[start as usize..end as usize])
    }
}

impl<'a> vstd::std_specs::iter::IteratorSpecImpl for LabelIter<'a> {
    open spec fn obeys_prophetic_iter_laws(&self) -> bool { self.name.wf() && self.start <= self.end && self.end <= self.name.label_ends@.len() }
    open spec fn remaining(&self) -> Seq<Self::Item> { Seq::new((self.end - self.start) as nat, |i: int| self.name.label_slice(self.start + i)) }
    open spec fn will_return_none(&self) -> bool { true }
    open spec fn peek(&self, i: int) -> Option<Self::Item> { if 0 <= i < self.end - self.start { Some(self.name.label_slice(self.start + i)) } else { None } }
    open spec fn decrease(&self) -> Option<nat> { Some((self.end - self.start) as nat) }
}
impl<'a> DoubleEndedIterator for LabelIter<'a> {
    fn next_back(&mut self) -> Option<Self::Item> {
        if self.end <= self.start {
            return None;
        }

        self.end -= 1;

        let end = *self.name.label_ends.get(self.end as usize)?;
        let start = match self.end {
            0 => 0,
            _ => self.name.label_ends[(self.end - 1) as usize],
        };

        Some(&self.name.label_data[start as usize..end as usize])
    }
}

impl Name {
    pub open spec fn wf(&self) -> bool {
        &&& self.label_ends@.len() <= 255
        &&& forall|i: int| 0 <= i < self.label_ends@.len() ==> self.label_ends@[i] as int <= self.label_data@.len()
        &&& forall|i: int, j: int| 0 <= i <= j < self.label_ends@.len() ==> self.label_ends@[i] <= self.label_ends@[j]
    }
    pub open spec fn label_start(&self, i: int) -> int { if i == 0 { 0 } else { self.label_ends@[i-1] as int } }
    pub uninterp spec fn label_slice(&self, i: int) -> &[u8];

    pub fn iter(&self) -> LabelIter<'_> {
        LabelIter {
            name: self,
            start: 0,
            end: self.label_ends.len() as u8,
        }
    }

    fn cmp_labels(&self, other: &Self) -> Ordering {
        // Compare from root to local (reversed)
        for (l, r) in self.iter().rev().zip(other.iter().rev()) {
            for (a__r, b__r) in l.iter().zip(r.iter()) { let a = *a__r; let b = *b__r;
                match a.cmp(&b) {
                    Ordering::Equal => {}
                    ord => return ord,
                }
            }
            match l.len().cmp(&r.len()) {
                Ordering::Equal => {}
                ord => return ord,
            }
        }
        self.label_ends.len().cmp(&other.label_ends.len())
    }
}

} // verus!
fn main() {}
