use vstd::prelude::*;
verus! {

pub enum ProtoError { MaxBufferSizeExceeded(usize), NotAllRecordsWritten { count: usize }, Other }
pub type ProtoResult<T> = Result<T, ProtoError>;

pub struct BinEncoder { pub offset: usize, pub buffer: Vec<u8>, pub max_size: usize, pub name_pointers: Vec<(usize, Vec<u8>)> }

impl BinEncoder {
    pub open spec fn wf(&self) -> bool { self.offset <= self.buffer@.len() <= self.max_size }
}

pub trait BinEncodable {
    fn emit(&self, encoder: &mut BinEncoder) -> (r: ProtoResult<()>)
        requires old(encoder).wf()
        ensures final(encoder).wf(), final(encoder).max_size == old(encoder).max_size;
}

pub struct Rollback { pub offset: usize, pub pointers: usize }
impl Rollback {
    pub fn rollback(self, encoder: &mut BinEncoder)
        requires self.offset <= old(encoder).buffer@.len(), old(encoder).wf()
        ensures final(encoder).offset == self.offset, final(encoder).wf(), final(encoder).max_size == old(encoder).max_size,
            final(encoder).buffer@.len() == final(encoder).offset,
    {
        let Self { offset, pointers } = self;
        encoder.offset = offset;
        encoder.name_pointers.truncate(pointers);
    }
}

impl BinEncoder {
    pub fn emit_iter<'e>(
        &mut self,
        iter: impl IntoIterator<Item = &'e (impl BinEncodable + 'e)>,
    ) -> (r: ProtoResult<usize>)
        requires old(self).wf()
        ensures final(self).wf(),
            r matches Err(ProtoError::NotAllRecordsWritten{ .. }) ==> final(self).buffer@.len() == final(self).offset,
    {
        let mut count = 0;
        for i in iter {
            let rollback = Rollback {
                offset: self.offset,
                pointers: self.name_pointers.len(),
            };

            if let Err(e) = i.emit(self) {
                return Err(match &e {
                    ProtoError::MaxBufferSizeExceeded(_vp0) => {
                        rollback.rollback(self);
                        ProtoError::NotAllRecordsWritten { count }
                    }
                    _ => e,
                });
            }

            count += 1;
        }
        Ok(count)
    }
}

} // verus!
fn main() {}
