use crate::rr::Name;
use core::cmp::Ordering;

fn any_name() -> Name {
    let a: [u8; 2] = kani::any();
    let b: [u8; 2] = kani::any();
    let la: usize = kani::any();
    let lb: usize = kani::any();
    kani::assume(la >= 1 && la <= 2 && lb <= 2);
    let mut n = Name::root();
    n = n.append_label(&a[..la]).unwrap();
    if lb > 0 {
        n = n.append_label(&b[..lb]).unwrap();
    }
    n
}

#[kani::proof]
#[kani::unwind(34)]
fn probe_name_cmp_antisym() {
    let x = any_name();
    let y = any_name();
    let c1 = x.cmp(&y);
    let c2 = y.cmp(&x);
    assert!(c1 == c2.reverse());
    assert!((c1 == Ordering::Equal) == (x == y));
}
