use vstd::prelude::*;
use vstd::std_specs::iter::IteratorSpec;
verus! {
proof fn slice_ext(a: &[u8], b: &[u8])
    requires a@ =~= b@
    ensures a == b
{
    assert(a =~= b);
}

pub struct Name { pub label_data: Vec<u8>, pub label_ends: Vec<u8> }
impl Name {
    pub open spec fn wf(&self) -> bool {
        &&& self.label_ends@.len() <= 255
        &&& forall|i: int| 0 <= i < self.label_ends@.len() ==> (#[trigger] self.label_ends@[i]) as int <= self.label_data@.len()
        &&& forall|i: int, j: int| 0 <= i <= j < self.label_ends@.len() ==> self.label_ends@[i] <= self.label_ends@[j]
    }
    pub open spec fn lstart(&self, i: int) -> int { if i == 0 { 0 } else { self.label_ends@[i-1] as int } }
    pub open spec fn lbl(&self, i: int) -> Seq<u8> { self.label_data@.subrange(self.lstart(i), self.label_ends@[i] as int) }
}
pub struct LabelIter<'a> { name: &'a Name, start: u8, end: u8 }

impl<'a> LabelIter<'a> {
    #[verifier::type_invariant]
    pub closed spec fn inv(self) -> bool { self.name.wf() && self.end <= self.name.label_ends@.len() }
    pub closed spec fn rem(&self) -> Seq<&'a [u8]> {
        Seq::new((if self.start < self.end { self.end - self.start } else { 0 }) as nat,
                 |i: int| choose|s: &'a [u8]| s@ == self.name.lbl(self.start + i))
    }
}
impl<'a> vstd::std_specs::iter::IteratorSpecImpl for LabelIter<'a> {
    closed spec fn obeys_prophetic_iter_laws(&self) -> bool { true }
    closed spec fn remaining(&self) -> Seq<Self::Item> { self.rem() }
    open spec fn will_return_none(&self) -> bool { true }
    open spec fn peek(&self, i: int) -> Option<Self::Item> { None }
    closed spec fn decrease(&self) -> Option<nat> { Some((if self.start < self.end { self.end - self.start } else { 0 }) as nat) }
}

impl<'a> Iterator for LabelIter<'a> {
    type Item = &'a [u8];

    fn next(&mut self) -> Option<Self::Item> {
        if self.start >= self.end {
            return None;
        }

        proof { use_type_invariant(&*self); }
        let end = *self.name.label_ends.get(self.start as usize)?;
        let start = match self.start {
            0 => 0,
            _ => self.name.label_ends[(self.start - 1) as usize],
        };
        self.start += 1;
        let r = &self.name.label_data[start as usize..end as usize];
        proof {
            let o = old(self);
            let w = choose|s: &'a [u8]| s@ == o.name.lbl(o.start as int);
            assert(r@ =~= o.name.lbl(o.start as int));
            assert(w@ == o.name.lbl(o.start as int));
            assert(r =~= w);
            assert(self.rem() =~= o.rem().drop_first());
        }
        Some(r)
    }
}
} // verus!
fn main() {}
