use vstd::prelude::*;
verus! {
#[verifier::external_body]
pub fn vp_u16_from_be_bytes(b: [u8; 2]) -> (r: u16) ensures r == (b[0] as int) * 256 + (b[1] as int) { u16::from_be_bytes(b) }

#[derive(Clone, Copy)]
pub struct Restrict<T>(pub T);

impl<T> Restrict<T> {
    pub fn new(restricted: T) -> (r: Self)
        ensures r.0 == restricted
    {
        Self(restricted)
    }
    pub fn unverified(self) -> (r: T)
        ensures r == self.0
    {
        self.0
    }
    pub fn verify_unwrap<F: Fn(&T) -> bool>(self, f: F) -> (r: Result<T, T>)
        requires f.requires((&self.0,))
        ensures match r { Ok(t) => t == self.0 && f.ensures((&self.0,), true), Err(t) => t == self.0 && f.ensures((&self.0,), false) }
    {
        if f(&self.0) { Ok(self.0) } else { Err(self.0) }
    }
    pub fn map<R, F: Fn(T) -> R>(self, f: F) -> (r: Restrict<R>)
        requires f.requires((self.0,))
        ensures f.ensures((self.0,), r.0)
    {
        Restrict(f(self.0))
    }
}

pub enum DecodeError {
    InsufficientBytes,
    InvalidPreviousIndex,
    LabelBytesTooLong(usize),
    DomainNameTooLong(usize),
    UnrecognizedLabelCode(u8),
    PointerNotPriorToLabel { idx: usize, ptr: u16 },
    LabelOverlapsWithOther { label: usize, other: usize },
}

pub struct BinDecoder<'a> {
    buffer: &'a [u8],
    remaining: &'a [u8],
}

impl<'a> BinDecoder<'a> {
    pub closed spec fn wf(&self) -> bool {
        self.remaining@.len() <= self.buffer@.len()
        && self.remaining@ =~= self.buffer@.subrange(self.buffer@.len() - self.remaining@.len(), self.buffer@.len() as int)
    }
    pub closed spec fn buf(&self) -> Seq<u8> { self.buffer@ }
    pub closed spec fn idx(&self) -> int { self.buffer@.len() - self.remaining@.len() }

    pub fn pop(&mut self) -> (r: Result<Restrict<u8>, DecodeError>)
        requires old(self).wf()
        ensures final(self).wf(), final(self).buf() == old(self).buf(),
          match r { Ok(v) => old(self).idx() < old(self).buf().len() && final(self).idx() == old(self).idx() + 1 && v.0 == old(self).buf()[old(self).idx()],
                    Err(_) => old(self).idx() == old(self).buf().len() && final(self).idx() == old(self).idx() }
    {
        if let Some((first, remaining)) = self.remaining.split_first() {
            self.remaining = remaining;
            return Ok(Restrict::new(*first));
        }
        Err(DecodeError::InsufficientBytes)
    }

    pub fn peek(&self) -> (r: Option<Restrict<u8>>)
        requires self.wf()
        ensures match r { Some(v) => self.idx() < self.buf().len() && v.0 == self.buf()[self.idx()], None => self.idx() == self.buf().len() }
    {
        Some(Restrict::new(*self.remaining.first()?))
    }

    pub fn index(&self) -> (r: usize)
        requires self.wf()
        ensures r == self.idx()
    {
        self.buffer.len() - self.remaining.len()
    }

    pub fn clone(&self, index_at: u16) -> (r: Self)
        requires self.wf(), index_at as int <= self.buf().len()
        ensures r.wf(), r.buf() == self.buf(), r.idx() == index_at
    {
        BinDecoder {
            buffer: self.buffer,
            remaining: &self.buffer[index_at as usize..],
        }
    }

    pub fn read_character_data(&mut self) -> (r: Result<Restrict<&[u8]>, DecodeError>)
        requires old(self).wf()
        ensures final(self).wf(), final(self).buf() == old(self).buf(),
            final(self).idx() >= old(self).idx(),
            match r { Ok(v) => final(self).idx() == old(self).idx() + 1 + v.0@.len() && v.0@.len() <= 255, Err(_) => true }
    {
        let length = self.pop()?.unverified() as usize;
        self.read_slice(length)
    }

    pub fn read_slice(&mut self, len: usize) -> (r: Result<Restrict<&'a [u8]>, DecodeError>)
        requires old(self).wf()
        ensures final(self).wf(), final(self).buf() == old(self).buf(),
            match r { Ok(v) => final(self).idx() == old(self).idx() + len && v.0@ =~= old(self).buf().subrange(old(self).idx(), old(self).idx() + len),
                      Err(_) => final(self).idx() == old(self).idx() }
    {
        if len > self.remaining.len() {
            return Err(DecodeError::InsufficientBytes);
        }
        let (read, remaining) = self.remaining.split_at(len);
        self.remaining = remaining;
        Ok(Restrict::new(read))
    }

    pub fn read_u16(&mut self) -> (r: Result<Restrict<u16>, DecodeError>)
        requires old(self).wf()
        ensures final(self).wf(), final(self).buf() == old(self).buf(),
            match r { Ok(v) => final(self).idx() == old(self).idx() + 2, Err(_) => final(self).idx() == old(self).idx() }
    {
        Ok(self
            .read_slice(2)?
            .map(|s: &[u8]| -> (r: u16) requires s@.len() == 2 { vp_u16_from_be_bytes([s[0], s[1]]) }))
    }
}


pub struct Name {
    pub is_fqdn: bool,
    pub label_data: Vec<u8>,
    pub label_ends: Vec<u8>,
}

impl Name {
    pub closed spec fn wf(&self) -> bool {
        self.label_ends@.len() + self.label_data@.len() + 1 <= 255
    }
    fn encoded_len(&self) -> (r: usize)
        requires self.wf()
        ensures r == self.label_ends@.len() + self.label_data@.len() + 1
    {
        self.label_ends.len() + self.label_data.len() + 1
    }
    pub fn len(&self) -> (r: usize)
        requires self.wf()
        ensures r <= 255
    {
        let dots = if !self.label_ends.is_empty() {
            self.label_ends.len()
        } else {
            1
        };
        dots + self.label_data.len()
    }
    pub fn set_fqdn(&mut self, val: bool)
        ensures final(self).label_data == old(self).label_data, final(self).label_ends == old(self).label_ends
    {
        self.is_fqdn = val
    }

    fn extend_name(&mut self, label: &[u8]) -> (r: Result<(), DecodeError>)
        requires old(self).wf(), label@.len() <= 255
        ensures final(self).wf()
    {
        let new_len = self.encoded_len() + label.len() + 1;

        if new_len > Self::MAX_LENGTH {
            return Err(DecodeError::DomainNameTooLong(new_len));
        };

        self.label_data.extend_from_slice(label);
        self.label_ends.push(self.label_data.len() as u8);

        Ok(())
    }
    pub const MAX_LENGTH: usize = 255;
}

enum LabelParseState {
    LabelLengthOrPointer, // basically the start of the FSM
    Label,                // storing length of the label, must be < 63
    Pointer,              // location of pointer in slice,
    Root,                 // root is the end of the labels list for an FQDN
}

fn read_inner(decoder: &mut BinDecoder<'_>, name: &mut Name) -> (r: Result<(), DecodeError>)
    requires old(decoder).wf(), old(name).wf()
    ensures final(name).wf()
{
    let mut state: LabelParseState = LabelParseState::LabelLengthOrPointer;
    let mut ptr_max_idx = None;
    let mut decoder_tmp;
    let mut decoder = &mut *decoder;
    let mut name_start = decoder.index();

    loop
        invariant decoder.wf(), name.wf(), name_start <= decoder.buf().len(),
        decreases name_start, decoder.buf().len() - decoder.idx(), (if state is LabelLengthOrPointer { 1int } else { 0int }),
    {
        // this protects against overlapping labels when chasing pointers
        if let Some(max_idx) = ptr_max_idx {
            if decoder.index() >= max_idx {
                return Err(DecodeError::LabelOverlapsWithOther {
                    label: name_start,
                    other: max_idx,
                });
            }
        }

        state = match state {
            LabelParseState::LabelLengthOrPointer => {
                // determine what the next label is
                match decoder
                    .peek()
                    .map(Restrict::unverified /*verified in this usage*/)
                {
                    Some(0) => {
                        name.set_fqdn(true);
                        LabelParseState::Root
                    }
                    None => {
                        return Err(DecodeError::InsufficientBytes);
                    }
                    Some(byte) if byte & 0b1100_0000 == 0b1100_0000 => LabelParseState::Pointer,
                    Some(byte) if byte & 0b1100_0000 == 0b0000_0000 => LabelParseState::Label,
                    Some(byte) => return Err(DecodeError::UnrecognizedLabelCode(byte)),
                }
            }
            // labels must have a maximum length of 63
            LabelParseState::Label => {
                let label = decoder
                    .read_character_data()?
                    .verify_unwrap(|l| l.len() <= 63)
                    .map_err(|l| DecodeError::LabelBytesTooLong(l.len()))?;

                name.extend_name(label)
                    .map_err(|_vp0| DecodeError::DomainNameTooLong(label.len()))?;

                // reset to collect more data
                LabelParseState::LabelLengthOrPointer
            }
            LabelParseState::Pointer => {
                let pointer_location = decoder.index();
                let location = decoder
                    .read_u16()?
                    .map(|u| {
                        // get rid of the two high order bits, they are markers for length or pointers
                        u & 0x3FFF
                    })
                    .verify_unwrap(|ptr: &u16| -> (b: bool) ensures b == ((*ptr as usize) < name_start) {
                        // all labels must appear "prior" to this Name
                        (*ptr as usize) < name_start
                    })
                    .map_err(|e| DecodeError::PointerNotPriorToLabel {
                        idx: pointer_location,
                        ptr: e,
                    })?;

                // chase the pointer
                ptr_max_idx = Some(name_start);
                decoder_tmp = decoder.clone(location);
                decoder = &mut decoder_tmp;
                name_start = decoder.index();
                LabelParseState::LabelLengthOrPointer
            }
            LabelParseState::Root => {
                // need to pop() the 0 off the stack...
                decoder.pop()?;
                break;
            }
        }
    }

    // TODO: should we consider checking this while the name is parsed?
    let len = name.len();
    if len >= 255 {
        return Err(DecodeError::DomainNameTooLong(len));
    }

    Ok(())
}
} // verus!
fn main() {}
