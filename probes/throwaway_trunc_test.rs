use hickory_proto::op::*;
use hickory_proto::rr::*;
use hickory_proto::rr::rdata::*;
use hickory_proto::serialize::binary::*;
use std::str::FromStr;

#[test]
fn probe() {
    let mut bad = 0;
    for limit in 12u16..200 {
        let mut m = Message::query();
        m.add_query(Query::new(Name::from_str("www.example.com.").unwrap(), RecordType::TXT));
        for i in 0..5 {
            m.add_answer(Record::from_rdata(Name::from_str("www.example.com.").unwrap(), 30, RData::TXT(TXT::new(vec![format!("hello world {i}")]))));
        }
        let mut buf = Vec::new();
        let r = {
            let mut enc = BinEncoder::new(&mut buf);
            enc.set_max_size(limit);
            m.emit(&mut enc)
        };
        if r.is_err() { continue; }
        assert!(buf.len() <= limit as usize);
        let mut dec = BinDecoder::new(&buf);
        match Message::read(&mut dec) {
            Ok(d) => {
                if dec.len() != 0 {
                    bad += 1;
                    if bad < 5 { println!("limit {limit}: buf.len {} leftover {} answers {} tc {}", buf.len(), dec.len(), d.answers.len(), d.metadata.truncation); }
                }
            }
            Err(e) => { println!("limit {limit}: decode err {e}"); bad += 1; }
        }
    }
    println!("bad = {bad}");
}
