import re,sys
src=open('logs/crate-simple.vir').read()
# tokenise s-expr
tok=re.findall(r'"(?:[^"\\]|\\.)*"|[()]|[^\s()]+',src)
def parse(i):
    out=[]
    while i<len(tok):
        t=tok[i]
        if t=='(':
            sub,i=parse(i+1); out.append(sub)
        elif t==')':
            return out,i+1
        else:
            out.append(t); i+=1
    return out,i
tree,_=parse(0)
def find_fn(t,name,acc):
    if isinstance(t,list):
        if len(t)>2 and t[0]=='Function' and ':name' in t:
            nm=t[t.index(':name')+1]
            if isinstance(nm,list) and name in ' '.join(map(str,nm)):
                acc.append(t)
        for c in t: find_fn(c,name,acc)
def simp(t):
    # compact printer
    if not isinstance(t,list): return t
    if len(t)==0: return '()'
    h=t[0]
    if h in('@','@@') and len(t)>=3: return simp(t[2])
    if h=='>' : return simp(t[1:]) if len(t)>2 else simp(t[1])
    if h=='Call':
        tgt=t[t.index(':target')+1]; args=t[t.index(':args')+1]
        fn=[x for x in flatten(tgt) if '::' in str(x) and not str(x).startswith(':')]
        return '%s(%s)'%(fn[0].split('::')[-1] if fn else '?', ', '.join(simp(a) for a in args))
    if h=='Binary': return '(%s %s %s)'%(simp(t[2]), simp(t[1]), simp(t[3]))
    if h=='BinaryOp': return ' '.join(map(str,t[1:]))
    if h=='Logical': return '(%s %s %s)'%(simp(t[2]), simp(t[1]), simp(t[3]))
    if h=='LogicalOp': return t[1]
    if h=='Unary': return '%s(%s)'%(simp(t[1]),simp(t[2]))
    if h=='UnaryOp': return ' '.join(str(simp(x)) for x in t[1:])
    if h=='UnaryOpr': return '%s(%s)'%(simp(t[1]),simp(t[2]))
    if h=='ReadPlace': return simp(t[1])
    if h=='Place': 
        if t[1]=='Local': return simp(t[2])
        if t[1] in('Temporary','DerefMut'): return ('*' if t[1]=='DerefMut' else '')+simp(t[2])
        return 'Place(%s)'%' '.join(simp(x) for x in t[1:])
    if h=='VarIdent': return t[1].strip('"')
    if h=='Old': return 'old(%s)'%simp(t[1])
    if h=='Typ': return ''
    return '(%s)'%' '.join(s for s in (simp(x) for x in t) if s)
def flatten(t):
    if isinstance(t,list):
        for c in t: yield from flatten(c)
    else: yield t
acc=[]; find_fn(tree,sys.argv[1],acc)
for f in acc[:1]:
    ens=f[f.index(':ensure')+1]
    for e in ens[1] if ens and ens[0]=='tuple' else ens:
        print('ENS:',simp(e)); print()
