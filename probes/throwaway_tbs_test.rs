#![cfg(feature = "dnssec-ring")]
use hickory_proto::dnssec::{Algorithm, TBS, rdata::sig::SigInput};
use hickory_proto::rr::*;
use hickory_proto::rr::rdata::*;
use std::str::FromStr;

fn find(h: &[u8], n: &[u8]) -> Option<usize> { h.windows(n.len()).position(|w| w == n) }

#[test]
fn probe() {
    let owner = Name::from_str("example.").unwrap();
    let input = SigInput {
        type_covered: RecordType::NS, algorithm: Algorithm::ED25519, num_labels: 1, original_ttl: 300,
        sig_expiration: SerialNumber::new(2000), sig_inception: SerialNumber::new(1000), key_tag: 1,
        signer_name: owner.clone(),
    };
    let r1 = Record::from_rdata(owner.clone(), 300, RData::NS(NS(Name::from_ascii("Bravo.example.").unwrap())));
    let r2 = Record::from_rdata(owner.clone(), 300, RData::NS(NS(Name::from_ascii("alpha.example.").unwrap())));
    let recs = vec![r1.clone(), r2.clone()];
    let tbs = TBS::from_input(&owner, DNSClass::IN, &input, recs.iter()).unwrap();
    let b = tbs.as_ref();
    let pa = find(b, b"\x05alpha"); let pb = find(b, b"\x05bravo"); let pB = find(b, b"\x05Bravo");
    println!("alpha at {pa:?}, bravo at {pb:?}, Bravo at {pB:?}");
    // duplicates
    let recs = vec![r2.clone(), r2.clone()];
    let tbs2 = TBS::from_input(&owner, DNSClass::IN, &input, recs.iter()).unwrap();
    let recs1 = vec![r2.clone()];
    let tbs1 = TBS::from_input(&owner, DNSClass::IN, &input, recs1.iter()).unwrap();
    println!("dup len {} single len {}", tbs2.as_ref().len(), tbs1.as_ref().len());
}
