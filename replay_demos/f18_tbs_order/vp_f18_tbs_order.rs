//! Replay of finding F18 (C05): the RRs of the signed data must be in RFC 4034 6.3 canonical order -- by the RDATA of the
//! CANONICAL FORM (embedded names lower-cased, 6.2) -- and each distinct RR appears once. TBS::new sorts with Ord for
//! Record / Ord for RData, which compares `to_bytes()`: the case-preserving, non-canonical encoding. The expected bytes
//! are built by a hand-written encoder that follows the RFC text; an Ed25519 "third-party" signature over them must verify.
#![cfg(feature = "dnssec-ring")]
use hickory_proto::dnssec::crypto::Ed25519SigningKey;
use hickory_proto::dnssec::rdata::{DNSKEY, RRSIG, SigInput};
use hickory_proto::dnssec::{SigningKey, TBS, Verifier};
use hickory_proto::rr::rdata::NS;
use hickory_proto::rr::{DNSClass, Name, RData, Record, RecordType, SerialNumber};

fn canonical_name(name: &str) -> Vec<u8> {
    let mut out = Vec::new();
    for label in name.split('.').filter(|l| !l.is_empty()) {
        out.push(label.len() as u8);
        out.extend(label.bytes().map(|b| b.to_ascii_lowercase()));
    }
    out.push(0);
    out
}

/// signed_data = RRSIG_RDATA (without signature) | RR(1) | RR(2) ...; `targets` in the order given
fn rfc_signed_data(owner: &str, key_tag: u16, alg: u8, targets: &[&str]) -> Vec<u8> {
    let mut out = Vec::new();
    out.extend(2u16.to_be_bytes()); // type covered: NS
    out.push(alg);
    out.push(2); // labels of example.com.
    out.extend(3600u32.to_be_bytes());
    out.extend(1_900_000_000u32.to_be_bytes());
    out.extend(1_700_000_000u32.to_be_bytes());
    out.extend(key_tag.to_be_bytes());
    out.extend(canonical_name(owner));
    for t in targets {
        let rdata = canonical_name(t);
        out.extend(canonical_name(owner));
        out.extend(2u16.to_be_bytes());
        out.extend(1u16.to_be_bytes());
        out.extend(3600u32.to_be_bytes());
        out.extend((rdata.len() as u16).to_be_bytes());
        out.extend(rdata);
    }
    out
}

fn run(wire_targets: &[&str], canonical_order: &[&str]) -> (Vec<u8>, Vec<u8>, bool) {
    let owner = "example.com.";
    let owner_name = Name::from_ascii(owner).unwrap();
    let pkcs8 = Ed25519SigningKey::generate_pkcs8().unwrap();
    let key = Ed25519SigningKey::from_pkcs8(&pkcs8).unwrap();
    let dnskey = DNSKEY::from_key(&key.to_public_key().unwrap());
    let key_tag = dnskey.calculate_key_tag().unwrap();
    let records: Vec<Record> = wire_targets.iter()
        .map(|t| Record::from_rdata(owner_name.clone(), 3600, RData::NS(NS(Name::from_ascii(t).unwrap())))).collect();
    let input = SigInput {
        type_covered: RecordType::NS, algorithm: key.algorithm(), num_labels: 2, original_ttl: 3600,
        sig_expiration: SerialNumber::new(1_900_000_000), sig_inception: SerialNumber::new(1_700_000_000),
        key_tag, signer_name: owner_name.clone(),
    };
    let expected = rfc_signed_data(owner, key_tag, u8::from(key.algorithm()), canonical_order);
    let actual = TBS::from_input(&owner_name, DNSClass::IN, &input, records.iter()).unwrap();
    // a conforming third-party signer signs the RFC signed data; the built-in verifier must accept it
    let signature = key.sign(&TBS::from(&expected[..])).unwrap();
    let rrsig = RRSIG::from_sig(input, signature);
    let verified = dnskey.verify_rrsig(&owner_name, DNSClass::IN, &rrsig, records.iter()).is_ok();
    (actual.as_ref().to_vec(), expected, verified)
}

#[test]
fn mixed_case_rdata_names_are_ordered_by_their_canonical_form() {
    // canonical RDATA: "alpha..." < "bravo..."; case-preserving bytes: 'B' (0x42) < 'a' (0x61)
    let (actual, expected, verified) = run(&["Bravo.example.net.", "alpha.example.net."], &["alpha.example.net.", "Bravo.example.net."]);
    assert_eq!(actual, expected, "signed data is not in RFC 4034 6.3 canonical order");
    assert!(verified, "an RRset signed by a conforming third-party signer does not verify");
}

#[test]
fn duplicate_records_are_signed_once() {
    let (actual, expected, verified) = run(&["ns1.example.net.", "ns1.example.net."], &["ns1.example.net."]);
    assert_eq!(actual, expected, "a duplicated RR appears twice in the signed data (RFC 4034 6.3: all but one MUST be removed)");
    assert!(verified);
}

#[test]
fn lower_case_rrset_control() {
    let (actual, expected, verified) = run(&["ns2.example.net.", "ns1.example.net."], &["ns1.example.net.", "ns2.example.net."]);
    assert_eq!(actual, expected);
    assert!(verified);
}
