#!/bin/sh
# Replay of finding F18 (C05): sh run.sh [commit]  -- on the unchanged tree the first two tests FAIL, the control passes
set -e
C="${1:-HEAD}"; WT=/tmp/wt_f18_demo
git -C /repo worktree remove --force $WT 2>/dev/null || true
git -C /repo worktree add -q --detach $WT "$C"
mkdir -p $WT/crates/proto/tests && cp "$(dirname "$(readlink -f "$0")")/vp_f18_tbs_order.rs" $WT/crates/proto/tests/
cd $WT && CARGO_NET_OFFLINE=true cargo test -p hickory-proto --offline --features dnssec-ring --test vp_f18_tbs_order 2>&1 | grep -E "^test |panicked|test result|^error|canonical order|appears twice|does not verify" || true
cd / && git -C /repo worktree remove --force $WT
