#!/bin/sh
# Replay of finding F14 (C06) on the real code: sh run.sh [commit]   (FAILS at HEAD: recorded finding)
set -e
C="${1:-HEAD}"; WT=/tmp/wt_f14_demo
git -C /repo worktree remove --force $WT 2>/dev/null || true
git -C /repo worktree add -q --detach $WT "$C"
mkdir -p $WT/crates/net/tests && cp "$(dirname "$(readlink -f "$0")")/probe_cache.rs" $WT/crates/net/tests/
cd $WT && CARGO_NET_OFFLINE=true cargo test -p hickory-net --features dnssec-ring --offline --test probe_cache -- --nocapture 2>&1 | grep -E "^test |first:|at \+|test result" || true
cd / && git -C /repo worktree remove --force $WT
