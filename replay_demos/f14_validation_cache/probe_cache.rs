use std::{
    collections::HashMap,
    future::Future,
    io,
    net::{Ipv4Addr, SocketAddr},
    pin::Pin,
    str::FromStr,
    sync::{
        Arc, Mutex,
        atomic::{AtomicU64, Ordering},
    },
    time::Duration,
};

use async_trait::async_trait;
use futures_util::stream::{self, Stream};
use hickory_net::{
    DnsHandle, NetError,
    dnssec::DnssecDnsHandle,
    proto::{
        dnssec::{
            Algorithm, Proof, PublicKeyBuf, SigningKey, TBS, TrustAnchors,
            crypto::Ed25519SigningKey,
            rdata::{DNSKEY, DNSSECRData, RRSIG, SigInput},
        },
        op::{DnsRequest, DnsRequestOptions, DnsResponse, Message, Query},
        rr::{DNSClass, Name, RData, Record, RecordType, SerialNumber, rdata::A},
    },
    runtime::{RuntimeProvider, Time, TokioHandle, TokioRuntimeProvider, TokioTime},
    xfer::FirstAnswer,
};

// ---------------------------------------------------------------------------------------------
// A runtime whose wall clock is controlled by the test
// ---------------------------------------------------------------------------------------------

static CLOCK: AtomicU64 = AtomicU64::new(0);
/// Serializes the tests in this file, they share `CLOCK`.
static SERIAL: Mutex<()> = Mutex::new(());

#[derive(Clone, Copy)]
struct FakeTime;

#[async_trait]
impl Time for FakeTime {
    async fn delay_for(duration: Duration) {
        TokioTime::delay_for(duration).await
    }

    async fn timeout<F: 'static + Future + Send>(
        duration: Duration,
        future: F,
    ) -> Result<F::Output, io::Error> {
        TokioTime::timeout(duration, future).await
    }

    fn current_time() -> u64 {
        CLOCK.load(Ordering::SeqCst)
    }
}

#[derive(Clone, Default)]
struct FakeRuntime(TokioRuntimeProvider);

impl RuntimeProvider for FakeRuntime {
    type Handle = TokioHandle;
    type Timer = FakeTime;
    type Udp = <TokioRuntimeProvider as RuntimeProvider>::Udp;
    type Tcp = <TokioRuntimeProvider as RuntimeProvider>::Tcp;

    fn create_handle(&self) -> Self::Handle {
        self.0.create_handle()
    }

    fn connect_tcp(
        &self,
        server_addr: SocketAddr,
        bind_addr: Option<SocketAddr>,
        timeout: Option<Duration>,
    ) -> Pin<Box<dyn Send + Future<Output = Result<Self::Tcp, io::Error>>>> {
        self.0.connect_tcp(server_addr, bind_addr, timeout)
    }

    fn bind_udp(
        &self,
        local_addr: SocketAddr,
        server_addr: SocketAddr,
    ) -> Pin<Box<dyn Send + Future<Output = Result<Self::Udp, io::Error>>>> {
        self.0.bind_udp(local_addr, server_addr)
    }
}

// ---------------------------------------------------------------------------------------------
// A mock upstream: answers every query from a table
// ---------------------------------------------------------------------------------------------

type Table = HashMap<(Name, RecordType), Vec<Record>>;

#[derive(Clone, Default)]
struct Upstream(Arc<Mutex<Table>>);

impl Upstream {
    fn set(&self, name: &Name, record_type: RecordType, records: Vec<Record>) {
        self.0
            .lock()
            .unwrap()
            .insert((name.clone(), record_type), records);
    }
}

impl DnsHandle for Upstream {
    type Response = Pin<Box<dyn Stream<Item = Result<DnsResponse, NetError>> + Send>>;
    type Runtime = FakeRuntime;

    fn send(&self, request: DnsRequest) -> Self::Response {
        let query = request.queries.first().cloned().expect("no query");
        let answers = self
            .0
            .lock()
            .unwrap()
            .get(&(query.name.clone(), query.query_type))
            .cloned()
            .unwrap_or_default();

        let mut message = Message::query();
        message.metadata.id = request.id;
        message.add_query(query);
        message.insert_answers(answers);
        let response = DnsResponse::from_message(message.into_response()).map_err(NetError::from);
        Box::pin(stream::once(async move { response }))
    }
}

// ---------------------------------------------------------------------------------------------
// A tiny signed zone
// ---------------------------------------------------------------------------------------------

struct Zone {
    apex: Name,
    key: Ed25519SigningKey,
    dnskey: DNSKEY,
}

impl Zone {
    fn new(flags: u16) -> Self {
        let pkcs8 = Ed25519SigningKey::generate_pkcs8().unwrap();
        let key = Ed25519SigningKey::from_pkcs8(&pkcs8).unwrap();
        let dnskey = DNSKEY::with_flags(flags, key.to_public_key().unwrap());
        Self {
            apex: Name::from_str("example.").unwrap(),
            key,
            dnskey,
        }
    }

    fn public_key(&self) -> PublicKeyBuf {
        self.key.to_public_key().unwrap()
    }

    fn dnskey_record(&self) -> Record {
        Record::from_rdata(
            self.apex.clone(),
            3600,
            RData::DNSSEC(DNSSECRData::DNSKEY(self.dnskey.clone())),
        )
    }

    /// Signs `records` (one RRset) and returns the RRSIG record
    fn sign(&self, records: &[Record], original_ttl: u32, inception: u32, expiration: u32) -> Record {
        let first = &records[0];
        let input = SigInput {
            type_covered: first.record_type(),
            algorithm: Algorithm::ED25519,
            num_labels: first.name.num_labels(),
            original_ttl,
            sig_expiration: SerialNumber::new(expiration),
            sig_inception: SerialNumber::new(inception),
            key_tag: self.dnskey.calculate_key_tag().unwrap(),
            signer_name: self.apex.clone(),
        };
        let tbs = TBS::from_input(&first.name, DNSClass::IN, &input, records.iter()).unwrap();
        let sig = self.key.sign(&tbs).unwrap();
        Record::from_rdata(
            first.name.clone(),
            first.ttl,
            RData::DNSSEC(DNSSECRData::RRSIG(RRSIG::from_sig(input, sig))),
        )
    }
}

fn validator(zone: &Zone, upstream: &Upstream) -> DnssecDnsHandle<Upstream> {
    let mut anchors = TrustAnchors::empty();
    anchors.insert(&zone.public_key());
    upstream.set(&zone.apex, RecordType::DNSKEY, vec![zone.dnskey_record()]);
    DnssecDnsHandle::with_trust_anchor(upstream.clone(), Arc::new(anchors))
}

/// Resolves `name A` through the validator and returns the proofs of the A records in the answer
async fn proofs_of_a(validator: &DnssecDnsHandle<Upstream>, name: &Name) -> Vec<(Proof, u32)> {
    let response = validator
        .lookup(
            Query::new(name.clone(), RecordType::A),
            DnsRequestOptions::default(),
        )
        .first_answer()
        .await;
    match response {
        Ok(response) => response
            .answers
            .iter()
            .filter(|r| r.record_type() == RecordType::A)
            .map(|r| (r.proof, r.ttl))
            .collect(),
        Err(_) => vec![],
    }
}

fn a_record(name: &Name, ttl: u32, addr: [u8; 4]) -> Record {
    Record::from_rdata(
        name.clone(),
        ttl,
        RData::A(A(Ipv4Addr::new(addr[0], addr[1], addr[2], addr[3]))),
    )
}


const NOW: u32 = 1_790_000_000;

#[tokio::test]
async fn probe_cached_verdict_after_clock_advance() {
    let _guard = SERIAL.lock().unwrap_or_else(|e| e.into_inner());
    CLOCK.store(u64::from(NOW), Ordering::SeqCst);

    let zone = Zone::new(257);
    let upstream = Upstream::default();
    let validator = validator(&zone, &upstream);

    let www = Name::from_str("www.example.").unwrap();
    let a = a_record(&www, 3600, [192, 0, 2, 1]);
    let rrsig = zone.sign(&[a.clone()], 3600, NOW - 1000, NOW + 100);
    upstream.set(&www, RecordType::A, vec![a, rrsig]);

    let first = proofs_of_a(&validator, &www).await;
    println!("first: {first:?}");
    CLOCK.store(u64::from(NOW) + 50, Ordering::SeqCst);
    let second = proofs_of_a(&validator, &www).await;
    println!("at +50 (remaining 50): {second:?}");
    CLOCK.store(u64::from(NOW) + 10_000, Ordering::SeqCst);
    let third = proofs_of_a(&validator, &www).await;
    println!("at +10000 (expired): {third:?}");
    assert!(third.iter().all(|(p, _)| *p != Proof::Secure), "expired signature still Secure via cache: {third:?}");
}
