#!/bin/sh
# Replay of finding F12 (C20): sh run.sh 0f7c3bf (before the fix: both tests FAIL, panic at zone_lex.rs:41) / sh run.sh HEAD (pass)
set -e
C="${1:-HEAD}"; WT=/tmp/wt_c20_demo
git -C /repo worktree remove --force $WT 2>/dev/null || true
git -C /repo worktree add -q --detach $WT "$C"
mkdir -p $WT/crates/proto/tests && cp "$(dirname "$(readlink -f "$0")")/vp_c20_long_comment.rs" $WT/crates/proto/tests/
cd $WT && CARGO_NET_OFFLINE=true cargo test -p hickory-proto --offline --test vp_c20_long_comment 2>&1 | grep -E "^test |panicked|test result" || true
cd / && git -C /repo worktree remove --force $WT
