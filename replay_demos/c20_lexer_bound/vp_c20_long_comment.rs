// /verif replay (C20): Lexer::next_token bounds its loop with `assert!(i < 4095)`, one iteration per character of a
// comment / quoted string / parenthesised list, so zone text with such a run of 4095+ characters panics instead of
// parsing (a long comment is not even malformed).  Copy to crates/proto/tests/ and run
//   cargo test -p hickory-proto --offline --test vp_c20_long_comment
use hickory_proto::rr::Name;
use hickory_proto::serialize::txt::Parser;

fn parse(text: String) -> Result<(), String> {
    let r = std::panic::catch_unwind(move || {
        Parser::new(text, None, Some(Name::from_ascii("example.com.").unwrap())).parse().map(|_| ()).map_err(|e| e.to_string())
    });
    match r { Ok(x) => x, Err(_) => Err("PANIC".to_string()) }
}

#[test]
fn long_comment_does_not_panic() {
    let zone = format!("@ 3600 IN SOA ns. admin. 1 2 3 4 5 ; {}\nwww 60 IN A 192.0.2.1\n", "x".repeat(5000));
    assert_ne!(parse(zone), Err("PANIC".to_string()));
}

#[test]
fn long_quoted_string_does_not_panic() {
    // malformed (a character-string is at most 255 octets): must be a parse error, not a panic
    let zone = format!("@ 3600 IN SOA ns. admin. 1 2 3 4 5\ntxt 60 IN TXT \"{}\"\n", "y".repeat(5000));
    assert_ne!(parse(zone), Err("PANIC".to_string()));
}
