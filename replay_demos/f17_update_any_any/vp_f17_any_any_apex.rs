//! Replay of finding F17 (C12): RFC 2136 3.4.2.3 "CLASS ANY, TYPE ANY: all zone RRs with the same NAME are deleted,
//! unless the NAME is the same as ZNAME in which case only those RRs whose TYPE is other than SOA or NS are deleted".
//! C12: "After every message the zone has exactly one SOA and at least one apex NS".
#![cfg(feature = "sqlite")]
use std::str::FromStr;
use hickory_proto::rr::rdata::{A, NS, SOA};
use hickory_proto::rr::{DNSClass, Name, RData, Record, RecordType};
use hickory_server::store::in_memory::InMemoryZoneHandler;
use hickory_server::store::sqlite::SqliteZoneHandler;
use hickory_server::zone_handler::{AxfrPolicy, ZoneHandler, ZoneType};

fn name(s: &str) -> Name { Name::from_str(s).unwrap() }

fn zone() -> SqliteZoneHandler {
    let origin = name("example.com.");
    let mut z = InMemoryZoneHandler::empty(origin.clone(), ZoneType::Primary, AxfrPolicy::Deny,
        #[cfg(feature = "__dnssec")] None);
    z.upsert_mut(Record::from_rdata(origin.clone(), 3600, RData::SOA(SOA::new(name("ns1.example.com."), name("admin.example.com."), 10, 7200, 3600, 1209600, 3600))), 0);
    for ns in ["ns1.example.com.", "ns2.example.com."] {
        z.upsert_mut(Record::from_rdata(origin.clone(), 86400, RData::NS(NS(name(ns)))), 0);
    }
    z.upsert_mut(Record::from_rdata(origin.clone(), 300, RData::A(A::new(192, 0, 2, 9))), 0);
    z.upsert_mut(Record::from_rdata(name("sub.example.com."), 300, RData::NS(NS(name("ns.sub.example.com.")))), 0);
    z.upsert_mut(Record::from_rdata(name("sub.example.com."), 300, RData::A(A::new(192, 0, 2, 1))), 0);
    SqliteZoneHandler::new(z, AxfrPolicy::Deny, true, false)
}

fn delete_all_at(n: &str) -> Record {
    let mut rr = Record::update0(name(n), 0, RecordType::ANY);
    rr.dns_class = DNSClass::ANY;
    rr
}

async fn count(zone: &SqliteZoneHandler, n: &str, t: RecordType) -> usize {
    let n = hickory_proto::rr::LowerName::from(name(n));
    zone.records().await.iter().filter(|(k, _)| k.name == n && k.record_type == t).map(|(_, s)| s.records_without_rrsigs().count()).sum()
}

#[tokio::test]
async fn delete_all_rrsets_at_the_apex_keeps_soa_and_ns() {
    let z = zone();
    let upd = [delete_all_at("example.com.")];
    z.pre_scan(&upd).await.expect("prescan");
    let r = z.update_records(&upd, true).await;
    assert_eq!(count(&z, "example.com.", RecordType::SOA).await, 1, "the zone must keep exactly one SOA (update_records returned {r:?})");
    assert!(count(&z, "example.com.", RecordType::NS).await >= 1, "the zone must keep its apex NS RRset");
    assert_eq!(count(&z, "example.com.", RecordType::A).await, 0, "other apex RRsets are deleted");
}

#[tokio::test]
async fn delete_all_rrsets_below_the_apex_deletes_ns_too() {
    let z = zone();
    let upd = [delete_all_at("sub.example.com.")];
    z.pre_scan(&upd).await.expect("prescan");
    z.update_records(&upd, true).await.expect("update");
    assert_eq!(count(&z, "sub.example.com.", RecordType::A).await, 0);
    assert_eq!(count(&z, "sub.example.com.", RecordType::NS).await, 0, "all zone RRs with the same NAME are deleted (RFC 2136 3.4.2.3)");
}
