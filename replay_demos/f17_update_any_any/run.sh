#!/bin/sh
# Replay of finding F17 (C12): sh run.sh e387e75 (before the fix: both tests FAIL) / sh run.sh HEAD (667fb02 or later: pass)
set -e
C="${1:-HEAD}"; WT=/tmp/wt_f17_demo
git -C /repo worktree remove --force $WT 2>/dev/null || true
git -C /repo worktree add -q --detach $WT "$C"
mkdir -p $WT/crates/server/tests && cp "$(dirname "$(readlink -f "$0")")/vp_f17_any_any_apex.rs" $WT/crates/server/tests/
cd $WT && CARGO_NET_OFFLINE=true cargo test -p hickory-server --offline --features sqlite,dnssec-ring --test vp_f17_any_any_apex 2>&1 | grep -E "^test |panicked|test result|^error|must|deleted" || true
cd / && [ -n "$KEEP_WT" ] || git -C /repo worktree remove --force $WT
