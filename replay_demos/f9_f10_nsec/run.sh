#!/bin/sh
# Replay of findings F9 / F10 (C08, RFC 6840 section 4.1) on the real code.  verify_nsec is a private fn of
# crates/net/src/dnssec/mod.rs, so the demonstration is two unit tests added to its `test` module in a SCRATCH worktree:
#   sh run.sh 9a3a04f   (before the fixes: both FAIL -- verify_nsec returns Secure)
#   sh run.sh HEAD      (after 285e0c8 and 77abe15: both pass)
set -e
C="${1:-HEAD}"; WT=/tmp/wt_f9f10_demo
git -C /repo worktree remove --force $WT 2>/dev/null || true
git -C /repo worktree add -q --detach $WT "$C"
cd $WT && git apply "$(dirname "$(readlink -f "$0")")/demo_tests.patch"
CARGO_NET_OFFLINE=true cargo test -p hickory-net --features dnssec-ring --offline --lib -- dnssec::test::vp_f 2>&1 | grep -E "^test |left|right|test result" || true
cd / && git -C /repo worktree remove --force $WT
