use hickory_proto::op::{Message, Query};
use hickory_proto::serialize::binary::BinEncodable;
use hickory_proto::rr::rdata::SOA;
use hickory_proto::rr::rdata::tsig::TsigAlgorithm;
use hickory_proto::rr::{Name, TSigner};

#[test]
fn f2_soa_serial_wrap() {
    let mut soa = SOA::new(Name::root(), Name::root(), u32::MAX, 1, 1, 1, 1);
    soa.increment_serial();
    assert_eq!(soa.serial, 0);
}

#[test]
fn f3_tsig_time_below_fudge() {
    let key_name: Name = Name::from_ascii("key_name.").unwrap();
    let mut question = Message::query();
    let mut query: Query = Query::root();
    query.set_name(Name::parse("example.com.", None).unwrap());
    question.add_query(query);
    let signer = TSigner::new(b"some_key".to_vec(), TsigAlgorithm::HmacSha512, key_name, 300).unwrap();
    question.finalize(&signer, 5).expect("should have signed");
    let (_, t, range) = signer.verify_message_byte(&question.to_bytes().unwrap(), None, true).unwrap();
    assert_eq!(t, 5);
    assert_eq!(range.start, 0);
    assert_eq!(range.end, 305);
}
