//! /verif replay of finding F13 (C19), built on the harness of seeded/C19_w2b/demo: records whose owner name lies outside the zone that the answering server
//! was delegated must never be returned to the client or cached -- this includes records owned by
//! an *ancestor* of the delegated zone (the parent zone, the TLD, the root).
//!
//! The hostile server for `evil.testing.` answers `www.evil.testing. A` correctly but also stuffs
//! the authority and additional sections with records owned by `testing.` and `.`, i.e. it claims to
//! be the name server of its own parent zone and of the root.  The recursor was only told (by the
//! `testing.` servers) that this server is responsible for `evil.testing.`, so everything that is
//! not at or below `evil.testing.` has to be dropped.
//!
//! Run with: cargo test -p hickory-resolver --features recursor --test c19_bailiwick_ancestor --offline

#![cfg(feature = "recursor")]

use std::{
    net::{IpAddr, Ipv4Addr},
    time::Instant,
};

use hickory_net::xfer::Protocol;
use hickory_proto::{
    op::{Message, OpCode, Query, ResponseCode},
    rr::{
        Name, RData, Record, RecordType,
        rdata::{A, NS, SOA},
    },
};
use hickory_resolver::recursor::{Recursor, RecursorOptions};
use test_support::{MockHandler, MockProvider, subscribe};

const ROOT_IP: IpAddr = IpAddr::V4(Ipv4Addr::new(10, 0, 1, 1));
const TLD_IP: IpAddr = IpAddr::V4(Ipv4Addr::new(10, 0, 2, 1));
const EVIL_IP: IpAddr = IpAddr::V4(Ipv4Addr::new(10, 0, 3, 1));

fn name(s: &str) -> Name {
    Name::from_ascii(s).unwrap()
}

fn a(owner: &str, ip: IpAddr) -> Record {
    let IpAddr::V4(v4) = ip else { unreachable!() };
    Record::from_rdata(name(owner), 3600, RData::A(A(v4)))
}

fn ns(owner: &str, target: &str) -> Record {
    Record::from_rdata(name(owner), 3600, RData::NS(NS(name(target))))
}

/// root -> testing. -> evil.testing. (hostile)
struct Internet;

impl MockHandler for Internet {
    fn handle(&self, destination: IpAddr, _protocol: Protocol, request: Message) -> Message {
        let query = request.queries[0].clone();
        let mut msg = Message::response(request.id, OpCode::Query);
        msg.add_query(query.clone());
        msg.metadata.authoritative = true;

        let testing = name("testing.");
        let evil = name("evil.testing.");

        if destination == ROOT_IP && testing.zone_of(&query.name) {
            msg.add_authority(ns("testing.", "ns.testing."));
            msg.add_additional(a("ns.testing.", TLD_IP));
            return msg;
        }
        if destination == TLD_IP && evil.zone_of(&query.name) {
            msg.add_authority(ns("evil.testing.", "ns.evil.testing."));
            msg.add_additional(a("ns.evil.testing.", EVIL_IP));
            return msg;
        }
        if destination != EVIL_IP || !evil.zone_of(&query.name) {
            return Message::error_msg(request.id, request.op_code, ResponseCode::Refused);
        }

        if query.name == name("www.evil.testing.") && query.query_type == RecordType::A {
            msg.add_answer(a("www.evil.testing.", IpAddr::V4(Ipv4Addr::new(198, 18, 0, 1))));
            // legitimate, in-bailiwick extras
            msg.add_authority(ns("evil.testing.", "ns.evil.testing."));
            msg.add_additional(a("ns.evil.testing.", EVIL_IP));
            // injected: the hostile server claims authority over its parent zone and the root
            msg.add_authority(ns("testing.", "ns.evil.testing."));
            msg.add_authority(ns(".", "ns.evil.testing."));
            msg.add_additional(a("testing.", EVIL_IP));
        } else {
            // hostile NEGATIVE answer: NXDOMAIN whose authority section carries an SOA owned by a SIBLING zone and an
            // NS RRset for the PARENT zone -- both outside the bailiwick of evil.testing.
            msg.metadata.response_code = ResponseCode::NXDomain;
            let mname = name("ns.evil.testing.");
            msg.add_authority(Record::from_rdata(
                name("victim.testing."),
                3600,
                RData::SOA(SOA::new(mname.clone(), mname, 1, 1, 1, 1, 60)),
            ));
            msg.add_authority(ns("testing.", "ns.evil.testing."));
        }
        msg
    }
}


/// F13: a NEGATIVE answer is returned (and cached) with its authority records unfiltered.
#[tokio::test]
async fn negative_answers_are_filtered_for_bailiwick_too() {
    subscribe();
    let recursor = Recursor::with_options(
        &[ROOT_IP],
        RecursorOptions { deny_server: Vec::new(), ..RecursorOptions::default() },
        MockProvider::new(Internet),
    )
    .unwrap();
    let zone = name("evil.testing.");
    let query = Query::new(name("nope.evil.testing."), RecordType::A);
    for pass in ["network", "cache"] {
        let err = recursor.resolve(query.clone(), Instant::now(), false).await.expect_err("negative answer");
        let text = format!("{err:?}");
        assert!(
            !text.contains("victim"),
            "({pass}) records outside of the bailiwick of {zone} came back in the negative answer: {text}"
        );
    }
}
