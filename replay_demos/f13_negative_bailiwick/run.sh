#!/bin/sh
# Replay of finding F13 (C19) on the real code: sh run.sh [commit]   (FAILS at HEAD: the finding is recorded, not repaired)
set -e
C="${1:-HEAD}"; WT=/tmp/wt_f13_demo
git -C /repo worktree remove --force $WT 2>/dev/null || true
git -C /repo worktree add -q --detach $WT "$C"
cp "$(dirname "$(readlink -f "$0")")/vp_c19_negative_bailiwick.rs" $WT/crates/resolver/tests/
cd $WT && CARGO_NET_OFFLINE=true cargo test -p hickory-resolver --features recursor --offline --test vp_c19_negative_bailiwick 2>&1 | grep -E "^test |came back|test result" | cut -c1-400 || true
cd / && git -C /repo worktree remove --force $WT
