#!/bin/sh
# Replay of finding F19 (C08): sh run.sh [commit]  -- on the unchanged tree the control passes, the two-level test FAILS (set F19_WT=<existing worktree> to reuse a built tree)
set -e
C="${1:-HEAD}"; WT=${F19_WT:-/tmp/wt_f19_demo}
if [ -z "$F19_WT" ]; then git -C /repo worktree remove --force $WT 2>/dev/null || true; git -C /repo worktree add -q --detach $WT "$C"; fi
cp "$(dirname "$(readlink -f "$0")")/vp_f19_nsec_wildcard_proof.rs" $WT/tests/integration-tests/tests/
cd $WT && CARGO_NET_OFFLINE=true cargo test --offline -p hickory-integration --features dnssec-ring --test vp_f19_nsec_wildcard_proof 2>&1 | grep -E "^test |panicked|test result|^error|rejected|no NSEC" || true
rm -f $WT/tests/integration-tests/tests/vp_f19_nsec_wildcard_proof.rs
cd / && { [ -n "$F19_WT" ] || git -C /repo worktree remove --force $WT; }
