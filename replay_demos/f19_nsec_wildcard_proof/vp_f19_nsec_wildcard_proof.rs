#![cfg(feature = "__dnssec")]
//! Replay of finding F19 (C08, completeness: "for every signed zone and every query, the proof the authoritative server
//! attaches is accepted by the validator").  Zone example. { SOA, NS, m.example. A, t.example. A }, NSEC chain
//! example. -> m.example. -> t.example. -> example.  A name error needs (RFC 4035 3.1.3.2) an NSEC covering the name AND
//! an NSEC covering the wildcard at the closest encloser, here *.example., which only the APEX NSEC covers.
//! InMemoryZoneHandler::nsec_records looks the "wildcard proof" up at name.base_name() instead of *.<closest encloser>:
//! for a name one level below the apex that happens to be the apex (whose NSEC also covers *.example.), for a name two or
//! more levels below the closest encloser it is an ordinary non-existent name covered by the same NSEC as the query name,
//! and the response carries no proof for the wildcard.

use std::{sync::Arc, time::Duration};

use hickory_integration::{generate_key, print_response, setup_dnssec_client_server};
use hickory_net::client::ClientHandle;
use hickory_proto::{
    dnssec::{DnssecSigner, SigningKey, rdata::DNSKEY},
    op::ResponseCode,
    rr::{
        DNSClass, Name, RData, Record, RecordType,
        rdata::{A, NS, SOA},
    },
};
use hickory_server::{
    dnssec::NxProofKind,
    store::in_memory::InMemoryZoneHandler,
    zone_handler::{AxfrPolicy, Catalog, ZoneType},
};
use test_support::subscribe;

const SERIAL: u32 = 2026092400;
const TTL: u32 = 3600;

fn zone_catalog(key: Box<dyn SigningKey>) -> Catalog {
    let origin = Name::parse("example.", None).unwrap();
    let mut handler: InMemoryZoneHandler = InMemoryZoneHandler::empty(
        origin.clone(),
        ZoneType::Primary,
        AxfrPolicy::Deny,
        Some(NxProofKind::Nsec),
    );

    handler.upsert_mut(
        Record::from_rdata(
            origin.clone(),
            TTL,
            RData::SOA(SOA::new(
                Name::parse("ns.example.net.", None).unwrap(),
                Name::parse("hostmaster.example.net.", None).unwrap(),
                SERIAL,
                3600,
                300,
                3600000,
                TTL,
            )),
        ),
        SERIAL,
    );
    handler.upsert_mut(
        Record::from_rdata(
            origin.clone(),
            TTL,
            RData::NS(NS(Name::parse("ns.example.net.", None).unwrap())),
        ),
        SERIAL,
    );
    for (n, ip) in [("m", 1u8), ("t", 2u8)] {
        handler.upsert_mut(
            Record::from_rdata(Name::parse(n, Some(&origin)).unwrap(), TTL, RData::A(A::new(192, 0, 2, ip))),
            SERIAL,
        );
    }

    handler
        .add_zone_signing_key_mut(DnssecSigner::new(
            DNSKEY::from_key(&key.to_public_key().unwrap()),
            key,
            origin.clone(),
            Duration::from_secs(86400),
        ))
        .unwrap();
    handler.secure_zone_mut().unwrap();

    let mut catalog = Catalog::new();
    catalog.upsert(origin.into(), vec![Arc::new(handler)]);
    catalog
}


async fn name_error(name: &str) -> Result<Vec<String>, String> {
    let (key, public_key) = generate_key();
    let (mut client, _server) = setup_dnssec_client_server(zone_catalog(key), &public_key).await;
    let query_name = Name::parse(name, None).unwrap();
    match client.query(query_name, DNSClass::IN, RecordType::A).await {
        Ok(response) => {
            print_response(&response);
            assert_eq!(response.metadata.response_code, ResponseCode::NXDomain);
            Ok(response.authorities.iter().filter(|r| r.record_type() == RecordType::NSEC).map(|r| r.name.to_string()).collect())
        }
        Err(e) => Err(e.to_string()),
    }
}

/// control: one level below the closest encloser (the apex): accepted
#[tokio::test]
async fn name_error_one_level_below_the_apex_is_accepted() {
    subscribe();
    let owners = name_error("p.example.").await.expect("the server's own proof must validate");
    assert!(owners.contains(&"example.".to_string()), "the apex NSEC covers *.example.: {owners:?}");
}

/// two levels below the closest encloser: the server's own name error proof must validate as well
#[tokio::test]
async fn name_error_two_levels_below_the_apex_is_accepted() {
    subscribe();
    match name_error("y.p.example.").await {
        Ok(owners) => assert!(owners.contains(&"example.".to_string()), "no NSEC covering the wildcard *.example. in the proof: {owners:?}"),
        Err(e) => panic!("the server's NSEC proof for the name error y.p.example. was rejected by the validator: {e}"),
    }
}
