#!/bin/sh
# Replay of findings F7 / F8 (C09) on the real code.  verify_nsec3 is pub(super), so the demonstration is two unit
# tests added to the tests module of crates/net/src/dnssec/nsec3.rs in a SCRATCH worktree (never in /repo):
#   sh run.sh <commit>      e.g. 240d10a (before the fixes: both FAIL with `left: Secure, right: Bogus`)
#                                HEAD    (after 9a3a04f: F8 passes; F7 still fails -- it is a recorded finding, see known_findings.json)
set -e
C="${1:-HEAD}"; WT=/tmp/wt_f7f8_demo
git -C /repo worktree remove --force $WT 2>/dev/null || true
git -C /repo worktree add -q --detach $WT "$C"
cd $WT && git apply "$(dirname "$(readlink -f "$0")")/demo_tests.patch"
CARGO_NET_OFFLINE=true cargo test -p hickory-net --features dnssec-ring --offline --lib -- dnssec::nsec3::tests::vp_f 2>&1 | grep -E "^test |left|right|test result" || true
cd / && git -C /repo worktree remove --force $WT
