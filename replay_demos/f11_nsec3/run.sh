#!/bin/sh
# Replay of finding F11 (C09, RFC 5155 8.3) on the real code: a unit test added to the tests module of
# crates/net/src/dnssec/nsec3.rs in a SCRATCH worktree.
#   sh run.sh 77abe15   (before the fix: FAILS -- verify_nsec3 returns Secure)
#   sh run.sh HEAD      (after 0f7c3bf: passes)
set -e
C="${1:-HEAD}"; WT=/tmp/wt_f11_demo
git -C /repo worktree remove --force $WT 2>/dev/null || true
git -C /repo worktree add -q --detach $WT "$C"
cd $WT && git apply "$(dirname "$(readlink -f "$0")")/demo_tests.patch"
CARGO_NET_OFFLINE=true cargo test -p hickory-net --features dnssec-ring --offline --lib -- dnssec::nsec3::tests::vp_f11 2>&1 | grep -E "^test |left|right|test result" || true
cd / && git -C /repo worktree remove --force $WT
