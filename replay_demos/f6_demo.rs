use hickory_proto::rr::rdata::SOA;
use hickory_proto::rr::{Name, RData, Record, RecordSet, RecordType};

fn soa(serial: u32) -> Record {
    Record::from_rdata(Name::root(), 3600, RData::SOA(SOA::new(Name::root(), Name::root(), serial, 1, 1, 1, 1)))
}

#[test]
fn f6_soa_insert_uses_serial_arithmetic() {
    // serial 0 is the RFC 1982 successor of 4294967295: the newer SOA must replace the old one
    let mut set = RecordSet::new(Name::root(), RecordType::SOA, 0);
    assert!(set.insert(soa(u32::MAX), 0));
    assert!(set.insert(soa(0), 0), "SOA with the next serial (wrapped) was ignored");
    // serial 4294967295 is OLDER than 5 in serial arithmetic: must be ignored
    let mut set = RecordSet::new(Name::root(), RecordType::SOA, 0);
    assert!(set.insert(soa(5), 0));
    assert!(!set.insert(soa(u32::MAX - 5), 0), "an older SOA (serial arithmetic) replaced a newer one");
}
