#!/bin/sh
# Replay of finding F15 (C20): sh run.sh c1d1f5e (before the fixes: tests 1 and 3 FAIL, panics at svcb.rs:233 and :324) / sh run.sh HEAD (0559a97 + e387e75: pass)
set -e
C="${1:-HEAD}"; WT=/tmp/wt_f15_demo
git -C /repo worktree remove --force $WT 2>/dev/null || true
git -C /repo worktree add -q --detach $WT "$C"
mkdir -p $WT/crates/proto/tests && cp "$(dirname "$(readlink -f "$0")")/vp_f15_svcb_lone_quote.rs" $WT/crates/proto/tests/
cd $WT && CARGO_NET_OFFLINE=true cargo test -p hickory-proto --offline --test vp_f15_svcb_lone_quote 2>&1 | grep -E "^test |panicked|test result" || true
cd / && git -C /repo worktree remove --force $WT
