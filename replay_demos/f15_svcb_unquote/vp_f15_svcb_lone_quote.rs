// Replay of finding F15 (C20): a SvcParam value that is a single double-quote character panics the zone parser
// (`&value[1..value.len() - 1]` with len == 1 in SVCB::from_tokens). Malformed text must give Err, never a panic.
use hickory_proto::rr::Name;
use hickory_proto::serialize::txt::Parser;

fn parse(text: &str) -> std::thread::Result<bool> {
    let text = text.to_string();
    std::panic::catch_unwind(move || {
        Parser::new(text, None, Some(Name::from_ascii("example.").unwrap())).parse().is_ok()
    })
}

#[test]
fn lone_quote_value_is_an_error_not_a_panic() {
    for t in ["a 300 IN HTTPS 1 . alpn=\"\n", "a 300 IN SVCB 1 . key667=\"\n", "a 300 IN HTTPS 1 . ipv4hint=\"\n"] {
        let r = parse(t);
        assert!(r.is_ok(), "zone parser panicked on {t:?}");
    }
}

#[test]
fn quoted_values_still_load() {
    assert_eq!(parse("a 300 IN HTTPS 1 . alpn=\"h2,h3\"\n").unwrap(), true);
    assert_eq!(parse("a 300 IN HTTPS 1 . alpn=h2\n").unwrap(), true);
}

// Finding F16 (C20): an "alpn" list with an item the character-data lexer rejects (an empty item: `h2,,h3`, `,`)
// makes parse_list return Err, and parse_alpn calls `.expect("infallible")` on it.
#[test]
fn alpn_list_with_empty_item_is_an_error_not_a_panic() {
    for t in ["a 300 IN HTTPS 1 . alpn=h2,,h3\n", "a 300 IN HTTPS 1 . alpn=,\n", "a 300 IN SVCB 1 . alpn=\"h2,\\\"\n"] {
        let r = parse(t);
        assert!(r.is_ok(), "zone parser panicked on {t:?}");
    }
}
