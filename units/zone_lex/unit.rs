//%unit zone_lex
//%features std
use vstd::prelude::*;
verus! {
// ---- C20 kernel: the zone-file lexer (crates/proto/src/serialize/txt/zone_lex.rs).  "Malformed text of any kind yields a
//      parse error, never a panic or an endless loop" -- for the lexer: next_token returns for every character sequence.
//      The text is a sequence of `char`s behind a peekable iterator; character classes (is_whitespace, is_control, ..)
//      are uninterpreted predicates; String is an opaque growable sequence of chars. ----
pub struct VpString { pub v: Vec<char> }
impl VpString {
    pub fn new() -> (r: VpString) ensures r.v@.len() == 0 { VpString { v: Vec::new() } }
    pub fn push(&mut self, ch: char) ensures final(self).v@ == old(self).v@.push(ch) { self.v.push(ch); }
}
// Peekable<CowChars>: `rest` is what has not been consumed yet
pub struct VpPeekable { pub s: Vec<char>, pub at: usize }
impl VpPeekable {
    pub open spec fn wf(&self) -> bool { self.at <= self.s@.len() }
    pub open spec fn rest(&self) -> Seq<char> { self.s@.skip(self.at as int) }
    pub fn next(&mut self) -> (r: Option<char>)
        requires old(self).wf()
        ensures final(self).wf(), final(self).s == old(self).s,
            match r { Some(c) => old(self).at < old(self).s@.len() && c == old(self).s@[old(self).at as int] && final(self).at == old(self).at + 1,
                      None => old(self).at == old(self).s@.len() && final(self).at == old(self).at }
    { if self.at < self.s.len() { let c = self.s[self.at]; self.at = self.at + 1; Some(c) } else { None } }
    pub fn vp_peek(&mut self) -> (r: Option<char>)
        requires old(self).wf()
        ensures *final(self) == *old(self), match r { Some(c) => old(self).at < old(self).s@.len() && c == old(self).s@[old(self).at as int], None => old(self).at == old(self).s@.len() }
    { if self.at < self.s.len() { Some(self.s[self.at]) } else { None } }
}
// character classes of core::char (Unicode tables): uninterpreted
pub uninterp spec fn is_ws(c: char) -> bool;
pub uninterp spec fn is_ctl(c: char) -> bool;
pub uninterp spec fn is_num(c: char) -> bool;
#[verifier::external_body] pub fn vp_ws(c: char) -> (r: bool) ensures r == is_ws(c) { c.is_whitespace() }
#[verifier::external_body] pub fn vp_ctl(c: char) -> (r: bool) ensures r == is_ctl(c) { c.is_control() }
#[verifier::external_body] pub fn vp_num(c: char) -> (r: bool) ensures r == is_num(c) { c.is_numeric() }
#[verifier::external_body] pub fn vp_to_digit10(c: char) -> (r: Option<u32>) ensures r matches Some(d) ==> d < 10 { c.to_digit(10) }
#[verifier::external_body] pub fn vp_char_from_u32(v: u32) -> (r: Option<char>) { char::from_u32(v) }

//%enum crates/proto/src/serialize/txt/errors.rs :: LexerError
//%sub1 "UnrecognizedDollar(String)" => "UnrecognizedDollar(VpString)" # R-shim: alloc::string::String -> opaque stand-in
//%end
pub type LexerResult<T> = Result<T, LexerError>;
#[derive(Clone, Copy)]
//%enum crates/proto/src/serialize/txt/zone_lex.rs :: State
//%end
//%enum crates/proto/src/serialize/txt/zone_lex.rs :: Token
//%sub "String" => "VpString" # R-shim: alloc::string::String -> opaque stand-in
//%end
pub struct Lexer { pub txt: VpPeekable, pub state: State }

impl Lexer {
//%fn crates/proto/src/serialize/txt/zone_lex.rs :: impl<'a> Lexer<'a> :: peek
//%sub1 "self.txt.peek().copied()" => "self.txt.vp_peek()" # R-shim: Peekable::peek + Option::copied
//%contract
        requires old(self).txt.wf()
        ensures *final(self) == *old(self), match r { Some(c) => old(self).txt.at < old(self).txt.s@.len() && c == old(self).txt.s@[old(self).txt.at as int], None => old(self).txt.at == old(self).txt.s@.len() }
//%end
//%fn crates/proto/src/serialize/txt/zone_lex.rs :: impl<'a> Lexer<'a> :: push_to_str
//%sub1 "collect: &mut Option<String>" => "collect: &mut Option<VpString>" # R-shim: String stand-in
//%sub1 "let Some(s) = collect.as_mut() else { return Err(LexerError::IllegalState(\"collect is None\")); }; s.push(ch); Ok(())" => "match collect { Some(s) => { s.push(ch); Ok(()) } None => Err(LexerError::IllegalState(\"collect is None\")) }" # R-shim: `let Some(s) = o.as_mut() else { return E }; B` written as the match it denotes (Option::as_mut)
//%contract
        ensures (*final(collect) is Some) == (*old(collect) is Some),
            *old(collect) matches Some(s0) ==> (r is Ok && final(collect).unwrap().v@ == s0.v@.push(ch)),
//%end
//%fn crates/proto/src/serialize/txt/zone_lex.rs :: impl<'a> Lexer<'a> :: escape_seq
//%sub "ch.is_control()" => "vp_ctl(ch)" # R-shim: char class
//%sub "ch.is_numeric()" => "vp_num(ch)" # R-shim: char class
//%sub "c.to_digit(10)" => "vp_to_digit10(c)" # R-shim: char::to_digit(10)
//%sub1 "char::from_u32(val)" => "vp_char_from_u32(val)" # R-shim: char::from_u32
//%closure "|c|"@1
|c: char| -> (o: Result<u32, LexerError>) ensures o matches Ok(d) ==> d < 10
//%closure "|c|"@2
|c: char| -> (o: Result<u32, LexerError>) ensures o matches Ok(d) ==> d < 10
//%closure "|c|"@3
|c: char| -> (o: Result<u32, LexerError>) ensures o matches Ok(d) ==> d < 10
//%before "let val: u32"
                assert(d1 < 10 && d2 < 10 && d3 < 10);
                assert((d1 << 16) <= 0x90000u32 && (d2 << 8) <= 0x900u32) by (bit_vector) requires d1 < 10u32 && d2 < 10u32;
//%contract
        requires old(self).txt.wf()
        ensures final(self).txt.wf(), final(self).txt.s == old(self).txt.s, final(self).state == old(self).state,
            final(self).txt.at >= old(self).txt.at,
            // progress: a successful escape consumed at least the backslash
            r is Ok ==> final(self).txt.at > old(self).txt.at,
//%end
}
// termination measure of next_token's loop: (characters left, rank of the state given the next character).
// A step that does not consume a character strictly lowers the rank; CharData and List hand over to each other without
// consuming, which is why CharData's rank depends on whether the next character ends the token.
pub open spec fn stops_char_data(c: char) -> bool { is_ws(c) || c == ')' || c == ';' }
pub open spec fn rank(st: State, t: VpPeekable) -> nat {
    match st {
        State::StartLine => 6, State::RestOfLine => 5, State::Comment { .. } => 4,
        State::CharData { .. } => if t.at < t.s@.len() && stops_char_data(t.s@[t.at as int]) { 3 } else { 1 },
        State::List => 2, State::EOL => 1,
        State::Blank => 0, State::At => 0, State::Quote => 0, State::Dollar => 0, State::EOF => 0,
    }
}
// an unquoted token (CharData) consists of characters that do not end a token: no whitespace, no `)`, no `;`
// (so a comment is never glued onto the field before it, and a list's closing parenthesis is not swallowed)
pub open spec fn token_chars(s: Seq<char>) -> bool { forall|i: int| 0 <= i < s.len() ==> !stops_char_data(#[trigger] s[i]) }
pub open spec fn opt_token_chars(o: Option<VpString>) -> bool { o matches Some(x) ==> token_chars(x.v@) }
// String helpers used by next_token
pub fn vp_take_or_empty(o: &mut Option<VpString>) -> (r: VpString) ensures *final(o) is None { match o.take() { Some(s) => s, None => VpString::new() } }
// `match dollar.as_str() { "INCLUDE" => .., "ORIGIN" => .., "TTL" => .., _ => .. }`: which of the three words, if any
#[verifier::external_body] pub fn vp_dollar_kind(s: &VpString) -> (r: u8) { unimplemented!() }
// `char_data_vec.as_mut().ok_or(E1).and_then(|v| { let c = char_data.take().ok_or(E2)?; v.push(c); Ok(()) })`
pub fn vp_push_list(list: &mut Option<Vec<VpString>>, item: &mut Option<VpString>) -> (r: LexerResult<()>)
{
    match list {
        Some(v) => match item.take() { Some(c) => { v.push(c); Ok(()) } None => Err(LexerError::IllegalState("char_data is None")) },
        None => Err(LexerError::IllegalState("char_data_vec is None")),
    }
}
impl Lexer {
//%fn crates/proto/src/serialize/txt/zone_lex.rs :: impl<'a> Lexer<'a> :: next_token
//%sub "String" => "VpString" # R-shim: alloc::string::String -> opaque stand-in
//%sub "ch.is_whitespace()" => "vp_ws(ch)" # R-shim: char class
//%sub "ch.is_control()" => "vp_ctl(ch)" # R-shim: char class
//%sub "char_data.take().unwrap_or_else(|| \"\".into())" => "vp_take_or_empty(&mut char_data)" # R-shim: Option::take + unwrap_or_else(|| "".into())
//%sub1 "dollar.as_str()" => "vp_dollar_kind(&dollar)" # R-shim: match on string literals -> match on which of the three words it is (opaque)
//%sub1 "\"INCLUDE\" =>" => "0u8 =>" # R-shim (same rewrite)
//%sub1 "\"ORIGIN\" =>" => "1u8 =>" # R-shim (same rewrite)
//%sub1 "\"TTL\" =>" => "2u8 =>" # R-shim (same rewrite)
//%sub1 "char_data_vec .as_mut() .ok_or(LexerError::IllegalState(\"char_data_vec is None\")) .and_then(|v| { let char_data = char_data .take() .ok_or(LexerError::IllegalState(\"char_data is None\"))?; v.push(char_data); Ok(()) })?;" => "vp_push_list(&mut char_data_vec, &mut char_data)?;" # R-shim: Option::as_mut / ok_or / and_then pipeline with a `?` inside the closure -> the match it denotes (written in the template)
//%sub1 "None => return Err(LexerError::UnclosedList)," => "None => { assert(has_resolved(self)); return Err(LexerError::UnclosedList); }" # R-ann: a proof hint placed inside a match arm (the arm's expression is kept). On this one exit -- the only one that leaves the loop without having touched `self` since the reborrow by `self.peek()` inside a bare `match` arm -- Verus does not infer by itself that the `&mut self` borrow is resolved; the assertion is PROVED, not assumed
//%attr #[verifier::loop_isolation(false)]
//%attr #[verifier::spinoff_prover]
//%attr #[verifier::rlimit(60)]
//%closure "|s|"
|s: VpString| -> (o: Option<Token>)
//%before "char_data_vec .as_mut() .ok_or(LexerError::IllegalState(\"char_data_vec is None\"))"
                                assert(opt_token_chars(char_data));     // C20: ... also when it becomes an item of a parenthesised list
//%before "return match char_data.take() { Some(s) => Ok(Some(Token::CharData(s))),"
                                assert(opt_token_chars(char_data));     // C20: the unquoted token handed out holds token characters only
//%after "loop"
            invariant self.txt.wf(), self.txt.s == old(self).txt.s,
                // while an unquoted token is being collected, everything collected so far is token characters
                self.state is CharData ==> opt_token_chars(char_data),
            decreases self.txt.s@.len() - self.txt.at, rank(self.state, self.txt)
//%mutant semicolon_ends_a_token_only_in_lists "|| ch == ')' || ch == ';'" => "|| (is_list && (ch == ')' || ch == ';'))"
//%mutant comment_never_advances "Some(_) => { self.txt.next(); }" => "Some(_) => { }"
//%mutant list_and_chardata_ping_pong "Some(ch) if ch.is_whitespace() => { self.txt.next(); }"@2 => "Some(ch) if ch.is_whitespace() => { self.state = State::CharData { is_list: true }; }"
//%contract
        // C20 (lexer part): for EVERY character sequence next_token RETURNS (a token, end of input or an error):
        // no panic, and the loop terminates (decreases clause)
        requires old(self).txt.wf()
        ensures final(self).txt.wf(), final(self).txt.s == old(self).txt.s
//%end
}

} // verus!
fn main() {}
