//%unit name_emit
//%features std
use vstd::prelude::*;
use vstd::std_specs::iter::IteratorSpec;
verus! {
//%include ../common/decoder.rs
//%include ../common/error.rs
//%include ../common/encoder.rs
//%include ../common/name.rs
//%include ../common/label_iter.rs

// ---- Name::emit (name.rs): labels, optional compression pointer, terminating root octet ----
//%const crates/proto/src/rr/domain/name.rs :: COMPRESSED_NAME_LIMIT
//%end
pub open spec fn lower(b: u8) -> u8 { if 0x41 <= b <= 0x5A { (b + 32) as u8 } else { b } }
impl Name {
    // ASSUMED contract of Name::to_lowercase (iter().map().collect() pipeline): same label boundaries,
    // every octet ASCII-lower-cased
    #[verifier::external_body]
    pub fn to_lowercase(&self) -> (r: Self)
        ensures r.label_ends@ == self.label_ends@, r.is_fqdn == self.is_fqdn, r.label_data@.len() == self.label_data@.len(),
            forall|i: int| 0 <= i < self.label_data@.len() ==> r.label_data@[i] == lower(self.label_data@[i]),
            self.wf() ==> r.wf(),
    { unimplemented!() }
}
// m is the ASCII-lower-cased copy of n (RFC 4034 6.2): same label boundaries, every octet folded
pub open spec fn is_lower_of(m: Name, n: Name) -> bool {
    &&& m.label_ends@ == n.label_ends@
    &&& m.label_data@.len() == n.label_data@.len()
    &&& forall|i: int| 0 <= i < n.label_data@.len() ==> m.label_data@[i] == lower(#[trigger] n.label_data@[i])
}
// a label's wire octets lie below the start of every later label: rewriting the buffer from there on keeps it
pub proof fn lemma_wire_label_frame(n: &Name, b0: Seq<u8>, b1: Seq<u8>, off: int, j: int, k: int, lim: int)
    requires n.wf(), 0 <= j < k <= n.nlabels(), off >= 0, n.wire_label_ok(b0, off, j),
        lim == off + k + n.lstart(k), lim <= b1.len(), lim <= b0.len(),
        forall|i: int| 0 <= i < lim ==> b1[i] == b0[i],
    ensures n.wire_label_ok(b1, off, j)
{
    reveal(Name::wire_label_ok);
    assert(n.lstart(j) <= n.label_ends@[j] as int <= n.label_data@.len());
    assert(n.lstart(j + 1) == n.lend(j));
    if j + 1 < k { lemma_lstart_mono(n, j + 1, k); }
    let p = off + j + n.lstart(j);
    let l = n.lend(j) - n.lstart(j);
    assert(p + 1 + l <= lim);
    assert(b1.subrange(p + 1, p + 1 + l) =~= b0.subrange(p + 1, p + 1 + l));
}
// the octets emit_character_data lays down for label k are its wire form
pub proof fn lemma_wire_label_new(n: &Name, b1: Seq<u8>, off: int, k: int, lbl: Seq<u8>)
    requires n.wf(), 0 <= k < n.nlabels(), off >= 0, lbl == n.label(k),
        off + k + n.lstart(k) + 1 + lbl.len() <= b1.len(),
        b1[off + k + n.lstart(k)] as int == lbl.len(),
        forall|i: int| 0 <= i < lbl.len() ==> b1[off + k + n.lstart(k) + 1 + i] == lbl[i],
    ensures n.wire_label_ok(b1, off, k)
{
    reveal(Name::wire_label_ok);
    assert(n.lstart(k) <= n.label_ends@[k] as int <= n.label_data@.len());
    let p = off + k + n.lstart(k);
    let l = n.lend(k) - n.lstart(k);
    assert(b1.subrange(p + 1, p + 1 + l) =~= n.label(k));
}
// the wire form depends on the views of the two vectors only
pub proof fn lemma_wire_at_same_views(m: &Name, n: &Name, b: Seq<u8>, off: int)
    requires n.wire_at(b, off), m.label_ends@ == n.label_ends@, m.label_data@ =~= n.label_data@
    ensures m.wire_at(b, off)
{
    reveal(Name::wire_label_ok);
    assert forall|j: int| 0 <= j < m.nlabels() implies #[trigger] m.wire_label_ok(b, off, j) by {
        assert(n.wire_label_ok(b, off, j));
    }
}
pub proof fn lemma_lstart_mono(n: &Name, a: int, b: int)
    requires n.wf(), 0 <= a < b <= n.nlabels()
    ensures a + n.lstart(a) < b + n.lstart(b)
    decreases b - a
{
    assert(n.lstart(b - 1) <= n.label_ends@[b - 1] as int);
    if a < b - 1 { lemma_lstart_mono(n, a, b - 1); }
}
// AsRef<[u8]> for &[u8] is the identity (assumed fact about core)
#[verifier::external_body]
pub proof fn axiom_as_ref_slice(s: &[u8]) ensures vp_as_ref(&s) == s@ {}

// pulled out as an inherent method because a trait impl cannot carry the `self.wf()` precondition;
// the first block of `ensures` IS the trait-level contract of BinEncodable::emit, repeated verbatim
impl Name {
//%fn crates/proto/src/rr/domain/name.rs :: impl BinEncodable for Name :: emit
//%rename vp_emit
//%attr #[verifier::loop_isolation(false)]
//%attr #[verifier::rlimit(150)]
//%attr #[verifier::spinoff_prover]
//%contract
        requires self.wf(), old(encoder).wf_buf(), old(encoder).tight()
        ensures final(encoder).wf_buf(), old(encoder).wf_ptrs() ==> final(encoder).wf_ptrs(),
            final(encoder).max() == old(encoder).max(),
            final(encoder).offset >= old(encoder).offset,
            old(encoder).wf_ptrs() ==> final(encoder).ptr_prefix_of(*old(encoder)),
            old(encoder).tight() ==> final(encoder).tight(),
            final(encoder).canonical_form == old(encoder).canonical_form,
            final(encoder).name_encoding == old(encoder).name_encoding,
            forall|i: int| 0 <= i < old(encoder).offset ==> final(encoder).bytes()[i] == old(encoder).bytes()[i],
            !(r matches Err(ProtoError::NotAllRecordsWritten { .. })),
            // C04/C05: without compression (RDATA of non-compressible types, canonical form) the name is
            // written label by label and terminated by the root octet: exactly enc_len octets, no pointer
            r is Ok && !(old(encoder).name_encoding is Compressed) ==> final(encoder).offset == old(encoder).offset + self.enc_len(),
            // C02: a name never takes more than 255 octets on the wire, compressed or not
            r is Ok ==> final(encoder).offset <= old(encoder).offset + 255,
            // C02/C04 (wire round trip, encoder half): whenever no compression pointer may be used -- RDATA of
            // non-compressible types, canonical form, or past the per-message compression budget -- the octets
            // written ARE the RFC 1035 3.1 wire form of this name, letter case included (of its lower-cased copy
            // in the RFC 4034 6.2 canonical mode); name_read::lemma_wire_roundtrip decodes them back to the same labels
            r is Ok && (old(encoder).name_encoding is Uncompressed
                        || (old(encoder).name_encoding is Compressed && old(encoder).compressed_name_count >= COMPRESSED_NAME_LIMIT))
                ==> self.wire_at(final(encoder).bytes(), old(encoder).offset as int),
            r is Ok && (old(encoder).name_encoding is UncompressedLowercase)
                ==> forall|m: Name| is_lower_of(m, *self) ==> #[trigger] m.wire_at(final(encoder).bytes(), old(encoder).offset as int),
            // C02 (every name that can exist encodes): the length check rejects only names longer than 255 octets
            r matches Err(ProtoError::Decode(DecodeError::DomainNameTooLong(_))) ==> self.enc_len() > 255,
//%entry
        let ghost enc0 = *old(encoder);
//%after "let labels = name_ref.iter();"
        assert(name_ref.wf());
        let ghost nl = name_ref.nlabels();
        proof {
            assert forall|i: int| label_slice(name_ref, i)@ == name_ref.label(i) by { lemma_label_slice_view(name_ref, i); }
        }
//%after "for label in"
            vp_it:
//%after "for label in labels"
            invariant
                name_ref.wf(), nl == name_ref.nlabels(),
                encoder.wf_buf(), encoder.tight(), enc0.wf_ptrs() ==> encoder.wf_ptrs(),
                encoder.max() == enc0.max(), encoder.name_pointers == enc0.name_pointers,
                encoder.canonical_form == enc0.canonical_form, encoder.name_encoding == enc0.name_encoding,
                encoder.compressed_name_count == enc0.compressed_name_count,
                forall|i: int| 0 <= i < enc0.offset ==> encoder.bytes()[i] == enc0.bytes()[i],
                0 <= vp_it.index@ <= nl,
                vp_it.snapshot@.remaining().len() == nl,
                forall|j: int| 0 <= j < nl ==> (#[trigger] vp_it.snapshot@.remaining()[j])@ == name_ref.label(j),
                labels_written@.len() == vp_it.index@,
                // label j starts at enc0.offset + j + (octets of labels before it)
                forall|j: int| 0 <= j < vp_it.index@ ==> (#[trigger] labels_written@[j]) as int == enc0.offset + j + name_ref.lstart(j),
                encoder.offset == enc0.offset + vp_it.index@ + name_ref.lstart(vp_it.index@ as int),
                forall|j: int| 0 <= j < vp_it.index@ ==> #[trigger] name_ref.wire_label_ok(encoder.bytes(), enc0.offset as int, j),
//%after "for label in labels {"
            proof {
                let k = vp_it.index@;
                assert(label@ == name_ref.label(k));
                assert(name_ref.lstart(k) <= name_ref.label_ends@[k] as int <= name_ref.label_data@.len());
                axiom_as_ref_slice(label);
            }
//%before "labels_written.push(encoder.offset);"
            let ghost enc_b = *encoder;
//%after "encoder.emit_character_data(label)?;"
            proof {
                let k = vp_it.index@ as int;
                let off = enc0.offset as int;
                let b1 = encoder.bytes();
                lemma_wire_label_new(name_ref, b1, off, k, label@);
                assert forall|j: int| 0 <= j < k implies #[trigger] name_ref.wire_label_ok(b1, off, j) by {
                    lemma_wire_label_frame(name_ref, enc_b.bytes(), b1, off, j, k, enc_b.offset as int);
                }
            }
//%after "let last_index = encoder.offset;"
        assert(last_index == enc0.offset + nl + name_ref.label_data@.len());
        assert(last_index <= 0xFFFF);
        let ghost enc1 = *encoder;
        let ghost lw = labels_written@;
        proof {
            // label starts are strictly increasing and lie inside the bytes just written
            assert forall|a: int, b: int| 0 <= a < b < nl implies lw[a] < lw[b] by { lemma_lstart_mono(name_ref, a, b); }
            assert forall|j: int| 0 <= j < nl implies enc0.offset <= (#[trigger] lw[j]) < last_index by {
                assert(name_ref.lstart(j) <= name_ref.label_ends@[j] as int <= name_ref.label_data@.len());
            }
        }
//%after "for label_idx in"@1
                vp_itb:
//%after "for label_idx in &labels_written"@1
                invariant
                    labels_written@ == lw, lw.len() == nl,
                    encoder.wf_buf(), encoder.tight(), encoder.offset == last_index, encoder.max() == enc0.max(),
                    encoder.bytes() == enc1.bytes(),
                    encoder.canonical_form == enc0.canonical_form, encoder.name_encoding == enc0.name_encoding,
                    encoder.name_pointers@.len() >= enc0.name_pointers@.len(),
                    forall|k: int| 0 <= k < enc0.name_pointers@.len() ==> encoder.name_pointers@[k] == enc0.name_pointers@[k],
                    // candidates added for this name start at one of the earlier labels of this name
                    forall|k: int| enc0.name_pointers@.len() <= k < encoder.name_pointers@.len() ==>
                        exists|j: int| 0 <= j < vp_itb.index@ && (#[trigger] encoder.name_pointers@[k]).0 == lw[j],
                    forall|k: int| enc0.name_pointers@.len() <= k < encoder.name_pointers@.len() ==> (#[trigger] encoder.name_pointers@[k]).0 < last_index,
                    0 <= vp_itb.index@ <= nl, vp_itb.snapshot@.remaining().len() == nl,
                    forall|j: int| 0 <= j < nl ==> *(#[trigger] vp_itb.snapshot@.remaining()[j]) == lw[j],
//%after "for label_idx in &labels_written {"@1
                let ghost kb = vp_itb.index@;
                assert(*label_idx == lw[kb]);
                assert(enc0.offset <= lw[kb] < last_index);
//%before "encoder.offset = *label_idx;"
                        let ghost vp_before_trim = *encoder;
//%before "encoder.trim();"
                        proof {
                            if enc0.wf_ptrs() {
                                assert forall|k: int| 0 <= k < enc0.name_pointers@.len() implies (#[trigger] encoder.name_pointers@[k]).0 < lw[kb] by {
                                    assert(enc0.name_pointers@[k].0 < enc0.offset);
                                }
                            }
                            // everything in the table starts below this label: enc0's candidates (if the table was
                            // well-formed on entry) and the ones added above for earlier labels of this name
                            assert forall|k: int| enc0.name_pointers@.len() <= k < encoder.name_pointers@.len() implies (#[trigger] encoder.name_pointers@[k]).0 < lw[kb] by {
                                let j = choose|j: int| 0 <= j < kb && encoder.name_pointers@[k].0 == lw[j];
                                assert(lw[j] < lw[kb]);
                            }
                        }
//%after "encoder.trim();"
                        assert(encoder.offset == lw[kb] && encoder.tight());
                        assert(enc0.wf_ptrs() ==> encoder.name_pointers@ == vp_before_trim.name_pointers@);
                        assert(forall|i: int| 0 <= i < enc0.offset ==> encoder.bytes()[i] == enc0.bytes()[i]);
//%after "for label_idx in"@2
                vp_itc:
//%after "for label_idx in &labels_written"@2
                invariant
                    labels_written@ == lw, lw.len() == nl,
                    encoder.wf_buf(), encoder.tight(), encoder.offset == last_index, encoder.max() == enc0.max(),
                    encoder.bytes() == enc1.bytes(),
                    encoder.canonical_form == enc0.canonical_form, encoder.name_encoding == enc0.name_encoding,
                    encoder.name_pointers@.len() >= enc0.name_pointers@.len(),
                    forall|k: int| 0 <= k < enc0.name_pointers@.len() ==> encoder.name_pointers@[k] == enc0.name_pointers@[k],
                    forall|k: int| enc0.name_pointers@.len() <= k < encoder.name_pointers@.len() ==> (#[trigger] encoder.name_pointers@[k]).0 < last_index,
                    0 <= vp_itc.index@ <= nl, vp_itc.snapshot@.remaining().len() == nl,
                    forall|j: int| 0 <= j < nl ==> *(#[trigger] vp_itc.snapshot@.remaining()[j]) == lw[j],
//%after "for label_idx in &labels_written {"@2
                assert(*label_idx == lw[vp_itc.index@]);
//%before "(0xC000u16 | loc).emit(encoder)?;"
                        // RFC 1035 4.1.4: a pointer carries a 14-bit offset; what the decoder will read back
                        // (the low 14 bits) must be the location that was looked up
                        assert((0xC000u16 | loc) & 0x3FFF == loc && (0xC000u16 | loc) >> 14 == 3) by (bit_vector) requires loc & 0xC000 == 0;
//%mutant pointer_guard_dropped "Some(loc) if loc & 0xC000 == 0 =>" => "Some(loc) =>"
//%mutant root_octet_missing "0u8.emit(encoder)?;" => ""
//%mutant trim_forgotten "encoder.trim();" => ""
//%before "0u8.emit(encoder)?;"
        assert(enc0.wf_ptrs() ==> encoder.wf_ptrs()) by {
            if enc0.wf_ptrs() {
                assert forall|k: int| 0 <= k < encoder.name_pointers@.len() implies (#[trigger] encoder.name_pointers@[k]).0 < encoder.offset by {
                    if k < enc0.name_pointers@.len() { assert(enc0.name_pointers@[k].0 < enc0.offset); }
                }
            }
        }
        assert(enc0.wf_ptrs() ==> encoder.ptr_prefix_of(enc0));
        let ghost enc2 = *encoder;
//%before "let length = encoder.len() - buf_len;"
        proof {
            // no pointer was written on this path: labels as laid down by the first loop, then the root octet
            let off = enc0.offset as int;
            let b2 = encoder.bytes();
            assert(enc2.bytes() == enc1.bytes() && enc2.offset == last_index);
            assert forall|j: int| 0 <= j < nl implies #[trigger] name_ref.wire_label_ok(b2, off, j) by {
                lemma_wire_label_frame(name_ref, enc1.bytes(), b2, off, j, nl, last_index as int);
            }
            assert(name_ref.wire_at(b2, off));
            if enc0.name_encoding is UncompressedLowercase {
                assert forall|m: Name| is_lower_of(m, *self) implies #[trigger] m.wire_at(b2, off) by {
                    assert(m.label_data@ =~= name_ref.label_data@);
                    lemma_wire_at_same_views(&m, name_ref, b2, off);
                }
            }
        }
//%mutant root_octet_nonzero "0u8.emit(encoder)?;" => "1u8.emit(encoder)?;"
//%end
}
} // verus!
fn main() {}
