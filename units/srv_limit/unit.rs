//%unit srv_limit
//%features std __dnssec dnssec-ring
use vstd::prelude::*;
verus! {
// ---- C03, server side: "a response sent over UDP is never longer than max(512, the payload size
//      the client advertised), and over TCP never longer than 65,535" ----
// The two decisions are single expressions inside larger (async / logging) functions; they are
// extracted as expression items (the weakest form of extraction, DESIGN 3.2) into wrapper functions
// whose parameters are the expressions' free variables.

//%enum crates/net/src/xfer/mod.rs :: Protocol
//%end
#[derive(Clone, Copy)]
//%struct crates/proto/src/op/edns.rs :: EdnsFlags
//%end
// the Edns fields the extracted code reads or writes (options / other fields are not touched by it)
pub struct Edns { pub rcode_high: u8, pub version: u8, pub flags: EdnsFlags, pub max_payload: u16 }
impl Edns {
//%fn crates/proto/src/op/edns.rs :: impl Edns :: max_payload
//%contract
        ensures r == self.max_payload
//%end
//%fn crates/proto/src/op/edns.rs :: impl Edns :: flags
//%contract
        ensures *r == self.flags
//%end
//%fn crates/proto/src/op/edns.rs :: impl Edns :: set_max_payload
//%contract
        // the method returns `self` for call chaining: the caller's view is the returned reference
        ensures *final(r) == *final(self),
            r.max_payload == (if max_payload > 512 { max_payload } else { 512u16 }),
            r.rcode_high == old(self).rcode_high, r.version == old(self).version, r.flags == old(self).flags,
//%sub1 "max_payload.max(512)" => "vp_u16_max(max_payload, 512)" # R-shim: Ord::max for u16
//%end
//%fn crates/proto/src/op/edns.rs :: impl Edns :: set_version
//%contract
        ensures *final(r) == *final(self), r.version == version, r.max_payload == old(self).max_payload, r.flags == old(self).flags,
//%end
//%fn crates/proto/src/op/edns.rs :: impl Edns :: set_dnssec_ok
//%contract
        ensures *final(r) == *final(self), r.flags.dnssec_ok == dnssec_ok, r.max_payload == old(self).max_payload, r.version == old(self).version,
//%end
}
// R-shim: core::cmp::Ord::max on u16
#[verifier::external_body]
pub fn vp_u16_max(a: u16, b: u16) -> (r: u16) ensures r == (if a > b { a } else { b }) { a.max(b) }

// Catalog::handle_request: how the response EDNS is derived from the request EDNS
fn catalog_response_edns(req_edns: &Edns, resp_edns: &mut Edns, our_version: u8)
    ensures
        // the payload size the response will be limited to is max(512, advertised) -- never more
        final(resp_edns).max_payload == (if req_edns.max_payload > 512 { req_edns.max_payload } else { 512u16 }),
{
//%expr crates/server/src/zone_handler/catalog.rs :: impl RequestHandler for Catalog :: handle_request :: "resp_edns.set_dnssec_ok(req_edns.flags().dnssec_ok);" .. "resp_edns.set_version(our_version);"
//%sub? "req_edns.max_payload().max(512)" => "vp_u16_max(req_edns.max_payload(), 512)" # R-shim: Ord::max for u16
//%sub? ".max(min_payload)" => ".vp_max(min_payload)" # R-shim: Ord::max for u16 (method form)
//%mutant payload_overridden "resp_edns.set_version(our_version);" => "resp_edns.set_max_payload(4096); resp_edns.set_version(our_version);"
//%end
}
pub trait VpMax { fn vp_max(self, o: u16) -> u16; }
impl VpMax for u16 {
    #[verifier::external_body]
    fn vp_max(self, o: u16) -> (r: u16) ensures r == (if self > o { self } else { o }) { self.max(o) }
}

// MessageResponse::encode: the size limit handed to the encoder
pub struct VpMessageResponse { pub edns: Option<Edns> }
impl VpMessageResponse {
    fn encode_limit(&self, protocol: Protocol) -> (r: u16)
        ensures
            // UDP: the response EDNS payload (which is max(512, advertised), see above) or 512 without EDNS
            protocol is Udp ==> r == (match self.edns { Some(e) => e.max_payload, None => 512u16 }),
            // anything else is a stream transport: 65,535
            !(protocol is Udp) ==> r == 65535,
    {
//%expr crates/server/src/zone_handler/message_response.rs :: impl<'q, 'a, A, N, S, D> MessageResponse<'q, 'a, A, N, S, D> where A: Iterator<Item = &'a Record> + Send + 'a, N: Iterator<Item = &'a Record> + Send + 'a, S: Iterator<Item = &'a Record> + Send + 'a, D: Iterator<Item = &'a Record> + Send + 'a, :: encode :: "match protocol {" .. "_ => u16::MAX, }"
//%mutant no_edns_means_unlimited "None => 512," => "None => u16::MAX,"
//%end
    }
}
} // verus!
fn main() {}
