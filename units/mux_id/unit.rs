//%unit mux_id
//%features std
use vstd::prelude::*;
use vstd::std_specs::iter::IteratorSpec;
verus! {
//%include ../common/forloop.rs
// ---- C16 kernel: "in-flight IDs are pairwise distinct" -- the id handed to a new request is not the
//      key of any active request (send_message then inserts under that key) ----
pub struct NetError { pub vp_msg: u64 }
impl vstd::std_specs::convert::FromSpecImpl<&'static str> for NetError {
    open spec fn obeys_from_spec() -> bool { false }
    uninterp spec fn from_spec(m: &'static str) -> Self;
}
impl From<&'static str> for NetError {
    #[verifier::external_body]
    fn from(m: &'static str) -> (r: Self) { unimplemented!() }
}
// stand-in for HashMap<u16, ActiveRequest>: only key membership matters here
pub struct VpActive { pub vp_id: u64 }
impl VpActive {
    pub uninterp spec fn has(&self, id: u16) -> bool;
    #[verifier::external_body]
    pub fn contains_key(&self, id: &u16) -> (r: bool) ensures r == self.has(*id) { unimplemented!() }
}
// stand-in for rand: random() returns an arbitrary u16 (nothing is assumed about its distribution)
pub struct VpRng;
impl VpRng {
    #[verifier::external_body]
    pub fn random(&mut self) -> (r: u16) { unimplemented!() }
}
pub mod rand { pub fn rng() -> super::VpRng { super::VpRng } }
pub struct DnsMultiplexer { pub active_requests: VpActive }

impl DnsMultiplexer {
//%fn crates/net/src/xfer/dns_multiplexer.rs :: impl<S: DnsClientStream> DnsMultiplexer<S> :: next_random_query_id
//%contract
        ensures r matches Ok(id) ==> !self.active_requests.has(id)
//%mutant unchecked_id "if !self.active_requests.contains_key(&id)" => "if true"
//%end
}

// ---- C16 kernel: "a UDP query completes only with a datagram that came from the queried address and
//      port" -- the skip test of UdpRequest::send (expression-level extraction) ----
#[derive(Clone, Copy)] pub struct IpAddr { pub raw: u128, pub v4_mapped: bool }
pub uninterp spec fn canon(a: IpAddr) -> IpAddr;   // IpAddr::to_canonical (IPv4-mapped IPv6 -> IPv4), uninterpreted
impl IpAddr {
    #[verifier::external_body]
    pub fn to_canonical(&self) -> (r: IpAddr) ensures r == canon(*self) { unimplemented!() }
}
impl vstd::std_specs::cmp::PartialEqSpecImpl for IpAddr { open spec fn obeys_eq_spec() -> bool { true } open spec fn eq_spec(&self, o: &IpAddr) -> bool { *self == *o } }
impl PartialEq for IpAddr { fn eq(&self, o: &IpAddr) -> (r: bool) { self.raw == o.raw && self.v4_mapped == o.v4_mapped } }
#[derive(Clone, Copy)] pub struct SocketAddr { pub ip: IpAddr, pub port: u16 }
impl SocketAddr {
    pub fn ip(&self) -> (r: IpAddr) ensures r == self.ip { self.ip }
    pub fn port(&self) -> (r: u16) ensures r == self.port { self.port }
}
fn datagram_is_skipped(src: SocketAddr, request_target: SocketAddr) -> (skip: bool)
    ensures !skip <==> (canon(src.ip) == canon(request_target.ip) && src.port == request_target.port)
{
//%expr crates/net/src/udp/udp_client_stream.rs :: impl<P: RuntimeProvider> Request for UdpRequest<P> :: send :: "src.ip().to_canonical()"@1 .. "request_target.port()"@1
//%mutant port_ignored "|| src.port() != request_target.port()" => ""
//%end
}
// ---- C16 kernel: "... whose question section names only questions that were asked (with identical letter case when
//      case randomisation is on)" -- the question check of UdpRequest::send (statement-range extraction) ----
pub struct Name { pub folded: u64, pub exact: u64 }        // a name up to case (folded) and with its letter case (exact)
impl Name {
    // Name::eq_case: label-wise octet equality
    pub fn eq_case(&self, o: &Name) -> (r: bool) ensures r == (self.exact == o.exact && self.folded == o.folded) { self.exact == o.exact && self.folded == o.folded }
}
pub struct Query { pub name: Name, pub qtype: u16, pub qclass: u16 }
pub open spec fn q_eq(a: Query, b: Query) -> bool { a.name.folded == b.name.folded && a.qtype == b.qtype && a.qclass == b.qclass }   // PartialEq for Query: case-insensitive name, type, class
impl vstd::std_specs::cmp::PartialEqSpecImpl for Query { open spec fn obeys_eq_spec() -> bool { true } open spec fn eq_spec(&self, o: &Query) -> bool { q_eq(*self, *o) } }
impl PartialEq for Query { fn eq(&self, o: &Query) -> (r: bool) { self.name.folded == o.name.folded && self.qtype == o.qtype && self.qclass == o.qclass } }
// slice iterator shims, specified through the closure's own contract
#[verifier::external_body]
pub fn vp_all<'s, T, F: Fn(&'s T) -> bool>(s: &'s [T], f: F) -> (r: bool)
    requires forall|i: int| 0 <= i < s@.len() ==> call_requires(f, (&#[trigger] s@[i],))
    ensures r ==> forall|i: int| 0 <= i < s@.len() ==> call_ensures(f, (&#[trigger] s@[i],), true),
        !r ==> exists|i: int| 0 <= i < s@.len() && call_ensures(f, (&#[trigger] s@[i],), false)
{ s.iter().all(f) }
#[verifier::external_body]
pub fn vp_any<'s, T, F: Fn(&'s T) -> bool>(s: &'s [T], f: F) -> (r: bool)
    requires forall|i: int| 0 <= i < s@.len() ==> call_requires(f, (&#[trigger] s@[i],))
    ensures r ==> exists|i: int| 0 <= i < s@.len() && call_ensures(f, (&#[trigger] s@[i],), true),
        !r ==> forall|i: int| 0 <= i < s@.len() ==> call_ensures(f, (&#[trigger] s@[i],), false)
{ s.iter().any(f) }
#[verifier::external_body]
pub fn vp_contains(s: &[Query], q: &Query) -> (r: bool)
    ensures r == exists|i: int| 0 <= i < s@.len() && q_eq(#[trigger] s@[i], *q)
{ s.contains(q) }
pub enum VpQuestionCheck { Accept, Skip, CaseMismatch }
pub open spec fn asked(req: Seq<Query>, q: Query) -> bool { exists|j: int| 0 <= j < req.len() && q_eq(#[trigger] req[j], q) }
pub open spec fn asked_same_case(req: Seq<Query>, q: Query) -> bool { exists|j: int| 0 <= j < req.len() && q_eq(#[trigger] req[j], q) && req[j].name.exact == q.name.exact }
fn question_check(case_randomization: bool, request_queries: &Vec<Query>, response_queries: &mut Vec<Query>) -> (r: VpQuestionCheck)
    ensures
        final(response_queries)@ == old(response_queries)@,
        // C16: a datagram is accepted only if every question it names was asked -- with identical letter case when
        // case randomisation is on
        r is Accept ==> forall|i: int| 0 <= i < old(response_queries)@.len() ==> asked(request_queries@, #[trigger] old(response_queries)@[i]),
        r is Accept && case_randomization ==> forall|i: int| 0 <= i < old(response_queries)@.len() ==> asked_same_case(request_queries@, #[trigger] old(response_queries)@[i]),
        // a forged question section is skipped (the query goes on waiting), never turned into an error
        (exists|i: int| 0 <= i < old(response_queries)@.len() && !asked(request_queries@, #[trigger] old(response_queries)@[i])) ==> r is Skip,
{
//%expr crates/net/src/udp/udp_client_stream.rs :: impl<P: RuntimeProvider> Request for UdpRequest<P> :: send :: "let question_matches =" .. "continue; }"
//%sub "response_queries .iter() .all(" => "vp_all(response_queries.as_slice(), " # R-shim: slice iterator `all`, specified through the closure's contract
//%sub1 "request_queries .iter() .any(" => "vp_any(request_queries.as_slice(), " # R-shim: slice iterator `any`
//%sub1 "request_queries.contains(elem)" => "vp_contains(request_queries.as_slice(), elem)" # R-shim: <[Query]>::contains
//%sub1 "self.case_randomization" => "case_randomization" # wrapper parameter
//%closure "|elem|"@1
|elem: &Query| -> (b: bool) ensures b == asked(request_queries@, *elem)
//%closure "|elem|"@2
|elem: &Query| -> (b: bool) ensures b == asked_same_case(request_queries@, *elem)
//%closure "|req_q|"
|req_q: &Query| -> (c: bool) ensures c == (q_eq(*req_q, *elem) && req_q.name.exact == elem.name.exact)
//%sub1 "return Err(NetError::QueryCaseMismatch);" => "return VpQuestionCheck::CaseMismatch;" # wrapper: the error return of the enclosing fn
//%sub1 "continue;" => "return VpQuestionCheck::Skip;" # wrapper: `continue` of the enclosing receive loop
//%mutant case_not_compared "req_q == elem && req_q.name.eq_case(&elem.name)" => "req_q == elem"
//%mutant forged_question_is_an_error "if !question_matches" => "if false"
//%end
    VpQuestionCheck::Accept
}

// ---- C16 kernel: "... carries the query's ID": the id test of UdpRequest::send (statement range of the receive loop) ----
pub struct VpHeaderId { pub id: u16 }
pub enum VpIdCheck { Go, Skip }
fn id_check(msg_id: u16, response: &VpHeaderId) -> (r: VpIdCheck)
    ensures r is Go <==> msg_id == response.id     // a datagram with another ID is skipped (the query goes on waiting), never accepted
{
//%expr crates/net/src/udp/udp_client_stream.rs :: impl<P: RuntimeProvider> Request for UdpRequest<P> :: send :: "if msg_id != response.id {" .. "continue; }"
//%sub1 "continue;" => "return VpIdCheck::Skip;" # wrapper: `continue` of the enclosing receive loop
//%mutant id_not_checked "if msg_id != response.id {" => "if false && msg_id != response.id {"
//%end
    VpIdCheck::Go
}
} // verus!
fn main() {}
