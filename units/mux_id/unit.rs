//%unit mux_id
//%features std
use vstd::prelude::*;
verus! {
// ---- C16 kernel: "in-flight IDs are pairwise distinct" -- the id handed to a new request is not the
//      key of any active request (send_message then inserts under that key) ----
pub struct NetError { pub vp_msg: u64 }
impl vstd::std_specs::convert::FromSpecImpl<&'static str> for NetError {
    open spec fn obeys_from_spec() -> bool { false }
    uninterp spec fn from_spec(m: &'static str) -> Self;
}
impl From<&'static str> for NetError {
    #[verifier::external_body]
    fn from(m: &'static str) -> (r: Self) { unimplemented!() }
}
// stand-in for HashMap<u16, ActiveRequest>: only key membership matters here
pub struct VpActive { pub vp_id: u64 }
impl VpActive {
    pub uninterp spec fn has(&self, id: u16) -> bool;
    #[verifier::external_body]
    pub fn contains_key(&self, id: &u16) -> (r: bool) ensures r == self.has(*id) { unimplemented!() }
}
// stand-in for rand: random() returns an arbitrary u16 (nothing is assumed about its distribution)
pub struct VpRng;
impl VpRng {
    #[verifier::external_body]
    pub fn random(&mut self) -> (r: u16) { unimplemented!() }
}
pub mod rand { pub fn rng() -> super::VpRng { super::VpRng } }
pub struct DnsMultiplexer { pub active_requests: VpActive }

impl DnsMultiplexer {
//%fn crates/net/src/xfer/dns_multiplexer.rs :: impl<S: DnsClientStream> DnsMultiplexer<S> :: next_random_query_id
//%contract
        ensures r matches Ok(id) ==> !self.active_requests.has(id)
//%mutant unchecked_id "if !self.active_requests.contains_key(&id)" => "if true"
//%end
}

// ---- C16 kernel: "a UDP query completes only with a datagram that came from the queried address and
//      port" -- the skip test of UdpRequest::send (expression-level extraction) ----
#[derive(Clone, Copy)] pub struct IpAddr { pub raw: u128, pub v4_mapped: bool }
pub uninterp spec fn canon(a: IpAddr) -> IpAddr;   // IpAddr::to_canonical (IPv4-mapped IPv6 -> IPv4), uninterpreted
impl IpAddr {
    #[verifier::external_body]
    pub fn to_canonical(&self) -> (r: IpAddr) ensures r == canon(*self) { unimplemented!() }
}
impl vstd::std_specs::cmp::PartialEqSpecImpl for IpAddr { open spec fn obeys_eq_spec() -> bool { true } open spec fn eq_spec(&self, o: &IpAddr) -> bool { *self == *o } }
impl PartialEq for IpAddr { fn eq(&self, o: &IpAddr) -> (r: bool) { self.raw == o.raw && self.v4_mapped == o.v4_mapped } }
#[derive(Clone, Copy)] pub struct SocketAddr { pub ip: IpAddr, pub port: u16 }
impl SocketAddr {
    pub fn ip(&self) -> (r: IpAddr) ensures r == self.ip { self.ip }
    pub fn port(&self) -> (r: u16) ensures r == self.port { self.port }
}
fn datagram_is_skipped(src: SocketAddr, request_target: SocketAddr) -> (skip: bool)
    ensures !skip <==> (canon(src.ip) == canon(request_target.ip) && src.port == request_target.port)
{
//%expr crates/net/src/udp/udp_client_stream.rs :: impl<P: RuntimeProvider> Request for UdpRequest<P> :: send :: "src.ip().to_canonical()"@1 .. "request_target.port()"@1
//%mutant port_ignored "|| src.port() != request_target.port()" => ""
//%end
}
} // verus!
fn main() {}
