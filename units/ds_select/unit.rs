//%unit ds_select
//%features std __dnssec dnssec-ring
use vstd::prelude::*;
use vstd::std_specs::iter::IteratorSpec;
verus! {
// ---- C07 kernel: "Insecure is reported only when a validated denial proves the delegation has no DS or only unsupported
//      algorithms ... never silently Insecure": what DnssecDnsHandle::fetch_ds_records makes of a SECURE DS RRset (statement
//      range of the async fn: from the empty `supported_records` to the two returns). The order of the DS records in the
//      response is not covered by the RRSIG, so the verdict must not depend on it. ----
#[derive(Clone, Copy)] pub struct VpAlg { pub ok: bool }
impl VpAlg { pub fn is_supported(&self) -> (r: bool) ensures r == self.ok { self.ok } }
#[derive(Clone, Copy)] pub struct VpProof { pub secure: bool, pub insecure: bool }
impl VpProof {
    pub fn is_secure(&self) -> (r: bool) ensures r == self.secure { self.secure }
    pub fn is_insecure(&self) -> (r: bool) ensures r == self.insecure { self.insecure }
}
#[derive(Clone, Copy)] pub struct VpDs { pub alg: VpAlg, pub dig: VpAlg }
impl VpDs {
    pub fn algorithm(&self) -> (r: VpAlg) ensures r == self.alg { self.alg }
    pub fn digest_type(&self) -> (r: VpAlg) ensures r == self.dig { self.dig }
}
#[derive(Clone, Copy)] pub struct VpDsRecord { pub data: VpDs, pub proof: VpProof }
pub enum VpDsOutcome { Insecure, Records(Vec<VpDsRecord>), FallThrough }
// Option::get_or_insert / unwrap_or (core)
pub fn vp_get_or_insert(o: &mut Option<bool>, v: bool) ensures *final(o) == (match *old(o) { Some(x) => Some(x), None => Some(v) }) { if o.is_none() { *o = Some(v); } }
pub fn vp_unwrap_or(o: Option<bool>, d: bool) -> (r: bool) ensures r == (match o { Some(x) => x, None => d }) { match o { Some(x) => x, None => d } }
// a DS record a validator can build a chain link on
pub open spec fn usable(r: VpDsRecord) -> bool { r.data.alg.ok && r.data.dig.ok }
// a DS record that says "signed with something I cannot check": unsupported, and itself validated (or from an insecure parent)
pub open spec fn unknown_alg(r: VpDsRecord) -> bool { !usable(r) && (r.proof.secure || r.proof.insecure) }
pub open spec fn in_set(all: Seq<VpDsRecord>, x: VpDsRecord) -> bool { exists|i: int| 0 <= i < all.len() && #[trigger] all[i] == x }
fn ds_verdict(all_records: Vec<VpDsRecord>) -> (out: VpDsOutcome)
    ensures
        // Insecure only if EVERY record of the (non-empty) set is a validated DS with an unsupported algorithm or digest --
        // in particular no record of the set is usable -- whatever the order of the records
        out is Insecure ==> all_records@.len() > 0 && forall|i: int| 0 <= i < all_records@.len() ==> unknown_alg(#[trigger] all_records@[i]),
        // the records handed on for matching DNSKEYs are usable ones out of the set
        out matches VpDsOutcome::Records(v) ==> v@.len() > 0,
        out matches VpDsOutcome::Records(v) ==> forall|j: int| 0 <= j < v@.len() ==> in_set(all_records@, #[trigger] v@[j]),
{
    let ghost all = all_records@;
//%expr crates/net/src/dnssec/mod.rs :: impl<H: DnsHandle> DnssecDnsHandle<H> :: fetch_ds_records :: "let mut supported_records = vec![];" .. "return Ok(supported_records); }"
//%sub1 "let mut supported_records = vec![];" => "let mut supported_records: Vec<VpDsRecord> = Vec::new();" # R-ann: type ascription; vec![] -> Vec::new()
//%sub? "all_unknown.get_or_insert(true);" => "vp_get_or_insert(&mut all_unknown, true);" # R-shim: Option::get_or_insert
//%sub1 "all_unknown.unwrap_or(false)" => "vp_unwrap_or(all_unknown, false)" # R-shim: Option::unwrap_or
//%sub1 "continue; }" => "} else {" # R-cont: `if C { A; continue; } B` -> `if C { A } else { B }`
//%sub1 "supported_records.push(record);" => "supported_records.push(record); }" # R-cont (same rewrite): closes the else branch
//%sub1 "return Err(ProofError::new( Proof::Insecure, ProofErrorKind::UnknownKeyAlgorithm, ));" => "return VpDsOutcome::Insecure;" # wrapper: the Insecure verdict of the enclosing fn
//%sub1 "return Ok(supported_records);" => "return VpDsOutcome::Records(supported_records);" # wrapper: the records handed on
//%after "for record in"
            vp_it:
//%after "for record in all_records"
            invariant
                vp_it.snapshot@.remaining() == all, 0 <= vp_it.index@ <= all.len(),
                all_unknown is None ==> vp_it.index@ == 0,
                all_unknown == Some(true) ==> vp_it.index@ > 0 && forall|i: int| 0 <= i < vp_it.index@ ==> unknown_alg(#[trigger] all[i]),
                forall|j: int| 0 <= j < supported_records@.len() ==> in_set(all, #[trigger] supported_records@[j]),
//%after "for record in all_records {"
                    assert(record == all[vp_it.index@ as int]);
                    assert(in_set(all, record));
//%end
    VpDsOutcome::FallThrough
}
} // verus!
fn main() {}
