//%unit zone_text
//%features std
use vstd::prelude::*;
verus! {
// ---- C20 kernels on the text side of RDATA / TTL parsing: "Malformed text of any kind yields a parse error, never a
//      panic". A &str is its UTF-8 octets plus the set of char boundaries; slicing panics unless both ends are
//      boundaries in order (core::str::index), which is therefore the PRECONDITION of the slicing shim. ----
pub struct VpStr { pub b: Vec<u8> }
pub uninterp spec fn vp_boundary(s: &VpStr, i: int) -> bool;
// UTF-8: the start, the end, and both sides of every ASCII octet are char boundaries
#[verifier::external_body]
pub broadcast proof fn axiom_boundaries(s: &VpStr, i: int)
    ensures (i == 0 || i == s.b@.len() || (0 < i <= s.b@.len() && s.b@[i - 1] < 0x80) || (0 <= i < s.b@.len() && s.b@[i] < 0x80))
        ==> #[trigger] vp_boundary(s, i),
{}
impl VpStr {
    pub fn len(&self) -> (r: usize) ensures r == self.b@.len() { self.b.len() }
    pub fn is_empty(&self) -> (r: bool) ensures r == (self.b@.len() == 0) { self.b.len() == 0 }
    // str::starts_with / ends_with for an ASCII char pattern
    #[verifier::external_body]
    pub fn starts_with(&self, c: char) -> (r: bool)
        requires (c as u32) < 0x80
        ensures r == (self.b@.len() >= 1 && self.b@[0] as u32 == c as u32)
    { unimplemented!() }
    #[verifier::external_body]
    pub fn ends_with(&self, c: char) -> (r: bool)
        requires (c as u32) < 0x80
        ensures r == (self.b@.len() >= 1 && self.b@[self.b@.len() - 1] as u32 == c as u32)
    { unimplemented!() }
}
// &s[a..b]: core::str::index panics ("byte index is not a char boundary" / "begin <= end") unless this holds
#[verifier::external_body]
pub fn vp_str_slice<'a>(s: &'a VpStr, a: usize, b: usize) -> (r: &'a VpStr)
    requires a <= b <= s.b@.len(), vp_boundary(s, a as int), vp_boundary(s, b as int)
    ensures r.b@ == s.b@.subrange(a as int, b as int)
{ unimplemented!() }

// SVCB/HTTPS presentation format, SvcParam value un-quoting (statement range of the from_tokens loop in svcb.rs)
fn svcb_unquote<'a>(value: &mut &'a VpStr)
    ensures
        // C20: returns for every token text (the slicing precondition above is the obligation);
        // a value wrapped in a pair of quotes loses exactly the pair, anything else is left as it is
        (old(value).b@.len() >= 2 && old(value).b@[0] == 0x22 && old(value).b@[old(value).b@.len() - 1] == 0x22)
            ==> final(value).b@ == old(value).b@.subrange(1, old(value).b@.len() - 1),
        !(old(value).b@.len() >= 1 && old(value).b@[0] == 0x22 && old(value).b@[old(value).b@.len() - 1] == 0x22)
            ==> final(value).b@ == old(value).b@,
{
    broadcast use axiom_boundaries;
//%expr crates/proto/src/rr/rdata/svcb.rs :: impl SVCB :: from_tokens :: "if let Some(value) = value.as_mut() {" .. "} }"
//%sub1 "if let Some(value) = value.as_mut() {" => "{" # R-sel: the wrapper's parameter `value: &mut &str` IS the binding this `if let` introduces (Option::as_mut on Option<&str>)
//%mutant lone_quote_sliced "value.len() >= 2 &&" => ""
//%sub1 "&value[1..value.len() - 1]" => "vp_str_slice(*value, 1, value.len() - 1)" # R-shim: str slicing -> shim whose precondition is core::str::index's panic condition
//%end
}

// ---- SVCB "alpn" value (svcb.rs::parse_alpn, whole function). parse_list is the generic comma-list splitter of the same
//      file: it returns Err for a list item the character-data lexer rejects (`?` on parse_char_data) -- nothing more is
//      assumed about it, so an `expect` on its result is an obligation "never Err" that the code has to justify ----
pub struct VpString { pub v: Vec<char> }
#[derive(Debug)]
pub enum ParseError { Message(&'static str), Other }
#[verifier::external_body]
pub fn parse_list_string(value: &VpStr) -> (r: Result<Vec<VpString>, ParseError>) { unimplemented!() }
pub struct Alpn(pub Vec<VpString>);
pub enum SvcParamValue { Alpn(Alpn), Other }
//%fn crates/proto/src/rr/rdata/svcb.rs :: fn parse_alpn
//%sub1 "Option<&str>" => "Option<&VpStr>" # R-shim: &str stand-in
//%sub1 "parse_list::<String>(value)" => "parse_list_string(value)" # R-mono: generic parse_list at T = String
//%contract
    ensures true    // C20: returns (Ok or Err) for every value text; no reachable panic
//%end

} // verus!
fn main() {}
