//%unit tsig_kernels
//%features std __dnssec dnssec-ring
//%dropawait
use vstd::prelude::*;
use core::ops::Range;
verus! {
// the two fields of the TSIG RDATA that the time-window arithmetic reads
pub struct VpTsigTimes { pub time: u64, pub fudge: u16 }

// expression-level extraction (weakest form, DESIGN 3.2): how TSIG::read_data assembles the 48-bit time
fn tsig_time_from_wire(time_high: u64, time_low: u64) -> (time: u64)
    requires time_high <= 0xFFFF, time_low <= 0xFFFF_FFFF
    ensures time < 0x1_0000_0000_0000, time == time_high * 0x1_0000_0000 + time_low
{
    let time =
//%expr crates/proto/src/rr/rdata/tsig.rs :: impl<'r> RecordDataDecodable<'r> for TSIG :: read_data :: "(time_high << 32)" .. "| time_low"
//%end
    ;
    assert(time < 0x1_0000_0000_0000 && time == time_high * 0x1_0000_0000 + time_low) by (bit_vector)
        requires time == (time_high << 32) | time_low, time_high <= 0xFFFF, time_low <= 0xFFFF_FFFF;
    time
}

// expression-level extraction: the acceptance window returned by TSigner::verify_message_byte.
// From the property (C13): a request is timely iff |now - time| <= fudge, so the window handed to
// authorized_tsig must be [time - fudge, time + fudge] with the lower edge floored at 0 -- and
// computing it must not panic for any (time, fudge) a validly signed message can carry.
fn tsig_window(tsig: &VpTsigTimes) -> (r: Range<u64>)
    requires tsig.time < 0x1_0000_0000_0000
    ensures r.start == (if tsig.time >= tsig.fudge { tsig.time - tsig.fudge } else { 0 }),
        r.end == tsig.time + tsig.fudge,
{
//%expr crates/proto/src/rr/tsig.rs :: impl TSigner :: verify_message_byte :: "Range {" .. "as u64, }"
//%mutant end_minus "tsig.time + tsig.fudge as u64" => "tsig.time - tsig.fudge as u64"
//%end
}

// ---- the time check of SqliteZoneHandler::authorized_tsig (statement-range extraction from an async fn) ----
#[derive(Clone, Copy)] pub enum ResponseCode { NoError, NotAuth, Other(u16) }
#[derive(Clone, Copy)]
//%enum crates/proto/src/rr/rdata/tsig.rs :: TsigError
//%end
#[verifier::external_body]
pub fn vp_range_contains(r: &Range<u64>, item: &u64) -> (b: bool) ensures b == (r.start <= *item && *item < r.end) { r.contains(item) }
// (the time check of authorized_tsig was first extracted as a statement range; it is now covered by the whole function below)

// ---- the Error field of the TSIG RDATA is decoded losslessly (so an edited Error field changes the
//      re-emitted MAC input and the MAC check fails) ----
pub open spec fn tsig_err_val(e: TsigError) -> u16 {
    match e { TsigError::BadSig => 16, TsigError::BadKey => 17, TsigError::BadTime => 18, TsigError::BadTrunc => 22, TsigError::Unknown(c) => c }
}
pub open spec fn tsig_err_of(v: u16) -> TsigError {
    if v == 16 { TsigError::BadSig } else if v == 17 { TsigError::BadKey } else if v == 18 { TsigError::BadTime } else if v == 22 { TsigError::BadTrunc } else { TsigError::Unknown(v) }
}
impl vstd::std_specs::convert::FromSpecImpl<u16> for TsigError {
    open spec fn obeys_from_spec() -> bool { true }
    open spec fn from_spec(v: u16) -> Self { tsig_err_of(v) }
}
impl From<u16> for TsigError {
//%fn crates/proto/src/rr/rdata/tsig.rs :: impl From<u16> for TsigError :: from
//%end
}
impl vstd::std_specs::convert::FromSpecImpl<TsigError> for u16 {
    open spec fn obeys_from_spec() -> bool { true }
    open spec fn from_spec(e: TsigError) -> Self { tsig_err_val(e) }
}
impl From<TsigError> for u16 {
//%fn crates/proto/src/rr/rdata/tsig.rs :: impl From<TsigError> for u16 :: from
//%end
}
// wire value -> Option<TsigError> as TSIG::read_data does it, and back as TSIG::emit does it
pub open spec fn tsig_err_field_val(e: Option<TsigError>) -> u16 { match e { None => 0, Some(x) => tsig_err_val(x) } }
fn tsig_error_field_from_wire(vp_wire: u16) -> (error: Option<TsigError>)
    ensures tsig_err_field_val(error) == vp_wire      // nothing is lost: the wire value is recoverable
{
    let error =
//%expr crates/proto/src/rr/rdata/tsig.rs :: impl<'r> RecordDataDecodable<'r> for TSIG :: read_data :: "match decoder.read_u16()?.unverified(/*valid as any u16*/) {"@1 .. "code => Some(TsigError::from(code)), }"
//%sub1 "decoder.read_u16()?.unverified(/*valid as any u16*/)" => "vp_wire" # R-sel: the value just read from the wire is the wrapper's parameter
//%mutant low_codes_dropped "0 => None," => "0..=15 => None,"
//%end
    ;
    error
}
// ---- SqliteZoneHandler::authorized_tsig as a whole (an `async fn` without awaits): which key, which verdict, and
//      WHETHER THE REPLY IS SIGNED.  C13: "takes effect only if the request ends with a TSIG record naming a configured
//      key whose full-length MAC verifies over the exact request bytes and whose time is within fudge of the server
//      clock".  RFC 8945 5.3.2: a BADKEY / BADSIG reply is NOT signed; only a request whose MAC verified (BADTIME
//      included) gets a reply signed with the key -- otherwise the server is a signing oracle. ----
pub struct Name { pub id: u64 }
impl vstd::std_specs::cmp::PartialEqSpecImpl for Name { open spec fn obeys_eq_spec() -> bool { true } open spec fn eq_spec(&self, o: &Name) -> bool { self.id == o.id } }
impl PartialEq for Name { fn eq(&self, o: &Name) -> (r: bool) { self.id == o.id } }
impl Name { #[verifier::external_body] pub fn clone(&self) -> (r: Name) ensures r == *self { unimplemented!() } }
pub struct DnsSecError { pub vp: u64 }
pub struct TSigner { pub name: Name, pub vp: u64 }
// what TSigner::verify_message_byte computes on these bytes: does the MAC verify (key name / algorithm / full-length MAC
// over the request), and the validity window of the request's TSIG
pub uninterp spec fn mac_ok(k: TSigner, bytes: Seq<u8>) -> bool;
pub uninterp spec fn window_of(k: TSigner, bytes: Seq<u8>) -> Range<u64>;
impl TSigner {
    pub fn signer_name(&self) -> (r: &Name) ensures *r == self.name { &self.name }
    #[verifier::external_body]
    pub fn verify_message_byte(&self, message: &[u8], previous_hash: Option<&[u8]>, first_message: bool) -> (r: Result<(Vec<u8>, u64, Range<u64>), DnsSecError>)
        ensures match r { Ok((_, _, range)) => mac_ok(*self, message@) && range == window_of(*self, message@), Err(_) => !mac_ok(*self, message@) }
    { unimplemented!() }
    #[verifier::external_body] pub fn clone(&self) -> (r: TSigner) ensures r == *self { unimplemented!() }
}
pub struct TsigAlgorithm { pub vp: u64 }
//%struct crates/proto/src/rr/rdata/tsig.rs :: TSIG
//%end
pub struct Record<R> { pub name: Name, pub data: R }
pub struct Request { pub id: u16, pub raw: Vec<u8> }
impl Request {
    pub fn id(&self) -> (r: u16) ensures r == self.id { self.id }
    pub fn as_slice(&self) -> (r: &[u8]) ensures r@ == self.raw@ { self.raw.as_slice() }
}
// server/src/zone_handler: how the reply's TSIG will be produced
pub enum TSigResponseContext {
    UnknownKey { id: u16, name: Name },                                  // TSigResponseContext::unknown_key: unsigned BADKEY
    BadSignature { id: u16, signer: TSigner },                           // TSigResponseContext::bad_signature: unsigned BADSIG
    Signed { id: u16, signer: TSigner, error: Option<TsigError> },       // TSigResponseContext::new: reply SIGNED with `signer`
}
impl TSigResponseContext {
    pub fn unknown_key(id: u16, now: u64, name: Name) -> (r: Self) ensures r == (TSigResponseContext::UnknownKey { id, name }) { TSigResponseContext::UnknownKey { id, name } }
    pub fn bad_signature(id: u16, now: u64, signer: TSigner) -> (r: Self) ensures r == (TSigResponseContext::BadSignature { id, signer }) { TSigResponseContext::BadSignature { id, signer } }
    pub fn new(id: u16, now: u64, signer: TSigner, mac: Vec<u8>, error: Option<TsigError>) -> (r: Self) ensures r == (TSigResponseContext::Signed { id, signer, error }) { TSigResponseContext::Signed { id, signer, error } }
}
#[verifier::external_body]
pub fn vp_vec_clone(v: &Vec<u8>) -> (r: Vec<u8>) ensures r@ == v@ { v.clone() }
// `self.tsig_signers.iter().find(f)`: first element with f true, specified through the closure's own contract
#[verifier::external_body]
pub fn vp_find<'s, T, F: Fn(&&'s T) -> bool>(s: &'s [T], f: F) -> (r: Option<&'s T>)
    requires forall|i: int| 0 <= i < s@.len() ==> call_requires(f, (&&#[trigger] s@[i],))
    ensures match r {
        Some(x) => exists|i: int| 0 <= i < s@.len() && *x == #[trigger] s@[i] && call_ensures(f, (&&s@[i],), true),
        None => forall|i: int| 0 <= i < s@.len() ==> call_ensures(f, (&&#[trigger] s@[i],), false) }
{ s.iter().find(f) }
pub struct SqliteZoneHandler { pub tsig_signers: Vec<TSigner> }
impl SqliteZoneHandler {
//%fn crates/server/src/store/sqlite/mod.rs :: impl<P: RuntimeProvider + Send + Sync> SqliteZoneHandler<P> :: authorized_tsig
//%sub1 "async fn" => "fn" # R-await: an `async fn` whose body contains no `.await`
//%sub1 "self .tsig_signers .iter() .find(" => "vp_find(self.tsig_signers.as_slice(), " # R-shim: slice iterator `find`, specified through the closure's contract
//%sub? "range.contains(&now)" => "vp_range_contains(&range, &now)" # R-shim: core::ops::Range::contains
//%sub1 "tsig.data.mac.clone()" => "vp_vec_clone(&tsig.data.mac)" # R-shim: Vec::clone
//%closure "|tsigner|"
|tsigner: &&TSigner| -> (b: bool) ensures b == (tsigner.name.id == tsig.name.id)
//%mutant time_check_dropped "response = Err(ResponseCode::NotAuth);" => ""
//%mutant time_window_ignored "if !range.contains(&now)" => "if false"
//%mutant bad_signature_reply_signed "TSigResponseContext::bad_signature(req_id, now, tsigner.clone())" => "TSigResponseContext::new(req_id, now, tsigner.clone(), vp_vec_clone(&tsig.data.mac), None)"
//%contract
        ensures
            // the request is authorised only by a configured key of that name whose MAC verifies over the exact request
            // bytes and whose window contains the server clock
            r.0 is Ok ==> exists|i: int| 0 <= i < self.tsig_signers@.len() && (#[trigger] self.tsig_signers@[i]).name.id == tsig.name.id
                && mac_ok(self.tsig_signers@[i], request.raw@)
                && window_of(self.tsig_signers@[i], request.raw@).start <= now < window_of(self.tsig_signers@[i], request.raw@).end,
            // the reply is signed with a key only if the request's MAC verified under that key (no signing oracle)
            r.1 matches TSigResponseContext::Signed { signer, error, .. } ==> mac_ok(signer, request.raw@) && (r.0 is Ok <==> error is None)
                && (r.0 is Err ==> error == Some(TsigError::BadTime)),
            // every reply carries the request id
            match r.1 { TSigResponseContext::UnknownKey { id, .. } => id == request.id, TSigResponseContext::BadSignature { id, .. } => id == request.id, TSigResponseContext::Signed { id, .. } => id == request.id },
//%end
}

// ---- the order of SqliteZoneHandler's `ZoneHandler::update` (an async fn; `.await` dropped, R-await): NOTHING of the
//      request is evaluated against the zone -- not the prerequisites, not the prescan, not the update section -- unless
//      the request was authorised first.  (C13: "every unsigned, wrongly keyed, bit-flipped, MAC-truncated or stale
//      request leaves the zone unchanged and returns no zone data": a prerequisite verdict is zone data.) ----
pub struct VpUpdRequest { pub id: u64 }
pub struct VpSection { pub req: u64, pub which: u8 }
impl VpUpdRequest {
    pub fn prerequisites(&self) -> (r: VpSection) ensures r.req == self.id, r.which == 1 { VpSection { req: self.id, which: 1 } }
    pub fn updates(&self) -> (r: VpSection) ensures r.req == self.id, r.which == 2 { VpSection { req: self.id, which: 2 } }
}
pub struct VpCtx { pub vp: u64 }
pub uninterp spec fn auth_ok(h: u64, req: u64, now: u64) -> bool;
pub uninterp spec fn prereq_ok(h: u64, req: u64) -> bool;
pub uninterp spec fn prescan_passes(h: u64, req: u64) -> bool;
pub uninterp spec fn apply_result(h: u64, req: u64) -> Result<bool, ResponseCode>;
pub struct VpSqliteHandler { pub vp: u64 }
impl VpSqliteHandler {
    #[verifier::external_body]
    pub fn authorize_update(&self, request: &VpUpdRequest, now: u64) -> (r: (Result<(), ResponseCode>, Option<VpCtx>))
        ensures r.0 is Ok == auth_ok(self.vp, request.id, now)
    { unimplemented!() }
    // the three steps that look at (or change) the zone may only run for an authorised request
    #[verifier::external_body]
    pub fn verify_prerequisites(&self, p: VpSection) -> (r: Result<(), ResponseCode>)
        requires exists|now: u64| #[trigger] auth_ok(self.vp, p.req, now)
        ensures r is Ok == prereq_ok(self.vp, p.req)
    { unimplemented!() }
    #[verifier::external_body]
    pub fn pre_scan(&self, p: VpSection) -> (r: Result<(), ResponseCode>)
        requires exists|now: u64| #[trigger] auth_ok(self.vp, p.req, now)
        ensures r is Ok == prescan_passes(self.vp, p.req)
    { unimplemented!() }
    #[verifier::external_body]
    pub fn update_records(&self, p: VpSection, auto: bool) -> (r: Result<bool, ResponseCode>)
        requires (exists|now: u64| #[trigger] auth_ok(self.vp, p.req, now)), prereq_ok(self.vp, p.req), prescan_passes(self.vp, p.req)
        ensures r == apply_result(self.vp, p.req)
    { unimplemented!() }
//%fn crates/server/src/store/sqlite/mod.rs :: impl<P: RuntimeProvider + Send + Sync> ZoneHandler for SqliteZoneHandler<P> :: update
//%sub1 "async fn" => "fn" # R-await
//%sub1 "_request: &Request" => "_request: &VpUpdRequest" # stand-in request (only its identity and its two sections matter here)
//%sub1 "Option<TSigResponseContext>" => "Option<VpCtx>" # stand-in
//%mutant prerequisites_before_authorisation "(Err(e), signer) => return (Err(e), signer)," => "(Err(e), signer) => { let _x = self.verify_prerequisites(_request.prerequisites()); return (Err(e), signer) }"
//%mutant prescan_result_ignored "if let Err(code) = self.pre_scan(_request.updates()).await { return (Err(code), signer); }" => "let _y = self.pre_scan(_request.updates());"
//%contract
        ensures
            // the update section is applied only for an authorised request whose prerequisites and prescan succeeded
            r.0 is Ok ==> auth_ok(self.vp, _request.id, _now) && prereq_ok(self.vp, _request.id) && prescan_passes(self.vp, _request.id)
                && r.0 == apply_result(self.vp, _request.id),
            !auth_ok(self.vp, _request.id, _now) ==> r.0 is Err,
//%end
}

// ---- the CLIENT side: TSigVerifier::verify (rr/tsig.rs, whole function). C13: "the reply is then signed so that the client-side
//      verifier accepts it and rejects any modified reply": a reply is handed to the caller only if TSigner::verify_message_byte
//      accepted THESE bytes chained to the MAC of the previous message (the request's MAC for the first reply), its time does not
//      go back, and the time the request was sent lies in its fudge window; a rejected reply leaves the chain state untouched ----
pub struct VpClientSigner { pub vp: u64 }
pub uninterp spec fn reply_mac_ok(k: VpClientSigner, bytes: Seq<u8>, prev: Seq<u8>, first: bool) -> bool;
impl VpClientSigner {
    #[verifier::external_body]
    pub fn verify_message_byte(&self, message: &[u8], previous_hash: Option<&[u8]>, first_message: bool) -> (r: Result<(Vec<u8>, u64, Range<u64>), DnsSecError>)
        ensures r is Ok ==> (previous_hash matches Some(p) && reply_mac_ok(*self, message@, p@, first_message))
    { unimplemented!() }
}
impl DnsSecError { #[verifier::external_body] pub fn to_string(&self) -> (r: VpText) { unimplemented!() } }
pub struct VpText { pub vp: u64 }
pub struct ProtoError { pub vp: u64 }
impl ProtoError {
    #[verifier::external_body] pub fn from<T>(t: T) -> (r: ProtoError) { unimplemented!() }
}
pub type ProtoResult<T> = Result<T, ProtoError>;
pub struct DnsResponse { pub bytes: Vec<u8> }
impl DnsResponse {
    // DnsResponse::from_buffer: parses the message; Ok keeps the buffer it was given
    #[verifier::external_body] pub fn from_buffer(buffer: Vec<u8>) -> (r: ProtoResult<DnsResponse>) ensures r matches Ok(d) ==> d.bytes@ == buffer@ { unimplemented!() }
}
#[verifier::external_body] pub fn vp_to_vec(s: &[u8]) -> (r: Vec<u8>) ensures r@ == s@ { s.to_vec() }
pub struct TSigVerifier { pub signer: VpClientSigner, pub previous_signature: Vec<u8>, pub remote_time: u64, pub request_time: u64 }
impl TSigVerifier {
//%fn crates/proto/src/rr/tsig.rs :: impl TSigVerifier :: verify
//%sub1 "range.contains(&self.request_time)" => "vp_range_contains(&range, &self.request_time)" # R-shim: core::ops::Range::contains
//%sub1 "response_bytes.to_vec()" => "vp_to_vec(response_bytes)" # R-shim: slice::to_vec
//%closure "|err|"
|err: DnsSecError| -> (e: ProtoError)
//%mutant unverified_error_reply_accepted "if rt >= self.remote_time" => "if response_bytes.len() == 17 || rt >= self.remote_time"
//%mutant time_may_go_back "rt >= self.remote_time &&" => ""
//%contract
        ensures
            r matches Ok(resp) ==> (resp.bytes@ == response_bytes@
                && reply_mac_ok(old(self).signer, response_bytes@, old(self).previous_signature@, old(self).remote_time == 0)
                && final(self).remote_time >= old(self).remote_time),
            // the chain state moves only for a reply whose MAC verified
            (final(self).previous_signature@ != old(self).previous_signature@ || final(self).remote_time != old(self).remote_time)
                ==> (reply_mac_ok(old(self).signer, response_bytes@, old(self).previous_signature@, old(self).remote_time == 0) && final(self).remote_time >= old(self).remote_time),
            final(self).signer == old(self).signer, final(self).request_time == old(self).request_time,
//%end
}

} // verus!
fn main() {}
