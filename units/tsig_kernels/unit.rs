//%unit tsig_kernels
//%features std __dnssec dnssec-ring
use vstd::prelude::*;
use core::ops::Range;
verus! {
// the two fields of the TSIG RDATA that the time-window arithmetic reads
pub struct VpTsigTimes { pub time: u64, pub fudge: u16 }

// expression-level extraction (weakest form, DESIGN 3.2): how TSIG::read_data assembles the 48-bit time
fn tsig_time_from_wire(time_high: u64, time_low: u64) -> (time: u64)
    requires time_high <= 0xFFFF, time_low <= 0xFFFF_FFFF
    ensures time < 0x1_0000_0000_0000, time == time_high * 0x1_0000_0000 + time_low
{
    let time =
//%expr crates/proto/src/rr/rdata/tsig.rs :: impl<'r> RecordDataDecodable<'r> for TSIG :: read_data :: "(time_high << 32)" .. "| time_low"
//%end
    ;
    assert(time < 0x1_0000_0000_0000 && time == time_high * 0x1_0000_0000 + time_low) by (bit_vector)
        requires time == (time_high << 32) | time_low, time_high <= 0xFFFF, time_low <= 0xFFFF_FFFF;
    time
}

// expression-level extraction: the acceptance window returned by TSigner::verify_message_byte.
// From the property (C13): a request is timely iff |now - time| <= fudge, so the window handed to
// authorized_tsig must be [time - fudge, time + fudge] with the lower edge floored at 0 -- and
// computing it must not panic for any (time, fudge) a validly signed message can carry.
fn tsig_window(tsig: &VpTsigTimes) -> (r: Range<u64>)
    requires tsig.time < 0x1_0000_0000_0000
    ensures r.start == (if tsig.time >= tsig.fudge { tsig.time - tsig.fudge } else { 0 }),
        r.end == tsig.time + tsig.fudge,
{
//%expr crates/proto/src/rr/tsig.rs :: impl TSigner :: verify_message_byte :: "Range {" .. "as u64, }"
//%mutant end_minus "tsig.time + tsig.fudge as u64" => "tsig.time - tsig.fudge as u64"
//%end
}
} // verus!
fn main() {}
