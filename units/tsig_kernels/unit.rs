//%unit tsig_kernels
//%features std __dnssec dnssec-ring
use vstd::prelude::*;
use core::ops::Range;
verus! {
// the two fields of the TSIG RDATA that the time-window arithmetic reads
pub struct VpTsigTimes { pub time: u64, pub fudge: u16 }

// expression-level extraction (weakest form, DESIGN 3.2): how TSIG::read_data assembles the 48-bit time
fn tsig_time_from_wire(time_high: u64, time_low: u64) -> (time: u64)
    requires time_high <= 0xFFFF, time_low <= 0xFFFF_FFFF
    ensures time < 0x1_0000_0000_0000, time == time_high * 0x1_0000_0000 + time_low
{
    let time =
//%expr crates/proto/src/rr/rdata/tsig.rs :: impl<'r> RecordDataDecodable<'r> for TSIG :: read_data :: "(time_high << 32)" .. "| time_low"
//%end
    ;
    assert(time < 0x1_0000_0000_0000 && time == time_high * 0x1_0000_0000 + time_low) by (bit_vector)
        requires time == (time_high << 32) | time_low, time_high <= 0xFFFF, time_low <= 0xFFFF_FFFF;
    time
}

// expression-level extraction: the acceptance window returned by TSigner::verify_message_byte.
// From the property (C13): a request is timely iff |now - time| <= fudge, so the window handed to
// authorized_tsig must be [time - fudge, time + fudge] with the lower edge floored at 0 -- and
// computing it must not panic for any (time, fudge) a validly signed message can carry.
fn tsig_window(tsig: &VpTsigTimes) -> (r: Range<u64>)
    requires tsig.time < 0x1_0000_0000_0000
    ensures r.start == (if tsig.time >= tsig.fudge { tsig.time - tsig.fudge } else { 0 }),
        r.end == tsig.time + tsig.fudge,
{
//%expr crates/proto/src/rr/tsig.rs :: impl TSigner :: verify_message_byte :: "Range {" .. "as u64, }"
//%mutant end_minus "tsig.time + tsig.fudge as u64" => "tsig.time - tsig.fudge as u64"
//%end
}

// ---- the time check of SqliteZoneHandler::authorized_tsig (statement-range extraction from an async fn) ----
#[derive(Clone, Copy)] pub enum ResponseCode { NoError, NotAuth, Other(u16) }
#[derive(Clone, Copy)]
//%enum crates/proto/src/rr/rdata/tsig.rs :: TsigError
//%end
#[verifier::external_body]
pub fn vp_range_contains(r: &Range<u64>, item: &u64) -> (b: bool) ensures b == (r.start <= *item && *item < r.end) { r.contains(item) }
fn authorized_tsig_time_check(range: Range<u64>, now: u64) -> (r: (Result<(), ResponseCode>, Option<TsigError>))
    ensures
        // C13: "takes effect only if ... whose time is within fudge of the server clock"
        r.0 is Ok ==> range.start <= now && now <= range.end,
        r.0 is Err ==> r.1 == Some(TsigError::BadTime),
        r.0 is Ok ==> r.1 is None,
{
//%expr crates/server/src/store/sqlite/mod.rs :: impl<P: RuntimeProvider + Send + Sync> SqliteZoneHandler<P> :: authorized_tsig :: "let mut error = None;" ..< "( response, TSigResponseContext::new"
//%sub? "range.contains(&now)" => "vp_range_contains(&range, &now)" # R-shim: core::ops::Range::contains
//%mutant time_check_dropped "response = Err(ResponseCode::NotAuth);" => ""
//%end
    (response, error)
}

// ---- the Error field of the TSIG RDATA is decoded losslessly (so an edited Error field changes the
//      re-emitted MAC input and the MAC check fails) ----
pub open spec fn tsig_err_val(e: TsigError) -> u16 {
    match e { TsigError::BadSig => 16, TsigError::BadKey => 17, TsigError::BadTime => 18, TsigError::BadTrunc => 22, TsigError::Unknown(c) => c }
}
pub open spec fn tsig_err_of(v: u16) -> TsigError {
    if v == 16 { TsigError::BadSig } else if v == 17 { TsigError::BadKey } else if v == 18 { TsigError::BadTime } else if v == 22 { TsigError::BadTrunc } else { TsigError::Unknown(v) }
}
impl vstd::std_specs::convert::FromSpecImpl<u16> for TsigError {
    open spec fn obeys_from_spec() -> bool { true }
    open spec fn from_spec(v: u16) -> Self { tsig_err_of(v) }
}
impl From<u16> for TsigError {
//%fn crates/proto/src/rr/rdata/tsig.rs :: impl From<u16> for TsigError :: from
//%end
}
impl vstd::std_specs::convert::FromSpecImpl<TsigError> for u16 {
    open spec fn obeys_from_spec() -> bool { true }
    open spec fn from_spec(e: TsigError) -> Self { tsig_err_val(e) }
}
impl From<TsigError> for u16 {
//%fn crates/proto/src/rr/rdata/tsig.rs :: impl From<TsigError> for u16 :: from
//%end
}
// wire value -> Option<TsigError> as TSIG::read_data does it, and back as TSIG::emit does it
pub open spec fn tsig_err_field_val(e: Option<TsigError>) -> u16 { match e { None => 0, Some(x) => tsig_err_val(x) } }
fn tsig_error_field_from_wire(vp_wire: u16) -> (error: Option<TsigError>)
    ensures tsig_err_field_val(error) == vp_wire      // nothing is lost: the wire value is recoverable
{
    let error =
//%expr crates/proto/src/rr/rdata/tsig.rs :: impl<'r> RecordDataDecodable<'r> for TSIG :: read_data :: "match decoder.read_u16()?.unverified(/*valid as any u16*/) {"@1 .. "code => Some(TsigError::from(code)), }"
//%sub1 "decoder.read_u16()?.unverified(/*valid as any u16*/)" => "vp_wire" # R-sel: the value just read from the wire is the wrapper's parameter
//%mutant low_codes_dropped "0 => None," => "0..=15 => None,"
//%end
    ;
    error
}
} // verus!
fn main() {}
