//%unit msg_read
//%features std __dnssec dnssec-ring
use vstd::prelude::*;
use vstd::std_specs::iter::IteratorSpec;
verus! {
//%include ../common/decoder.rs
//%include ../common/name.rs
//%include ../common/forloop.rs

// ---- the real name reader (as in unit name_read; repeated here because Record::read calls it) ----
//%enum crates/proto/src/rr/domain/name.rs :: LabelParseState
//%end
//%fn crates/proto/src/rr/domain/name.rs :: fn read_inner
//%attr #[verifier::loop_isolation(false)]
//%contract
    requires old(decoder).wf(), old(name).wf(), old(name).labels_bounded()
    ensures final(name).wf(), final(name).labels_bounded(),
        final(decoder).wf(), final(decoder).buf() == old(decoder).buf(), final(decoder).idx() >= old(decoder).idx(),
        r is Ok ==> final(name).is_fqdn && final(decoder).idx() > old(decoder).idx(),
//%before "loop"
    let ghost outer_buf = decoder.buf();
    let ghost outer_idx0 = decoder.idx();
    let ghost outer_fin = *final(decoder);
    let ghost mut chased = false;
//%after "loop"
        invariant
            decoder.wf(), name.wf(), name.labels_bounded(),
            decoder.buf() == outer_buf,
            name_start <= decoder.buf().len(),
            !chased ==> decoder.idx() >= outer_idx0 && *final(decoder) == outer_fin,
            chased ==> outer_fin.wf() && outer_fin.buf() == outer_buf && outer_fin.idx() > outer_idx0,
            state is Root ==> name.is_fqdn && decoder.idx() < decoder.buf().len(),
            state is Label ==> decoder.idx() < decoder.buf().len() && decoder.buf()[decoder.idx()] != 0,
        decreases name_start, decoder.buf().len() - decoder.idx(), (if state is LabelLengthOrPointer { 1int } else { 0int }),
//%closure "|l|"@1
|l: &&[u8]| -> (b: bool) ensures b ==> l@.len() <= 63
//%closure "|l|"@2
|l: &[u8]| -> (e: DecodeError)
//%closure "|_|"
|_vp0: DecodeError| -> (e: DecodeError)
//%before "ptr_max_idx = Some(name_start);"
                proof { chased = true; }
//%closure "|u|"
|u: u16| -> (o: u16) ensures o == u & 0x3FFF
//%closure "|ptr|"
|ptr: &u16| -> (b: bool) ensures b ==> (*ptr as usize) < name_start
//%closure "|e|"
|e: u16| -> (e2: DecodeError)
//%end
//%fn crates/proto/src/rr/domain/name.rs :: impl<'r> BinDecodable<'r> for Name :: read
//%rename name_read<'r>
//%sub1 "Self::default()" => "Name::vp_default()" # R-shim: derived Default -> verified model vp_default
//%sub1 "Result<Self, DecodeError>" => "Result<Name, DecodeError>" # R-sel: trait-impl method pulled out as a free fn
//%contract
    requires old(decoder).wf()
    ensures final(decoder).wf(), final(decoder).buf() == old(decoder).buf(), final(decoder).idx() >= old(decoder).idx(),
        match r { Ok(n) => n.wf() && n.labels_bounded() && n.is_fqdn && final(decoder).idx() > old(decoder).idx(), Err(_) => true }
//%end
impl Name {
//%fn crates/proto/src/rr/domain/name.rs :: impl Name :: is_root
//%contract
        ensures r == (self.nlabels() == 0 && self.is_fqdn)
//%end
}

// ---- stand-ins for the record-level types (plain data; equality written out) ----
#[derive(Clone, Copy)] pub enum RecordType { OPT, SIG, TSIG, Other(u16) }
#[derive(Clone, Copy)] pub enum DNSClass { IN, OPT(u16), Other(u16) }
#[derive(Clone, Copy)] pub enum OpCode { Query, Update, Other(u8) }
impl vstd::std_specs::cmp::PartialEqSpecImpl for RecordType { open spec fn obeys_eq_spec() -> bool { true } open spec fn eq_spec(&self, o: &RecordType) -> bool { *self == *o } }
impl PartialEq for RecordType {
    fn eq(&self, o: &RecordType) -> (r: bool) {
        match (*self, *o) { (RecordType::OPT, RecordType::OPT) => true, (RecordType::SIG, RecordType::SIG) => true, (RecordType::TSIG, RecordType::TSIG) => true,
            (RecordType::Other(a), RecordType::Other(b)) => a == b, _ => false }
    }
}
impl vstd::std_specs::cmp::PartialEqSpecImpl for OpCode { open spec fn obeys_eq_spec() -> bool { true } open spec fn eq_spec(&self, o: &OpCode) -> bool { *self == *o } }
impl PartialEq for OpCode {
    fn eq(&self, o: &OpCode) -> (r: bool) { match (*self, *o) { (OpCode::Query, OpCode::Query) => true, (OpCode::Update, OpCode::Update) => true, (OpCode::Other(a), OpCode::Other(b)) => a == b, _ => false } }
}
pub struct OPT { pub vp_id: u64 }
pub struct TSIG { pub vp_id: u64 }
pub enum DNSSECRData { SIG(u64), Other(u64) }
pub enum RData { Update0(RecordType), OPT(OPT), TSIG(TSIG), DNSSEC(DNSSECRData), Other(u16, u64) }
pub open spec fn rtype_of(d: RData) -> RecordType {
    match d { RData::Update0(t) => t, RData::OPT(_) => RecordType::OPT, RData::TSIG(_) => RecordType::TSIG,
        RData::DNSSEC(DNSSECRData::SIG(_)) => RecordType::SIG, RData::DNSSEC(DNSSECRData::Other(_)) => RecordType::Other(0), RData::Other(t, _) => RecordType::Other(t) }
}
#[derive(Clone, Copy)] pub struct Proof { pub v: u8 }
impl Proof { pub fn default() -> Proof { Proof { v: 0 } } }
pub struct Record<R = RData> { pub name: Name, pub dns_class: DNSClass, pub ttl: u32, pub data: R, pub proof: Proof }
impl Record<RData> {
    // assumed: Record::record_type() is the type of its RDATA (record.rs: `self.data.record_type()`)
    #[verifier::external_body]
    pub fn record_type(&self) -> (r: RecordType) ensures r == rtype_of(self.data) { unimplemented!() }
}
impl RData {
//%fn crates/proto/src/rr/record_data.rs :: impl RecordData for RData :: is_update
//%contract
        ensures r == (*self is Update0)
//%end
    // contract proved for the real RData::read (dispatcher + every per-type decoder) in unit rdata_plain; the
    // same clauses are assumed here over this unit's collapsed RecordType / RData stand-ins
    #[verifier::external_body]
    pub fn read(decoder: BinDecoder<'_>, record_type: RecordType) -> (r: Result<RData, DecodeError>)
        requires decoder.wf()
        ensures r matches Ok(d) ==> ((d is OPT) == (record_type is OPT)) && ((d is TSIG) == (record_type is TSIG))
            && ((d matches RData::DNSSEC(DNSSECRData::SIG(_))) == (record_type is SIG)) && !(d is Update0),
    { unimplemented!() }
}
impl RecordType {
    // record_type.rs `impl From<u16> for RecordType`: exhaustive match (ASSUMED total)
    #[verifier::external_body]
    pub fn from(v: u16) -> (r: RecordType) { unimplemented!() }
//%fn crates/proto/src/rr/record_type.rs :: impl BinDecodable<'_> for RecordType :: read
//%novis
//%sub1 "fn read" => "pub fn read" # R-vis: trait-impl method placed in an inherent impl
//%sub1 ".map( Restrict::unverified, )" => ".map(|v: Restrict<u16>| -> (o: u16) ensures o == v.0 { v.unverified() })" # R-shim: method path used as a function value is eta-expanded
//%sub1 ".map(Self::from)" => ".map(|v: u16| -> (o: RecordType) { RecordType::from(v) })" # R-shim: eta-expanded
//%contract
        requires old(decoder).wf()
        ensures final(decoder).wf(), final(decoder).buf() == old(decoder).buf(),
            match r { Ok(_) => final(decoder).idx() == old(decoder).idx() + 2, Err(_) => final(decoder).idx() == old(decoder).idx() }
//%end
}
impl DNSClass {
    // dns_class.rs `impl From<u16> for DNSClass`: exhaustive match (ASSUMED total)
    #[verifier::external_body]
    pub fn from(v: u16) -> (r: DNSClass) { unimplemented!() }
    #[verifier::external_body]
    pub fn for_opt(v: u16) -> (r: DNSClass) { unimplemented!() }
//%fn crates/proto/src/rr/dns_class.rs :: impl BinDecodable<'_> for DNSClass :: read
//%novis
//%sub1 "fn read" => "pub fn read" # R-vis
//%contract
        requires old(decoder).wf()
        ensures final(decoder).wf(), final(decoder).buf() == old(decoder).buf(),
            match r { Ok(_) => final(decoder).idx() == old(decoder).idx() + 2, Err(_) => final(decoder).idx() == old(decoder).idx() }
//%end
}

// ---- Record::read: framing by RDLENGTH ----
//%fn crates/proto/src/rr/record.rs :: impl<'r> BinDecodable<'r> for Record<RData> :: read
//%rename record_read<'r>
//%sub1 "Result<Self, DecodeError>" => "Result<Record<RData>, DecodeError>" # R-sel: trait-impl method pulled out as a free fn
//%sub1 "Ok(Self {" => "Ok(Record {" # R-sel
//%sub "Name::read(decoder)" => "name_read(decoder)" # R-sel: call of the pulled-out trait method
//%sub1 "DecodeError::EdnsNameNotRoot(Box::new(name_labels))" => "DecodeError::InvalidEmptyRecord" # R-sel: error payload variant dropped from the DecodeError stand-in (Box<Name>); only the error shape matters
//%contract
    requires old(decoder).wf()
    ensures final(decoder).wf(), final(decoder).buf() == old(decoder).buf(),
        match r {
            // C01: a record occupies NAME(>=1) + TYPE CLASS TTL RDLENGTH (10) + RDLENGTH octets, all inside the packet
            Ok(rec) => final(decoder).idx() >= old(decoder).idx() + 11 && final(decoder).idx() <= old(decoder).buf().len()
                    && rec.name.wf() && rec.name.labels_bounded(),
            Err(_) => final(decoder).idx() >= old(decoder).idx(),
        }
//%closure "|u|"@1
|u: &u16| -> (b: bool) ensures b == ((*u as int) <= decoder.buf().len() - decoder.idx())
//%closure "|u|"@2
|u: u16| -> (e: DecodeError)
//%mutant rdlength_unchecked "(*u as usize) <= decoder.len()" => "true"
//%end

// Edns::from(&Record) (edns.rs) starts with `assert!(value.record_type() == RecordType::OPT)`: that
// assertion is the precondition here, so every caller must establish it
pub struct Edns { pub rcode_high: u8, pub vp_id: u64 }
#[verifier::external_body]
pub fn vp_edns_from_record(value: &Record<RData>) -> (r: Edns)
    requires rtype_of(value.data) == RecordType::OPT
{ unimplemented!() }
impl Record<RData> {
    // record.rs::Record::map specialised to the one use in read_records (RData -> TSIG); assumed
    #[verifier::external_body]
    pub fn vp_into_tsig(self) -> (r: Option<Record<TSIG>>) ensures (self.data is TSIG) ==> r is Some { unimplemented!() }
}

pub struct Query { pub name: Name, pub query_type: RecordType, pub query_class: DNSClass }
//%fn crates/proto/src/op/query.rs :: impl<'r> BinDecodable<'r> for Query :: read
//%rename query_read<'r>
//%sub1 "Result<Self, DecodeError>" => "Result<Query, DecodeError>" # R-sel
//%sub1 "Ok(Self {" => "Ok(Query {" # R-sel
//%sub1 "Name::read(decoder)" => "name_read(decoder)" # R-sel
//%contract
    requires old(decoder).wf()
    ensures final(decoder).wf(), final(decoder).buf() == old(decoder).buf(), final(decoder).idx() >= old(decoder).idx(),
        r matches Ok(q) ==> final(decoder).idx() >= old(decoder).idx() + 5 && q.name.wf() && q.name.labels_bounded(),
//%end

pub struct ProtoError { pub vp: u64 }
impl vstd::std_specs::convert::FromSpecImpl<DecodeError> for ProtoError {
    open spec fn obeys_from_spec() -> bool { false }
    uninterp spec fn from_spec(e: DecodeError) -> Self;
}
impl From<DecodeError> for ProtoError { #[verifier::external_body] fn from(e: DecodeError) -> (r: Self) { unimplemented!() } }
pub type ProtoResult<T> = Result<T, ProtoError>;
// the parts of header.rs the message reader uses (Header::read itself is proved in unit header_bits)
pub struct Metadata { pub op_code: OpCode, pub vp_rest: u64 }
pub struct HeaderCounts { pub queries: u16, pub answers: u16, pub authorities: u16, pub additionals: u16 }
pub struct Header { pub metadata: Metadata, pub counts: HeaderCounts }
impl Header {
    // contract proved for the real Header::read in unit header_bits: 12 octets or an error
    #[verifier::external_body]
    pub fn read(decoder: &mut BinDecoder<'_>) -> (r: Result<Header, DecodeError>)
        requires old(decoder).wf()
        ensures final(decoder).wf(), final(decoder).buf() == old(decoder).buf(),
            match r { Ok(_) => final(decoder).idx() == old(decoder).idx() + 12, Err(_) => final(decoder).idx() >= old(decoder).idx() }
    { unimplemented!() }
}
impl Metadata {
    #[verifier::external_body]
    pub fn merge_response_code(&mut self, high: u8) ensures final(self).op_code == old(self).op_code { unimplemented!() }
}
impl Edns { pub fn rcode_high(&self) -> (r: u8) ensures r == self.rcode_high { self.rcode_high } }

pub struct Message { pub metadata: Metadata, pub queries: Vec<Query>, pub answers: Vec<Record>, pub authorities: Vec<Record>,
    pub additionals: Vec<Record>, pub signature: Option<Box<Record<TSIG>>>, pub edns: Option<Edns> }

//%fn crates/proto/src/op/message.rs :: impl<'r> BinDecodable<'r> for Message :: read
//%rename message_read<'r>
//%sub1 "Result<Self, DecodeError>" => "Result<Message, DecodeError>" # R-sel
//%sub1 "Ok(Self {" => "Ok(Message {" # R-sel
//%sub "Self::read_records" => "Message::read_records" # R-sel
//%sub1 "Query::read(decoder)" => "query_read(decoder)" # R-sel
//%attr #[verifier::loop_isolation(false)]
//%contract
    requires old(decoder).wf()
    // C01: decoding a whole message terminates with a value or an error and never reads outside the packet
    ensures final(decoder).wf(), final(decoder).buf() == old(decoder).buf(), final(decoder).idx() >= old(decoder).idx(),
        r matches Ok(m) ==> final(decoder).idx() >= old(decoder).idx() + 12 + 5 * m.queries@.len() + 11 * (m.answers@.len() + m.authorities@.len()),
//%forloop "for _ in 0..count"
            invariant
                decoder.wf(), decoder.buf() == old(decoder).buf(),
                vp_it0.obeys_prophetic_iter_laws(), vp_it0.decrease() is Some,
                0 <= vp_i <= count, vp_i + vp_it0.remaining().len() == count, queries@.len() == vp_i,
                decoder.idx() >= old(decoder).idx() + 12 + 5 * vp_i,
            decreases vp_it0.decrease().unwrap()
//%after "for _ in 0..count {"
            proof { vp_i = vp_i + 1; }
//%before "let mut queries = Vec::with_capacity(count);"
        let ghost mut vp_i = 0int;
        proof { axiom_items_range(0, count); }
//%sub1 "let mut queries = Vec::with_capacity(count);" => "let mut queries: Vec<Query> = Vec::with_capacity(count);" # R-ann: type ascription (inferred from the push below)
//%end

impl Message {
//%fn crates/proto/src/op/message.rs :: impl Message :: read_queries
//%sub1 "Query::read(decoder)" => "query_read(decoder)" # R-sel
//%sub1 "let mut queries = Vec::with_capacity(count);" => "let mut queries: Vec<Query> = Vec::with_capacity(count);" # R-ann: type ascription
//%attr #[verifier::loop_isolation(false)]
//%contract
        requires old(decoder).wf()
        ensures final(decoder).wf(), final(decoder).buf() == old(decoder).buf(), final(decoder).idx() >= old(decoder).idx(),
            r matches Ok(q) ==> q@.len() == count && final(decoder).idx() >= old(decoder).idx() + 5 * count,
//%forloop "for _ in 0..count"
            invariant
                decoder.wf(), decoder.buf() == old(decoder).buf(),
                vp_it0.obeys_prophetic_iter_laws(), vp_it0.decrease() is Some,
                0 <= vp_i <= count, vp_i + vp_it0.remaining().len() == count, queries@.len() == vp_i,
                decoder.idx() >= old(decoder).idx() + 5 * vp_i,
            decreases vp_it0.decrease().unwrap()
//%after "for _ in 0..count {"
            proof { vp_i = vp_i + 1; }
//%before "let mut queries = Vec::with_capacity(count);"
        let ghost mut vp_i = 0int;
        proof { axiom_items_range(0, count); }
//%end

//%fn crates/proto/src/op/message.rs :: impl Message :: read_records
//%sub1 "Record::read(decoder)" => "record_read(decoder)" # R-sel: call of the pulled-out trait method
//%sub1 "Option<Box<Record<TSIG>>>" => "Option<Box<Record<TSIG>>>" # (anchor check)
//%sub1 "record .map(|data| match data { RData::TSIG(tsig) => Some(tsig), _ => None, }) .unwrap(/* match arm ensures correct type */)" => "record.vp_into_tsig().unwrap()" # R-shim: Record::map with an FnOnce closure over a generic parameter
//%sub1 "DecodeError::RecordNotInAdditionalSection( record.record_type(), )" => "DecodeError::RecordNotInAdditionalSection(0)" # R-sel: error payload (RecordType) dropped, as in the DecodeError stand-in
//%sub1 "(&record).into()" => "vp_edns_from_record(&record)" # R-shim: Into::into -> the From impl it resolves to (Edns::from(&Record)), whose leading assert! is the precondition
//%contract
        requires old(decoder).wf(), count <= 65535
        ensures final(decoder).wf(), final(decoder).buf() == old(decoder).buf(), final(decoder).idx() >= old(decoder).idx(),
            match r {
                Ok((recs, edns, sig)) =>
                    // C01: `count` records of >= 11 octets each were consumed: the loop cannot run longer than the packet allows
                    final(decoder).idx() >= old(decoder).idx() + 11 * count
                    // C13 / RFC 8945 5.1: OPT / TSIG are only taken out of the additional section ...
                    && (!is_additional ==> edns is None && sig is None && recs@.len() == count),
                Err(_) => true,
            }
//%attr #[verifier::loop_isolation(false)]
//%forloop "for _ in 0..count"
            invariant
                decoder.wf(), decoder.buf() == old(decoder).buf(),
                vp_it0.obeys_prophetic_iter_laws(), vp_it0.decrease() is Some,
                0 <= vp_i <= count, vp_i + vp_it0.remaining().len() == count,
                // C01: every record consumed so far took >= 11 octets: the loop cannot outrun the packet
                decoder.idx() >= old(decoder).idx() + 11 * vp_i,
                !is_additional ==> edns is None && sig is None && records@.len() == vp_i,
                // C13: "the request ends with a TSIG record": once a TSIG has been seen no further record is accepted
                // (the next iteration returns RecordAfterSig), so a TSIG that is returned was the last record read
                sig is Some ==> vp_sig_at == vp_i - 1,
            decreases vp_it0.decrease().unwrap()
//%after "for _ in 0..count {"
            proof { vp_i = vp_i + 1; }
//%before "let mut records: Vec<Record> = Vec::with_capacity(count);"
        let ghost mut vp_sig_at = -1int;
        let ghost mut vp_i = 0int;
        proof { axiom_items_range(0, count); }
//%before "sig = Some(Box::new("
                    proof { vp_sig_at = vp_i - 1; }
//%before "Ok((records, edns, sig))"
        assert(vp_i == count);
        assert(sig is Some ==> vp_sig_at == count - 1);   // C13: the TSIG, if any, was the LAST record of the section
//%mutant records_after_sig_allowed "if sig.is_some() { return Err(DecodeError::RecordAfterSig); }" => ""
//%mutant any_empty_record_is_opt "RData::Update0(RecordType::OPT) | RData::OPT(_)" => "RData::Update0(_) | RData::OPT(_)"
//%end
}

// ---- the server-side request reader (message_request.rs): same section loops, one question ----
pub struct LowerQuery { pub original: Query }
impl LowerQuery {
    // lower_query.rs `impl From<Query> for LowerQuery`: folds the name's case and stores the query (ASSUMED total)
    #[verifier::external_body] pub fn from(query: Query) -> LowerQuery { unimplemented!() }
}
//%fn crates/proto/src/op/lower_query.rs :: impl<'r> BinDecodable<'r> for LowerQuery :: read
//%rename vp_lower_query_read<'r>
//%sub1 "Result<Self, DecodeError>" => "Result<LowerQuery, DecodeError>" # R-sel: trait-impl method pulled out as a free fn
//%sub1 "Ok(Self::from(original))" => "Ok(LowerQuery::from(original))" # R-sel
//%sub1 "Query::read(decoder)" => "query_read(decoder)" # R-sel
//%contract
    requires old(decoder).wf()
    ensures final(decoder).wf(), final(decoder).buf() == old(decoder).buf(), final(decoder).idx() >= old(decoder).idx(),
        r is Ok ==> final(decoder).idx() >= old(decoder).idx() + 5,
//%end
pub struct VpBoxedBytes { pub v: Vec<u8> }
pub struct Queries { pub inner: LowerQuery, pub original: VpBoxedBytes }
impl Queries {
//%fn crates/proto/src/op/message_request.rs :: impl Queries :: read
//%sub1 "LowerQuery::read(decoder)?" => "vp_lower_query_read(decoder)?" # R-sel: call of the pulled-out trait method
//%sub1 ".to_vec() .into_boxed_slice()" => ".vp_to_boxed()" # R-shim: <[u8]>::to_vec + Vec::into_boxed_slice (copy of the bytes)
//%contract
        requires old(decoder).wf()
        ensures final(decoder).wf(), final(decoder).buf() == old(decoder).buf(), final(decoder).idx() >= old(decoder).idx(),
            r is Ok ==> num_queries == 1 && final(decoder).idx() >= old(decoder).idx() + 5,
//%end
}
pub trait VpToBoxed { fn vp_to_boxed(&self) -> VpBoxedBytes; }
impl VpToBoxed for &[u8] { #[verifier::external_body] fn vp_to_boxed(&self) -> (r: VpBoxedBytes) { unimplemented!() } }
pub struct MessageRequest { pub metadata: Metadata, pub queries: Queries, pub answers: Vec<Record>, pub authorities: Vec<Record>,
    pub additionals: Vec<Record>, pub signature: Option<Box<Record<TSIG>>>, pub edns: Option<Edns> }
impl MessageRequest {
//%fn crates/proto/src/op/message_request.rs :: impl MessageRequest :: read_with_queries
//%contract
        requires old(decoder).wf()
        ensures final(decoder).wf(), final(decoder).buf() == old(decoder).buf(), final(decoder).idx() >= old(decoder).idx(),
//%end
//%fn crates/proto/src/op/message_request.rs :: impl MessageRequest :: read
//%contract
        requires old(decoder).wf()
        // C01: "... as a server-side request ..." terminates with a value or an error, inside the packet
        ensures final(decoder).wf(), final(decoder).buf() == old(decoder).buf(), final(decoder).idx() >= old(decoder).idx(),
//%end
}
} // verus!
fn main() {}
