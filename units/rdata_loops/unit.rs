//%unit rdata_loops
//%features std
use vstd::prelude::*;
verus! {
//%include ../common/decoder.rs

// ---- C01, RDATA decoders that contain loops: termination (every iteration consumes input) and no panic ----
pub struct VpBoxedBytes { pub v: Vec<u8> }
pub struct VpBoxedStrings { pub v: Vec<VpBoxedBytes> }
pub trait VpToBoxed { fn vp_to_boxed(&self) -> VpBoxedBytes; }
impl VpToBoxed for &[u8] { #[verifier::external_body] fn vp_to_boxed(&self) -> (r: VpBoxedBytes) { unimplemented!() } }
#[verifier::external_body]
pub fn vp_strings_into_boxed(v: Vec<VpBoxedBytes>) -> (r: VpBoxedStrings) { unimplemented!() }

// TXT (txt.rs): a sequence of <character-string>s until the RDATA is exhausted
pub struct TXT { pub txt_data: VpBoxedStrings }
//%fn crates/proto/src/rr/rdata/txt.rs :: impl RecordDataDecodable<'_> for TXT :: read_data
//%rename txt_read_data
//%sub1 "Result<Self, DecodeError>" => "Result<TXT, DecodeError>" # R-sel: trait-impl method pulled out as a free fn
//%sub1 "Ok(Self {" => "Ok(TXT {" # R-sel
//%sub1 "let mut strings = Vec::with_capacity(1);" => "let mut strings: Vec<VpBoxedBytes> = Vec::with_capacity(1);" # R-ann: type ascription
//%sub1 "string.to_vec().into_boxed_slice()" => "string.vp_to_boxed()" # R-shim: copy of the bytes into a Box<[u8]>
//%sub1 "strings.into_boxed_slice()" => "vp_strings_into_boxed(strings)" # R-shim: Vec::into_boxed_slice
//%attr #[verifier::loop_isolation(false)]
//%contract
    requires old(decoder).wf()
    ensures final(decoder).wf(), final(decoder).buf() == old(decoder).buf(), final(decoder).idx() >= old(decoder).idx(),
        r is Ok ==> final(decoder).idx() == old(decoder).buf().len(),
//%after "while !decoder.is_empty()"
            invariant decoder.wf(), decoder.buf() == old(decoder).buf(), decoder.idx() >= old(decoder).idx(),
            decreases decoder.buf().len() - decoder.idx()
//%end

// OPT (opt.rs): (code, length, data)* read by a three-state machine, one octet of data per iteration
#[derive(Clone, Copy, PartialEq, Eq)] pub struct EdnsCode(pub u16);
impl EdnsCode { pub fn from(v: u16) -> EdnsCode { EdnsCode(v) } }
pub struct EdnsOption { pub vp: u64 }
pub struct VpTryInto<'x>(pub EdnsCode, pub &'x [u8]);
// ASSUMED: EdnsOption::try_from((code, bytes)) (per-option decoders: Subnet, NSID, DAU) returns
pub trait VpOptTryInto { fn vp_try_into(self) -> Result<EdnsOption, DecodeError>; }
impl<'x> VpOptTryInto for (EdnsCode, &'x [u8]) {
    #[verifier::external_body] fn vp_try_into(self) -> (r: Result<EdnsOption, DecodeError>) { unimplemented!() }
}
pub struct OPT { pub options: Vec<(EdnsCode, EdnsOption)> }
impl OPT { pub fn new(options: Vec<(EdnsCode, EdnsOption)>) -> OPT { OPT { options } } }
#[derive(PartialEq, Eq)]
//%enum crates/proto/src/rr/rdata/opt.rs :: OptReadState
//%end
//%fn crates/proto/src/rr/rdata/opt.rs :: impl<'r> RecordDataDecodable<'r> for OPT :: read_data
//%rename opt_read_data<'r>
//%sub1 "Result<Self, DecodeError>" => "Result<OPT, DecodeError>" # R-sel: trait-impl method pulled out as a free fn
//%sub1 "Ok(Self::new(options))" => "Ok(OPT::new(options))" # R-sel
//%sub ".try_into()?" => ".vp_try_into()?" # R-shim: TryInto::try_into -> the TryFrom impl it resolves to (EdnsOption::try_from), assumed to return
//%sub1 "&[] as &[u8]" => "vp_empty_slice()" # R-shim: empty slice literal
//%sub1 "&collected as &[u8]" => "collected.as_slice()" # R-shim: &Vec<u8> as &[u8]
//%attr #[verifier::loop_isolation(false)]
//%contract
    requires old(decoder).wf()
    ensures final(decoder).wf(), final(decoder).buf() == old(decoder).buf(), final(decoder).idx() >= old(decoder).idx(),
//%after "while !decoder.is_empty()"
            invariant decoder.wf(), decoder.buf() == old(decoder).buf(), decoder.idx() >= old(decoder).idx(),
                state matches OptReadState::Data { code, length, collected } ==> collected@.len() < length <= rdata_length,
            decreases decoder.buf().len() - decoder.idx()
//%closure "|u|"@1
|u: u16| -> (o: usize) ensures o == u as usize
//%closure "|u|"@2
|u: &usize| -> (b: bool) ensures b == (*u <= rdata_length)
//%closure "|opt_len|"
|opt_len: usize| -> (e: DecodeError)
//%mutant data_state_without_progress "decoder.pop()?.unverified(/*byte array is safe*/)" => "0u8"
//%end
pub fn vp_empty_slice() -> (r: &'static [u8]) ensures r@.len() == 0 { &[] }

// SVCB / HTTPS (svcb.rs): priority, target name, then (key, length, value)* while >= 4 octets remain
#[derive(Clone, Copy)] pub struct SvcParamKeyRaw(pub u16);
#[derive(Clone, Copy)] pub enum SvcParamKey { Mandatory, Alpn, NoDefaultAlpn, Port, Ipv4Hint, EchConfigList, Ipv6Hint, Key(u16), Key65535, Unknown(u16) }
impl SvcParamKey {
    // svcb.rs `impl From<u16> for SvcParamKey`: exhaustive match (ASSUMED total)
    #[verifier::external_body] pub fn vp_from_u16(v: u16) -> SvcParamKey { unimplemented!() }
//%fn crates/proto/src/rr/rdata/svcb.rs :: impl<'r> BinDecodable<'r> for SvcParamKey :: read
//%novis
//%sub1 "fn read(" => "pub fn read<'r>(" # R-vis: trait-impl method placed in an inherent impl (the impl's lifetime parameter moves to the fn)
//%sub1 "Ok(decoder.read_u16()?.unverified().into())" => "Ok(SvcParamKey::vp_from_u16(decoder.read_u16()?.unverified()))" # R-shim: Into::into -> the From<u16> impl it resolves to
//%contract
        requires old(decoder).wf()
        ensures final(decoder).wf(), final(decoder).buf() == old(decoder).buf(),
            match r { Ok(_) => final(decoder).idx() == old(decoder).idx() + 2, Err(_) => final(decoder).idx() == old(decoder).idx() }
//%end
    // ordering of keys (derived PartialOrd in the source): only its totality matters here
    #[verifier::external_body] pub fn vp_ge(&self, o: &SvcParamKey) -> bool { unimplemented!() }
}
// ASSUMED: the per-parameter value decoders (Mandatory, Alpn, IpHint, EchConfigList, Unknown) return;
// each gets its OWN decoder over exactly the parameter's bytes, so it cannot disturb the framing
pub struct VpParam { pub vp: u64 }
pub struct Mandatory;
impl Mandatory {
    #[verifier::external_body]
    pub fn read(d: &mut BinDecoder<'_>) -> (r: Result<VpParam, DecodeError>)
        requires old(d).wf()
        ensures final(d).wf()
    { unimplemented!() }
}
pub struct Alpn;
impl Alpn {
    #[verifier::external_body]
    pub fn read(d: &mut BinDecoder<'_>) -> (r: Result<VpParam, DecodeError>)
        requires old(d).wf()
        ensures final(d).wf()
    { unimplemented!() }
}
pub struct EchConfigList;
impl EchConfigList {
    #[verifier::external_body]
    pub fn read(d: &mut BinDecoder<'_>) -> (r: Result<VpParam, DecodeError>)
        requires old(d).wf()
        ensures final(d).wf()
    { unimplemented!() }
}
pub struct Unknown;
impl Unknown {
    #[verifier::external_body]
    pub fn read(d: &mut BinDecoder<'_>) -> (r: Result<VpParam, DecodeError>)
        requires old(d).wf()
        ensures final(d).wf()
    { unimplemented!() }
}
pub struct IpHintA;
impl IpHintA {
    #[verifier::external_body]
    pub fn read(d: &mut BinDecoder<'_>) -> (r: Result<VpParam, DecodeError>)
        requires old(d).wf()
        ensures final(d).wf()
    { unimplemented!() }
}
pub struct IpHintAAAA;
impl IpHintAAAA {
    #[verifier::external_body]
    pub fn read(d: &mut BinDecoder<'_>) -> (r: Result<VpParam, DecodeError>)
        requires old(d).wf()
        ensures final(d).wf()
    { unimplemented!() }
}
pub enum SvcParamValue { Mandatory(VpParam), Alpn(VpParam), NoDefaultAlpn, Port(u16), Ipv4Hint(VpParam), EchConfigList(VpParam), Ipv6Hint(VpParam), Unknown(VpParam) }
impl SvcParamValue {
//%fn crates/proto/src/rr/rdata/svcb.rs :: impl SvcParamValue :: read
//%sub1 "IpHint::<A>::read" => "IpHintA::read" # R-mono: generic IpHint<T> named per instantiation
//%sub1 "IpHint::<AAAA>::read" => "IpHintAAAA::read" # R-mono
//%closure "|len|"@1
|len: &u16| -> (b: bool) ensures b == ((*len as int) <= decoder.buf().len() - decoder.idx())
//%closure "|len|"@2
|len: u16| -> (o: usize) ensures o == len as usize
//%closure "|u|"
|u: u16| -> (e: DecodeError)
//%contract
        requires old(decoder).wf()
        ensures final(decoder).wf(), final(decoder).buf() == old(decoder).buf(), final(decoder).idx() >= old(decoder).idx(),
            r is Ok ==> final(decoder).idx() >= old(decoder).idx() + 2,
//%end
}
pub struct Name { pub vp: u64 }
// contract proved for the real Name::read in unit name_read
#[verifier::external_body]
pub fn name_read<'r>(decoder: &mut BinDecoder<'r>) -> (r: Result<Name, DecodeError>)
    requires old(decoder).wf()
    ensures final(decoder).wf(), final(decoder).buf() == old(decoder).buf(), final(decoder).idx() >= old(decoder).idx()
{ unimplemented!() }
pub struct SVCB { pub svc_priority: u16, pub target_name: Name, pub svc_params: Vec<(SvcParamKey, SvcParamValue)> }
//%fn crates/proto/src/rr/rdata/svcb.rs :: impl RecordDataDecodable<'_> for SVCB :: read_data
//%rename svcb_read_data
//%sub1 "Result<Self, DecodeError>" => "Result<SVCB, DecodeError>" # R-sel
//%sub1 "Ok(Self {" => "Ok(SVCB {" # R-sel
//%sub1 "Name::read(decoder)" => "name_read(decoder)" # R-sel
//%sub1 "svc_params.last().map(|(key, _)| key)" => "vp_last_key(&svc_params)" # R-shim: Option::map with a tuple-pattern closure
//%sub1 "last_key >= &key" => "last_key.vp_ge(&key)" # R-shim: derived PartialOrd on the key enum (result irrelevant for totality)
//%attr #[verifier::loop_isolation(false)]
//%contract
    requires old(decoder).wf()
    ensures final(decoder).wf(), final(decoder).buf() == old(decoder).buf(), final(decoder).idx() >= old(decoder).idx(),
//%after "while decoder.len() >= 4"
            invariant decoder.wf(), decoder.buf() == old(decoder).buf(), decoder.idx() >= old(decoder).idx(),
            decreases decoder.buf().len() - decoder.idx()
//%end
#[verifier::external_body]
pub fn vp_last_key(v: &Vec<(SvcParamKey, SvcParamValue)>) -> (r: Option<&SvcParamKey>) { unimplemented!() }
// ---- the SVCB parameter value decoders themselves (svcb.rs).  Each loop reads whole items until the value's own
//      decoder is exhausted; termination needs every successful item read to consume at least one octet ----
pub struct MandatoryV(pub Vec<SvcParamKey>);
//%fn crates/proto/src/rr/rdata/svcb.rs :: impl<'r> BinDecodable<'r> for Mandatory :: read
//%rename mandatory_read<'r>
//%sub1 "Result<Self, DecodeError>" => "Result<MandatoryV, DecodeError>" # R-sel: trait-impl method pulled out as a free fn
//%sub1 "Ok(Self(keys))" => "Ok(MandatoryV(keys))" # R-sel
//%sub1 "let mut keys = Vec::with_capacity(1);" => "let mut keys: Vec<SvcParamKey> = Vec::with_capacity(1);" # R-ann: type ascription
//%attr #[verifier::loop_isolation(false)]
//%contract
    requires old(decoder).wf()
    ensures final(decoder).wf(), final(decoder).buf() == old(decoder).buf(), final(decoder).idx() >= old(decoder).idx()
//%after "while decoder.peek().is_some()"
        invariant decoder.wf(), decoder.buf() == old(decoder).buf(), decoder.idx() >= old(decoder).idx(),
        decreases decoder.buf().len() - decoder.idx()
//%end
pub struct VpStr { pub vp: u64 }
// String::from_utf8(bytes.to_vec()) followed by `?` (From<FromUtf8Error> for DecodeError): returns the string or an error
#[verifier::external_body] pub fn vp_string_from_utf8(b: &[u8]) -> (r: Result<VpStr, DecodeError>) { unimplemented!() }
pub struct AlpnV(pub Vec<VpStr>);
//%fn crates/proto/src/rr/rdata/svcb.rs :: impl<'r> BinDecodable<'r> for Alpn :: read
//%rename alpn_read<'r>
//%sub1 "Result<Self, DecodeError>" => "Result<AlpnV, DecodeError>" # R-sel
//%sub1 "Ok(Self(alpns))" => "Ok(AlpnV(alpns))" # R-sel
//%sub1 "let mut alpns = Vec::with_capacity(1);" => "let mut alpns: Vec<VpStr> = Vec::with_capacity(1);" # R-ann: type ascription
//%sub1 "String::from_utf8(alpn.to_vec())?" => "vp_string_from_utf8(alpn)?" # R-shim: String::from_utf8 + error conversion (opaque, total)
//%attr #[verifier::loop_isolation(false)]
//%contract
    requires old(decoder).wf()
    ensures final(decoder).wf(), final(decoder).buf() == old(decoder).buf(), final(decoder).idx() >= old(decoder).idx()
//%after "while decoder.peek().is_some()"
        invariant decoder.wf(), decoder.buf() == old(decoder).buf(), decoder.idx() >= old(decoder).idx(),
        decreases decoder.buf().len() - decoder.idx()
//%end
pub struct EchConfigListV(pub Vec<u8>);
//%fn crates/proto/src/rr/rdata/svcb.rs :: impl<'r> BinDecodable<'r> for EchConfigList :: read
//%rename ech_config_list_read<'r>
//%sub1 "Result<Self, DecodeError>" => "Result<EchConfigListV, DecodeError>" # R-sel
//%sub1 "Ok(Self(data))" => "Ok(EchConfigListV(data))" # R-sel
//%contract
    requires old(decoder).wf()
    ensures final(decoder).wf(), final(decoder).buf() == old(decoder).buf(), final(decoder).idx() >= old(decoder).idx()
//%end
pub struct UnknownV(pub Vec<u8>);
//%fn crates/proto/src/rr/rdata/svcb.rs :: impl<'r> BinDecodable<'r> for Unknown :: read
//%rename unknown_read<'r>
//%sub1 "Result<Self, DecodeError>" => "Result<UnknownV, DecodeError>" # R-sel
//%sub1 "Ok(Self(unknowns))" => "Ok(UnknownV(unknowns))" # R-sel
//%sub1 "data.unverified(/*any data is valid here*/).to_vec()" => "data.unverified()" # R-shim: `.to_vec()` on the Vec<u8> just read (a copy)
//%contract
    requires old(decoder).wf()
    ensures final(decoder).wf(), final(decoder).buf() == old(decoder).buf(), final(decoder).idx() >= old(decoder).idx()
//%end
// IpHint<T> is instantiated with A and AAAA only (SvcParamValue::read); their `read` contracts are proved in unit
// rdata_plain: Ok consumes exactly 4 / 16 octets
pub struct A { pub vp: u32 }
pub struct AAAA { pub vp: u128 }
#[verifier::external_body]
pub fn a_read<'r>(decoder: &mut BinDecoder<'r>) -> (r: Result<A, DecodeError>)
    requires old(decoder).wf()
    ensures final(decoder).wf(), final(decoder).buf() == old(decoder).buf(), final(decoder).idx() >= old(decoder).idx(),
        r is Ok ==> final(decoder).idx() == old(decoder).idx() + 4
{ unimplemented!() }
#[verifier::external_body]
pub fn aaaa_read<'r>(decoder: &mut BinDecoder<'r>) -> (r: Result<AAAA, DecodeError>)
    requires old(decoder).wf()
    ensures final(decoder).wf(), final(decoder).buf() == old(decoder).buf(), final(decoder).idx() >= old(decoder).idx(),
        r is Ok ==> final(decoder).idx() == old(decoder).idx() + 16
{ unimplemented!() }
pub struct IpHintV<T>(pub Vec<T>);
//%fn crates/proto/src/rr/rdata/svcb.rs :: impl<'r, T> BinDecodable<'r> for IpHint<T> where T: BinDecodable<'r>, :: read
//%rename ip_hint_a_read<'r>
//%sub1 "Result<Self, DecodeError>" => "Result<IpHintV<A>, DecodeError>" # R-mono: generic IpHint<T> verified at T = A
//%sub1 "Ok(Self(ips))" => "Ok(IpHintV(ips))" # R-sel
//%sub1 "T::read(decoder)?" => "a_read(decoder)?" # R-mono
//%sub1 "let mut ips = Vec::new();" => "let mut ips: Vec<A> = Vec::new();" # R-ann
//%attr #[verifier::loop_isolation(false)]
//%contract
    requires old(decoder).wf()
    ensures final(decoder).wf(), final(decoder).buf() == old(decoder).buf(), final(decoder).idx() >= old(decoder).idx()
//%after "while decoder.peek().is_some()"
        invariant decoder.wf(), decoder.buf() == old(decoder).buf(), decoder.idx() >= old(decoder).idx(),
        decreases decoder.buf().len() - decoder.idx()
//%end
//%fn crates/proto/src/rr/rdata/svcb.rs :: impl<'r, T> BinDecodable<'r> for IpHint<T> where T: BinDecodable<'r>, :: read
//%rename ip_hint_aaaa_read<'r>
//%sub1 "Result<Self, DecodeError>" => "Result<IpHintV<AAAA>, DecodeError>" # R-mono: generic IpHint<T> verified at T = AAAA
//%sub1 "Ok(Self(ips))" => "Ok(IpHintV(ips))" # R-sel
//%sub1 "T::read(decoder)?" => "aaaa_read(decoder)?" # R-mono
//%sub1 "let mut ips = Vec::new();" => "let mut ips: Vec<AAAA> = Vec::new();" # R-ann
//%attr #[verifier::loop_isolation(false)]
//%contract
    requires old(decoder).wf()
    ensures final(decoder).wf(), final(decoder).buf() == old(decoder).buf(), final(decoder).idx() >= old(decoder).idx()
//%after "while decoder.peek().is_some()"
        invariant decoder.wf(), decoder.buf() == old(decoder).buf(), decoder.idx() >= old(decoder).idx(),
        decreases decoder.buf().len() - decoder.idx()
//%end

// ---- the EDNS option value decoders (opt.rs): EdnsOption::try_from((code, bytes)) and what it dispatches to.
//      Each works on the option's own bytes (a fresh decoder / the slice), so only totality matters ----
pub struct IpAddr { pub vp: u128 }
pub fn vp_v4_unspecified_octets() -> (r: [u8; 4]) { [0u8; 4] }
pub fn vp_v6_unspecified_octets() -> (r: [u8; 16]) { [0u8; 16] }
pub trait VpIpFrom<T> { fn vp_from(o: T) -> IpAddr; }
impl VpIpFrom<[u8; 4]> for IpAddr { #[verifier::external_body] fn vp_from(o: [u8; 4]) -> IpAddr { unimplemented!() } }
impl VpIpFrom<[u8; 16]> for IpAddr { #[verifier::external_body] fn vp_from(o: [u8; 16]) -> IpAddr { unimplemented!() } }
pub struct ClientSubnet { pub address: IpAddr, pub source_prefix: u8, pub scope_prefix: u8 }
//%fn crates/proto/src/rr/rdata/opt.rs :: impl<'a> BinDecodable<'a> for ClientSubnet :: read
//%rename client_subnet_read<'a>
//%sub1 "Result<Self, DecodeError>" => "Result<ClientSubnet, DecodeError>" # R-sel: trait-impl method pulled out as a free fn
//%sub "Ok(Self {" => "Ok(ClientSubnet {" # R-sel
//%sub1 "Ipv4Addr::UNSPECIFIED.octets()" => "vp_v4_unspecified_octets()" # R-shim: [0; 4]
//%sub1 "Ipv6Addr::UNSPECIFIED.octets()" => "vp_v6_unspecified_octets()" # R-shim: [0; 16]
//%sub "IpAddr::from(octets)" => "<IpAddr as VpIpFrom<_>>::vp_from(octets)" # R-shim: From<[u8; N]> for IpAddr (total)
//%sub "for octet in octets.iter_mut().take(addr_len) { *octet = decoder.read_u8()?.unverified(); }" => "let mut vp_k: usize = 0; while vp_k < addr_len invariant vp_k <= addr_len <= octets@.len(), decoder.wf(), decoder.buf() == old(decoder).buf(), decoder.idx() >= old(decoder).idx() decreases addr_len - vp_k { octets[vp_k] = decoder.read_u8()?.unverified(); vp_k += 1; }" # R-iter: `for x in a.iter_mut().take(n) { *x = E; }` written as the indexed loop it denotes (n <= a.len() is checked just above in the source); the loop body expression E is kept verbatim
//%attr #[verifier::loop_isolation(false)]
//%contract
    requires old(decoder).wf()
    ensures final(decoder).wf(), final(decoder).buf() == old(decoder).buf(), final(decoder).idx() >= old(decoder).idx()
//%end
//%fn crates/proto/src/rr/rdata/opt.rs :: impl<'a> TryFrom<&'a [u8]> for ClientSubnet :: try_from
//%rename client_subnet_try_from<'a>
//%sub1 "Result<Self, Self::Error>" => "Result<ClientSubnet, DecodeError>" # R-sel
//%sub1 "Self::read(&mut decoder)" => "client_subnet_read(&mut decoder)" # R-sel
//%end
pub struct NSIDPayload(pub Vec<u8>);
//%fn crates/proto/src/rr/rdata/opt.rs :: impl<'a> TryFrom<&'a [u8]> for NSIDPayload :: try_from
//%rename nsid_payload_try_from<'a>
//%sub1 "Result<Self, Self::Error>" => "Result<NSIDPayload, DecodeError>" # R-sel
//%sub1 "Ok(Self(value.to_vec()))" => "Ok(NSIDPayload(vp_slice_to_owned(value)))" # R-sel + R-shim: <[u8]>::to_vec
//%end

// the dispatcher EdnsOption::try_from with the REAL code / option enums (kept in a module: the OPT::read_data section
// above uses collapsed stand-ins with the same names) and the DAU/DHU/N3U value (SupportedAlgorithms)
pub mod edns_real {
use super::*;
#[derive(Clone, Copy)]
//%enum crates/proto/src/dnssec/algorithm.rs :: Algorithm
//%end
impl Algorithm {
//%fn crates/proto/src/dnssec/algorithm.rs :: impl Algorithm :: from_u8
//%end
}
#[derive(Clone, Copy)]
//%struct crates/proto/src/dnssec/supported_algorithm.rs :: SupportedAlgorithms
//%end
impl SupportedAlgorithms {
//%fn crates/proto/src/dnssec/supported_algorithm.rs :: impl SupportedAlgorithms :: new
//%end
//%fn crates/proto/src/dnssec/supported_algorithm.rs :: impl SupportedAlgorithms :: pos
//%closure "|b|"
|b: u8| -> (o: u8) requires b < 8
//%mutant shift_out_of_range "Algorithm::ED25519 => Some(6)," => "Algorithm::ED25519 => Some(8),"
//%end
//%fn crates/proto/src/dnssec/supported_algorithm.rs :: impl SupportedAlgorithms :: set
//%end
}
//%fn crates/proto/src/dnssec/supported_algorithm.rs :: impl<'a> From<&'a [u8]> for SupportedAlgorithms :: from
//%rename supported_algorithms_from<'a>
//%sub1 "-> Self" => "-> SupportedAlgorithms" # R-sel: trait-impl method pulled out as a free fn
//%sub1 "Self::new()" => "SupportedAlgorithms::new()" # R-sel
//%sub1 "warn!(\"unrecognized algorithm: {}\", v)" => "()" # R-log: logging macro in expression position (a match arm) -> unit
//%closure "|i|"
|i: &u8| -> (o: Algorithm)
//%after "for a in"
        vp_it:
//%end
#[derive(Clone, Copy)]
//%enum crates/proto/src/rr/rdata/opt.rs :: EdnsCode
//%end
// opt.rs `impl From<EdnsCode> for u16`: exhaustive match (ASSUMED total)
#[verifier::external_body] pub fn vp_code_to_u16(c: EdnsCode) -> u16 { unimplemented!() }
//%enum crates/proto/src/rr/rdata/opt.rs :: EdnsOption
//%end
//%fn crates/proto/src/rr/rdata/opt.rs :: impl<'a> TryFrom<(EdnsCode, &'a [u8])> for EdnsOption :: try_from
//%rename edns_option_try_from<'a>
//%sub1 "Result<Self, Self::Error>" => "Result<EdnsOption, DecodeError>" # R-sel
//%sub "Self::" => "EdnsOption::" # R-sel
//%sub1 "value.1.into()" => "supported_algorithms_from(value.1)" # R-shim: Into::into -> From<&[u8]> for SupportedAlgorithms
//%sub "value.1.try_into()?"@1 => "client_subnet_try_from(value.1)?" # R-shim: TryInto::try_into -> TryFrom<&[u8]> for ClientSubnet
//%sub "value.1.try_into()?"@2 => "nsid_payload_try_from(value.1)?" # R-shim: TryInto::try_into -> TryFrom<&[u8]> for NSIDPayload
//%sub1 "value.0.into()" => "vp_code_to_u16(value.0)" # R-shim: Into::into -> From<EdnsCode> for u16
//%sub1 "value.1.to_vec()" => "vp_slice_to_owned(value.1)" # R-shim: <[u8]>::to_vec
//%contract
    // C01: every (code, bytes) pair decodes to an option or an error
    ensures true
//%end
}

} // verus!
fn main() {}
