//%unit rdata_loops
//%features std
use vstd::prelude::*;
verus! {
//%include ../common/decoder.rs

// ---- C01, RDATA decoders that contain loops: termination (every iteration consumes input) and no panic ----
pub struct VpBoxedBytes { pub v: Vec<u8> }
pub struct VpBoxedStrings { pub v: Vec<VpBoxedBytes> }
pub trait VpToBoxed { fn vp_to_boxed(&self) -> VpBoxedBytes; }
impl VpToBoxed for &[u8] { #[verifier::external_body] fn vp_to_boxed(&self) -> (r: VpBoxedBytes) { unimplemented!() } }
#[verifier::external_body]
pub fn vp_strings_into_boxed(v: Vec<VpBoxedBytes>) -> (r: VpBoxedStrings) { unimplemented!() }

// TXT (txt.rs): a sequence of <character-string>s until the RDATA is exhausted
pub struct TXT { pub txt_data: VpBoxedStrings }
//%fn crates/proto/src/rr/rdata/txt.rs :: impl RecordDataDecodable<'_> for TXT :: read_data
//%rename txt_read_data
//%sub1 "Result<Self, DecodeError>" => "Result<TXT, DecodeError>" # R-sel: trait-impl method pulled out as a free fn
//%sub1 "Ok(Self {" => "Ok(TXT {" # R-sel
//%sub1 "let mut strings = Vec::with_capacity(1);" => "let mut strings: Vec<VpBoxedBytes> = Vec::with_capacity(1);" # R-ann: type ascription
//%sub1 "string.to_vec().into_boxed_slice()" => "string.vp_to_boxed()" # R-shim: copy of the bytes into a Box<[u8]>
//%sub1 "strings.into_boxed_slice()" => "vp_strings_into_boxed(strings)" # R-shim: Vec::into_boxed_slice
//%attr #[verifier::loop_isolation(false)]
//%contract
    requires old(decoder).wf()
    ensures final(decoder).wf(), final(decoder).buf() == old(decoder).buf(), final(decoder).idx() >= old(decoder).idx(),
        r is Ok ==> final(decoder).idx() == old(decoder).buf().len(),
//%after "while !decoder.is_empty()"
            invariant decoder.wf(), decoder.buf() == old(decoder).buf(), decoder.idx() >= old(decoder).idx(),
            decreases decoder.buf().len() - decoder.idx()
//%end

// OPT (opt.rs): (code, length, data)* read by a three-state machine, one octet of data per iteration
#[derive(Clone, Copy, PartialEq, Eq)] pub struct EdnsCode(pub u16);
impl EdnsCode { pub fn from(v: u16) -> EdnsCode { EdnsCode(v) } }
pub struct EdnsOption { pub vp: u64 }
pub struct VpTryInto<'x>(pub EdnsCode, pub &'x [u8]);
// ASSUMED: EdnsOption::try_from((code, bytes)) (per-option decoders: Subnet, NSID, DAU) returns
pub trait VpOptTryInto { fn vp_try_into(self) -> Result<EdnsOption, DecodeError>; }
impl<'x> VpOptTryInto for (EdnsCode, &'x [u8]) {
    #[verifier::external_body] fn vp_try_into(self) -> (r: Result<EdnsOption, DecodeError>) { unimplemented!() }
}
pub struct OPT { pub options: Vec<(EdnsCode, EdnsOption)> }
impl OPT { pub fn new(options: Vec<(EdnsCode, EdnsOption)>) -> OPT { OPT { options } } }
#[derive(PartialEq, Eq)]
//%enum crates/proto/src/rr/rdata/opt.rs :: OptReadState
//%end
//%fn crates/proto/src/rr/rdata/opt.rs :: impl<'r> RecordDataDecodable<'r> for OPT :: read_data
//%rename opt_read_data<'r>
//%sub1 "Result<Self, DecodeError>" => "Result<OPT, DecodeError>" # R-sel: trait-impl method pulled out as a free fn
//%sub1 "Ok(Self::new(options))" => "Ok(OPT::new(options))" # R-sel
//%sub ".try_into()?" => ".vp_try_into()?" # R-shim: TryInto::try_into -> the TryFrom impl it resolves to (EdnsOption::try_from), assumed to return
//%sub1 "&[] as &[u8]" => "vp_empty_slice()" # R-shim: empty slice literal
//%sub1 "&collected as &[u8]" => "collected.as_slice()" # R-shim: &Vec<u8> as &[u8]
//%attr #[verifier::loop_isolation(false)]
//%contract
    requires old(decoder).wf()
    ensures final(decoder).wf(), final(decoder).buf() == old(decoder).buf(), final(decoder).idx() >= old(decoder).idx(),
//%after "while !decoder.is_empty()"
            invariant decoder.wf(), decoder.buf() == old(decoder).buf(), decoder.idx() >= old(decoder).idx(),
                state matches OptReadState::Data { code, length, collected } ==> collected@.len() < length <= rdata_length,
            decreases decoder.buf().len() - decoder.idx()
//%closure "|u|"@1
|u: u16| -> (o: usize) ensures o == u as usize
//%closure "|u|"@2
|u: &usize| -> (b: bool) ensures b == (*u <= rdata_length)
//%closure "|opt_len|"
|opt_len: usize| -> (e: DecodeError)
//%mutant data_state_without_progress "decoder.pop()?.unverified(/*byte array is safe*/)" => "0u8"
//%end
pub fn vp_empty_slice() -> (r: &'static [u8]) ensures r@.len() == 0 { &[] }

// SVCB / HTTPS (svcb.rs): priority, target name, then (key, length, value)* while >= 4 octets remain
#[derive(Clone, Copy)] pub struct SvcParamKeyRaw(pub u16);
#[derive(Clone, Copy)] pub enum SvcParamKey { Mandatory, Alpn, NoDefaultAlpn, Port, Ipv4Hint, EchConfigList, Ipv6Hint, Key(u16), Key65535, Unknown(u16) }
impl SvcParamKey {
    // svcb.rs `impl From<u16> for SvcParamKey`: exhaustive match (ASSUMED total)
    #[verifier::external_body] pub fn vp_from_u16(v: u16) -> SvcParamKey { unimplemented!() }
//%fn crates/proto/src/rr/rdata/svcb.rs :: impl<'r> BinDecodable<'r> for SvcParamKey :: read
//%novis
//%sub1 "fn read(" => "pub fn read<'r>(" # R-vis: trait-impl method placed in an inherent impl (the impl's lifetime parameter moves to the fn)
//%sub1 "Ok(decoder.read_u16()?.unverified().into())" => "Ok(SvcParamKey::vp_from_u16(decoder.read_u16()?.unverified()))" # R-shim: Into::into -> the From<u16> impl it resolves to
//%contract
        requires old(decoder).wf()
        ensures final(decoder).wf(), final(decoder).buf() == old(decoder).buf(),
            match r { Ok(_) => final(decoder).idx() == old(decoder).idx() + 2, Err(_) => final(decoder).idx() == old(decoder).idx() }
//%end
    // ordering of keys (derived PartialOrd in the source): only its totality matters here
    #[verifier::external_body] pub fn vp_ge(&self, o: &SvcParamKey) -> bool { unimplemented!() }
}
// ASSUMED: the per-parameter value decoders (Mandatory, Alpn, IpHint, EchConfigList, Unknown) return;
// each gets its OWN decoder over exactly the parameter's bytes, so it cannot disturb the framing
pub struct VpParam { pub vp: u64 }
pub struct Mandatory;
impl Mandatory {
    #[verifier::external_body]
    pub fn read(d: &mut BinDecoder<'_>) -> (r: Result<VpParam, DecodeError>)
        requires old(d).wf()
        ensures final(d).wf()
    { unimplemented!() }
}
pub struct Alpn;
impl Alpn {
    #[verifier::external_body]
    pub fn read(d: &mut BinDecoder<'_>) -> (r: Result<VpParam, DecodeError>)
        requires old(d).wf()
        ensures final(d).wf()
    { unimplemented!() }
}
pub struct EchConfigList;
impl EchConfigList {
    #[verifier::external_body]
    pub fn read(d: &mut BinDecoder<'_>) -> (r: Result<VpParam, DecodeError>)
        requires old(d).wf()
        ensures final(d).wf()
    { unimplemented!() }
}
pub struct Unknown;
impl Unknown {
    #[verifier::external_body]
    pub fn read(d: &mut BinDecoder<'_>) -> (r: Result<VpParam, DecodeError>)
        requires old(d).wf()
        ensures final(d).wf()
    { unimplemented!() }
}
pub struct IpHintA;
impl IpHintA {
    #[verifier::external_body]
    pub fn read(d: &mut BinDecoder<'_>) -> (r: Result<VpParam, DecodeError>)
        requires old(d).wf()
        ensures final(d).wf()
    { unimplemented!() }
}
pub struct IpHintAAAA;
impl IpHintAAAA {
    #[verifier::external_body]
    pub fn read(d: &mut BinDecoder<'_>) -> (r: Result<VpParam, DecodeError>)
        requires old(d).wf()
        ensures final(d).wf()
    { unimplemented!() }
}
pub enum SvcParamValue { Mandatory(VpParam), Alpn(VpParam), NoDefaultAlpn, Port(u16), Ipv4Hint(VpParam), EchConfigList(VpParam), Ipv6Hint(VpParam), Unknown(VpParam) }
impl SvcParamValue {
//%fn crates/proto/src/rr/rdata/svcb.rs :: impl SvcParamValue :: read
//%sub1 "IpHint::<A>::read" => "IpHintA::read" # R-mono: generic IpHint<T> named per instantiation
//%sub1 "IpHint::<AAAA>::read" => "IpHintAAAA::read" # R-mono
//%closure "|len|"@1
|len: &u16| -> (b: bool) ensures b == ((*len as int) <= decoder.buf().len() - decoder.idx())
//%closure "|len|"@2
|len: u16| -> (o: usize) ensures o == len as usize
//%closure "|u|"
|u: u16| -> (e: DecodeError)
//%contract
        requires old(decoder).wf()
        ensures final(decoder).wf(), final(decoder).buf() == old(decoder).buf(), final(decoder).idx() >= old(decoder).idx(),
            r is Ok ==> final(decoder).idx() >= old(decoder).idx() + 2,
//%end
}
pub struct Name { pub vp: u64 }
// contract proved for the real Name::read in unit name_read
#[verifier::external_body]
pub fn name_read<'r>(decoder: &mut BinDecoder<'r>) -> (r: Result<Name, DecodeError>)
    requires old(decoder).wf()
    ensures final(decoder).wf(), final(decoder).buf() == old(decoder).buf(), final(decoder).idx() >= old(decoder).idx()
{ unimplemented!() }
pub struct SVCB { pub svc_priority: u16, pub target_name: Name, pub svc_params: Vec<(SvcParamKey, SvcParamValue)> }
//%fn crates/proto/src/rr/rdata/svcb.rs :: impl RecordDataDecodable<'_> for SVCB :: read_data
//%rename svcb_read_data
//%sub1 "Result<Self, DecodeError>" => "Result<SVCB, DecodeError>" # R-sel
//%sub1 "Ok(Self {" => "Ok(SVCB {" # R-sel
//%sub1 "Name::read(decoder)" => "name_read(decoder)" # R-sel
//%sub1 "svc_params.last().map(|(key, _)| key)" => "vp_last_key(&svc_params)" # R-shim: Option::map with a tuple-pattern closure
//%sub1 "last_key >= &key" => "last_key.vp_ge(&key)" # R-shim: derived PartialOrd on the key enum (result irrelevant for totality)
//%attr #[verifier::loop_isolation(false)]
//%contract
    requires old(decoder).wf()
    ensures final(decoder).wf(), final(decoder).buf() == old(decoder).buf(), final(decoder).idx() >= old(decoder).idx(),
//%after "while decoder.len() >= 4"
            invariant decoder.wf(), decoder.buf() == old(decoder).buf(), decoder.idx() >= old(decoder).idx(),
            decreases decoder.buf().len() - decoder.idx()
//%end
#[verifier::external_body]
pub fn vp_last_key(v: &Vec<(SvcParamKey, SvcParamValue)>) -> (r: Option<&SvcParamKey>) { unimplemented!() }
} // verus!
fn main() {}
