//%unit ttl_kernels
//%features std
use vstd::prelude::*;
verus! {
// ---- C15 kernels: TTL bound configuration, negative-TTL clamp, elapsed-seconds arithmetic ----
// Stand-ins for std time types: a Duration is a number of nanoseconds, an Instant a point on the same
// scale.  The shims below are assumed specs of core::time / std::time (listed in trusted_base).
#[derive(Clone, Copy)] pub struct Duration { pub ns: u128 }
#[derive(Clone, Copy)] pub struct Instant { pub ns: u128 }
impl Duration {
    pub open spec fn secs(&self) -> int { (self.ns / 1_000_000_000) as int }
    #[verifier::external_body]
    pub fn from_secs(s: u64) -> (r: Duration) ensures r.ns == s as u128 * 1_000_000_000 { unimplemented!() }
    #[verifier::external_body]
    pub fn as_secs(&self) -> (r: u64) ensures r as int == self.secs() { unimplemented!() }
    // Ord::clamp: panics if min > max -- that is a precondition on the configuration
    #[verifier::external_body]
    pub fn clamp(self, min: Duration, max: Duration) -> (r: Duration)
        requires min.ns <= max.ns
        ensures r.ns == (if self.ns < min.ns { min.ns } else if self.ns > max.ns { max.ns } else { self.ns })
    { unimplemented!() }
}
impl Instant {
    #[verifier::external_body]
    pub fn saturating_duration_since(&self, earlier: Instant) -> (r: Duration)
        ensures r.ns == (if self.ns >= earlier.ns { (self.ns - earlier.ns) as u128 } else { 0 })
    { unimplemented!() }
}
impl vstd::std_specs::cmp::PartialEqSpecImpl for Instant { open spec fn obeys_eq_spec() -> bool { true } open spec fn eq_spec(&self, o: &Instant) -> bool { self.ns == o.ns } }
impl PartialEq for Instant { fn eq(&self, o: &Instant) -> (r: bool) { self.ns == o.ns } }
impl vstd::std_specs::cmp::PartialOrdSpecImpl for Instant {
    open spec fn obeys_partial_cmp_spec() -> bool { true }
    open spec fn partial_cmp_spec(&self, o: &Instant) -> Option<core::cmp::Ordering> {
        Some(if self.ns < o.ns { core::cmp::Ordering::Less } else if self.ns > o.ns { core::cmp::Ordering::Greater } else { core::cmp::Ordering::Equal })
    }
}
impl PartialOrd for Instant {
    fn partial_cmp(&self, o: &Instant) -> (r: Option<core::cmp::Ordering>) {
        Some(if self.ns < o.ns { core::cmp::Ordering::Less } else if self.ns > o.ns { core::cmp::Ordering::Greater } else { core::cmp::Ordering::Equal })
    }
}

//%const crates/resolver/src/cache.rs :: MAX_TTL
//%end

// config.rs::ResolverOpts: only the four TTL fields TtlConfig::from_opts reads
pub struct ResolverOpts {
    pub positive_min_ttl: Option<Duration>, pub negative_min_ttl: Option<Duration>,
    pub positive_max_ttl: Option<Duration>, pub negative_max_ttl: Option<Duration>,
}
pub mod config { pub use super::ResolverOpts; }
#[derive(Clone, Copy)]
//%struct crates/resolver/src/cache.rs :: TtlBounds
//%end
#[derive(Clone, Copy)] pub struct RecordType(pub u16);
// stand-in for HashMap<RecordType, TtlBounds>: an uninterpreted finite map with assumed get/default
pub struct VpBoundsMap { pub vp_id: u64 }
impl VpBoundsMap {
    pub uninterp spec fn lookup(&self, t: RecordType) -> Option<TtlBounds>;
    #[verifier::external_body]
    pub fn default() -> (r: Self) ensures forall|t: RecordType| r.lookup(t) is None { unimplemented!() }
    #[verifier::external_body]
    pub fn get(&self, t: &RecordType) -> (r: Option<&TtlBounds>)
        ensures match r { Some(b) => self.lookup(*t) == Some(*b), None => self.lookup(*t) is None }
    { unimplemented!() }
}
//%struct crates/resolver/src/cache.rs :: TtlConfig
//%sub1 "HashMap<RecordType, TtlBounds>" => "VpBoundsMap" # R-shim: std HashMap replaced by an uninterpreted finite map (get/default assumed)
//%end
impl vstd::std_specs::convert::FromSpecImpl<TtlBounds> for TtlConfig {
    open spec fn obeys_from_spec() -> bool { false }
    uninterp spec fn from_spec(b: TtlBounds) -> Self;
}
impl From<TtlBounds> for TtlConfig {
//%fn crates/resolver/src/cache.rs :: impl From<TtlBounds> for TtlConfig :: from
//%sub1 "HashMap::default()" => "VpBoundsMap::default()" # R-shim
//%contract
        ensures r.default == default, forall|t: RecordType| r.by_query_type.lookup(t) is None
//%end
}
pub open spec fn bounds_for(c: TtlConfig, t: RecordType) -> TtlBounds {
    match c.by_query_type.lookup(t) { Some(b) => b, None => c.default }
}
impl TtlConfig {
//%fn crates/resolver/src/cache.rs :: impl TtlConfig :: from_opts
//%contract
        // C15: "clamped to the configured bounds": every configured bound reaches the cache unchanged,
        // in its own slot
        ensures r.default.positive_min_ttl == opts.positive_min_ttl, r.default.negative_min_ttl == opts.negative_min_ttl,
            r.default.positive_max_ttl == opts.positive_max_ttl, r.default.negative_max_ttl == opts.negative_max_ttl,
            forall|t: RecordType| r.by_query_type.lookup(t) is None,
//%mutant neg_max_from_pos_max "negative_max_ttl: opts.negative_max_ttl" => "negative_max_ttl: opts.positive_max_ttl"
//%end

    // expression-level: the (min, max) pair computed by negative_response_ttl_bounds
    fn negative_bounds(&self, query_type: RecordType) -> (r: (Duration, Duration))
        ensures
            r.0.ns == (match bounds_for(*self, query_type).negative_min_ttl { Some(d) => d.ns, None => 0 }),
            r.1.ns as int == (match bounds_for(*self, query_type).negative_max_ttl { Some(d) => d.ns as int, None => 86400int * 1_000_000_000 }),
    {
//%expr crates/resolver/src/cache.rs :: impl TtlConfig :: negative_response_ttl_bounds :: "let bounds = self.by_query_type" .. "unwrap_or_else(|| Duration::from_secs(u64::from(MAX_TTL)));"
//%closure "||"@1
|| -> (d: Duration) ensures d.ns == 0
//%closure "||"@2
|| -> (d: Duration) ensures d.ns == 86400u128 * 1_000_000_000
//%mutant neg_uses_positive_max "bounds .negative_max_ttl" => "bounds .positive_max_ttl"
//%end
        (min, max)
    }
    fn positive_bounds(&self, query_type: RecordType) -> (r: (Duration, Duration))
        ensures
            r.0.ns == (match bounds_for(*self, query_type).positive_min_ttl { Some(d) => d.ns, None => 0 }),
            r.1.ns as int == (match bounds_for(*self, query_type).positive_max_ttl { Some(d) => d.ns as int, None => 86400int * 1_000_000_000 }),
    {
//%expr crates/resolver/src/cache.rs :: impl TtlConfig :: positive_response_ttl_bounds :: "let bounds = self.by_query_type" .. "unwrap_or_else(|| Duration::from_secs(u64::from(MAX_TTL)));"
//%closure "||"@1
|| -> (d: Duration) ensures d.ns == 0
//%closure "||"@2
|| -> (d: Duration) ensures d.ns == 86400u128 * 1_000_000_000
//%end
        (min, max)
    }
}

// ResponseCache::insert, negative branch: how long a NoRecordsFound answer is kept
fn negative_lifetime(negative_ttl: Option<u32>, negative_min_ttl: Duration, negative_max_ttl: Duration) -> (ttl: Duration)
    requires negative_min_ttl.ns <= negative_max_ttl.ns     // configuration precondition (Ord::clamp panics otherwise)
    ensures
        // C15: "kept no longer than its negative TTL clamped to the configured negative bounds"
        negative_ttl matches Some(t) ==> ttl.ns as int == (if t * 1_000_000_000 < negative_min_ttl.ns { negative_min_ttl.ns as int }
            else if t * 1_000_000_000 > negative_max_ttl.ns { negative_max_ttl.ns as int } else { t * 1_000_000_000 }),
        negative_ttl is None ==> ttl.ns == negative_min_ttl.ns,
{
    let no_records = VpNoRecords { negative_ttl };
    let ttl =
//%expr crates/resolver/src/cache.rs :: impl ResponseCache :: insert :: "if let Some(ttl) = no_records.negative_ttl" .. "negative_min_ttl }"
//%mutant unclamped "Duration::from_secs(u64::from(ttl)).clamp(negative_min_ttl, negative_max_ttl)" => "Duration::from_secs(u64::from(ttl))"
//%end
    ;
    ttl
}
pub struct VpNoRecords { pub negative_ttl: Option<u32> }

// Entry: freshness test and elapsed whole seconds
pub struct Entry { pub original_time: Instant, pub valid_until: Instant }
impl Entry {
//%fn crates/resolver/src/cache.rs :: impl Entry :: is_current
//%contract
        // C15: "never returns an entry more than L seconds after its insertion" (valid_until = insertion + L)
        ensures r == (now.ns <= self.valid_until.ns)
//%mutant always_current "now <= self.valid_until" => "true"
//%end
//%fn crates/resolver/src/cache.rs :: impl Entry :: ttl
//%contract
        ensures r.ns == (if self.valid_until.ns >= now.ns { (self.valid_until.ns - now.ns) as u128 } else { 0 })
//%end
    // expression-level: the whole seconds elapsed since insertion, as used to decrement every TTL
    fn elapsed_secs(&self, now: Instant) -> (elapsed: u32)
        ensures elapsed as int == (if now.ns >= self.original_time.ns { let s = ((now.ns - self.original_time.ns) / 1_000_000_000) as int; if s > 0xFFFF_FFFF { 0xFFFF_FFFF } else { s } } else { 0 })
    {
        let elapsed =
//%expr crates/resolver/src/cache.rs :: impl Entry :: updated_ttl :: "u32::try_from(now.saturating_duration_since(self.original_time).as_secs())" .. ".unwrap_or(u32::MAX)"
//%sub1 "u32::try_from" => "vp_u32_try_from" # R-shim: u32::try_from(u64)
//%end
        ;
        elapsed
    }
}
pub assume_specification<T, E> [Result::<T, E>::unwrap_or] (r: Result<T, E>, d: T) -> (o: T)
    ensures o == (match r { Ok(v) => v, Err(_) => d });
#[verifier::external_body]
pub fn vp_u32_try_from(n: u64) -> (r: Result<u32, ()>)
    ensures match r { Ok(v) => v as int == n as int, Err(_) => n > 0xFFFF_FFFF }
{ unimplemented!() }

// Record::decrement_ttl (proto/src/rr/record.rs): TTLs only count down, floored at zero
pub struct Record { pub ttl: u32, pub vp_rest: u64 }
impl Record {
//%fn crates/proto/src/rr/record.rs :: impl<R: RecordData> Record<R> :: decrement_ttl
//%contract
        ensures *final(r) == *final(self), r.vp_rest == old(self).vp_rest,
            r.ttl as int == (if old(self).ttl >= offset { old(self).ttl - offset } else { 0 }),
            r.ttl <= old(self).ttl,
//%mutant wrapping "saturating_sub" => "wrapping_sub"
//%end
}

// DnsResponse::negative_ttl (proto/src/op/dns_response.rs): RFC 2308 section 5 -- the negative TTL is
// the minimum of the SOA record's TTL and its MINIMUM field
pub struct SOA { pub minimum: u32 }
fn negative_ttl_of(ttl: u32, soa: &SOA) -> (r: u32)
    ensures r == (if ttl < soa.minimum { ttl } else { soa.minimum })
{
//%expr crates/proto/src/op/dns_response.rs :: impl DnsResponse :: negative_ttl :: "(ttl)" .. "(soa.minimum)"
//%end
}
// expression-level: the negative TTL a cached NoRecords error reports after `elapsed` seconds (Entry::updated_ttl, error
// branch): "every TTL it reports equals the ... stored TTL minus the whole seconds elapsed (floored at zero)"
fn negative_ttl_after(negative_ttl: &mut Option<u32>, elapsed: u32)
    ensures match *old(negative_ttl) { Some(t) => *final(negative_ttl) == Some(if t >= elapsed { (t - elapsed) as u32 } else { 0u32 }), None => *final(negative_ttl) is None }
{
//%expr crates/resolver/src/cache.rs :: impl Entry :: updated_ttl :: "if let Some(ttl) = negative_ttl {" .. "}"
//%mutant floor_at_zero_lost "ttl.saturating_sub(elapsed)" => "ttl.wrapping_sub(elapsed)"
//%end
}

// expression-level: ResponseCache::clamp_positive_ttls, the body of the per-record loop -- "every TTL it reports equals
// the PER-TYPE clamped stored TTL ...": each record is clamped with the bounds of ITS OWN type, not the query's
pub struct VpRecord { pub rtype: RecordType, pub ttl: u32 }
impl VpRecord { pub fn record_type(&self) -> (r: RecordType) ensures r == self.rtype { self.rtype } }
pub struct VpTtlCfg { pub vp: u64 }
pub uninterp spec fn secs_bounds(c: VpTtlCfg, t: RecordType) -> (u32, u32);
impl VpTtlCfg {
    // TtlConfig::positive_ttl_bounds_secs: positive_response_ttl_bounds(t) in whole seconds (kernel `positive_bounds` above)
    #[verifier::external_body] pub fn positive_ttl_bounds_secs(&self, t: RecordType) -> (r: (u32, u32)) ensures r == secs_bounds(*self, t) { unimplemented!() }
}
pub struct VpCache { pub ttl_config: VpTtlCfg }
#[verifier::external_body] pub fn vp_u32_clamp(v: u32, lo: u32, hi: u32) -> (r: u32) requires lo <= hi ensures r == (if v < lo { lo } else if v > hi { hi } else { v }) { v.clamp(lo, hi) }
impl VpCache {
    fn clamp_one_record(&self, record: &mut VpRecord)
        requires secs_bounds(self.ttl_config, old(record).rtype).0 <= secs_bounds(self.ttl_config, old(record).rtype).1   // configuration precondition (Ord::clamp panics otherwise)
        ensures final(record).rtype == old(record).rtype,
            final(record).ttl == ({ let b = secs_bounds(self.ttl_config, old(record).rtype); let v = old(record).ttl; if v < b.0 { b.0 } else if v > b.1 { b.1 } else { v } }),
    {
//%expr crates/resolver/src/cache.rs :: impl ResponseCache :: clamp_positive_ttls :: "let (min_secs, max_secs) = self" .. "record.ttl = record.ttl.clamp(min_secs, max_secs);"
//%sub1 "record.ttl.clamp(min_secs, max_secs)" => "vp_u32_clamp(record.ttl, min_secs, max_secs)" # R-shim: Ord::clamp on u32
//%end
    }
}

// ---- the lifetime of a positive entry (ResponseCache::clamp_positive_ttls, from the bounds lookup to the end of the fn) ----
// C15: "never returns an entry more than L seconds after its insertion, where L is the smallest TTL among the entry's
// records of the queried type (or CNAME), clamped to the configured bounds for that query type". The iterator pipeline
// `message.all_sections().filter(f).map(g).min()` goes through ONE shim specified by the two closures' own contracts;
// both closure bodies are the repository's text.
impl vstd::std_specs::cmp::PartialEqSpecImpl for RecordType { open spec fn obeys_eq_spec() -> bool { true } open spec fn eq_spec(&self, o: &RecordType) -> bool { self.0 == o.0 } }
impl PartialEq for RecordType { fn eq(&self, o: &RecordType) -> (r: bool) { self.0 == o.0 } }
impl RecordType { pub const CNAME: RecordType = RecordType(5); }
pub struct VpMessage { pub answers: Vec<VpRecord>, pub authorities: Vec<VpRecord>, pub additionals: Vec<VpRecord> }
impl VpMessage {
    // Message::all_sections(): answers, then authorities, then additionals
    pub open spec fn all(&self) -> Seq<VpRecord> { self.answers@ + self.authorities@ + self.additionals@ }
}
pub struct VpRange { pub lo: Duration, pub hi: Duration }
impl VpRange { pub fn into_inner(self) -> (r: (Duration, Duration)) ensures r == (self.lo, self.hi) { (self.lo, self.hi) } }
pub uninterp spec fn resp_bounds(c: VpTtlCfg, t: RecordType) -> (Duration, Duration);
impl VpTtlCfg {
    // TtlConfig::positive_response_ttl_bounds (kernel `positive_bounds` above): the configured range for a query type
    #[verifier::external_body] pub fn positive_response_ttl_bounds(&self, t: RecordType) -> (r: VpRange) ensures (r.lo, r.hi) == resp_bounds(*self, t) { unimplemented!() }
}
// `message.all_sections().filter(f).map(g).min()`: the least g-value among the records f keeps; None iff f keeps none.
// bs[i] / ds[i]: what f answered for record i and, where f kept it, what g made of it
pub open spec fn pipeline_outcome<F: Fn(&&VpRecord) -> bool, G: Fn(&VpRecord) -> Duration>(all: Seq<VpRecord>, f: F, g: G, bs: Seq<bool>, ds: Seq<Duration>, r: Option<Duration>) -> bool {
    &&& bs.len() == all.len() && ds.len() == all.len()
    &&& forall|i: int| 0 <= i < all.len() ==> call_ensures(f, (&&all[i],), #[trigger] bs[i])
    &&& forall|i: int| 0 <= i < all.len() && bs[i] ==> call_ensures(g, (&all[i],), #[trigger] ds[i])
    &&& match r {
            None => forall|i: int| 0 <= i < all.len() ==> !#[trigger] bs[i],
            Some(d) => (exists|i: int| 0 <= i < all.len() && #[trigger] bs[i] && ds[i] == d)
                && (forall|j: int| 0 <= j < all.len() && #[trigger] bs[j] ==> d.ns <= ds[j].ns),
        }
}
// the records an iterator expression ranges over
#[verifier::external_body] pub struct VpRecs { vp: u64 }
impl VpRecs { pub uninterp spec fn view(&self) -> Seq<VpRecord>; }
#[verifier::external_body] pub fn vp_all_sections(m: &VpMessage) -> (r: VpRecs) ensures r@ == m.all() { unimplemented!() }
#[verifier::external_body] pub fn vp_section(v: &Vec<VpRecord>) -> (r: VpRecs) ensures r@ == v@ { unimplemented!() }
#[verifier::external_body]
pub fn vp_filter_map_min<F: Fn(&&VpRecord) -> bool, G: Fn(&VpRecord) -> Duration>(c: &VpRecs, f: F, g: G) -> (r: Option<Duration>)
    requires forall|i: int| 0 <= i < c@.len() ==> call_requires(f, (&&#[trigger] c@[i],)) && call_requires(g, (&c@[i],)),
    ensures exists|bs: Seq<bool>, ds: Seq<Duration>| #[trigger] pipeline_outcome(c@, f, g, bs, ds, r)
{ unimplemented!() }
// what the pipeline's outcome means once the two closures are known by their contracts
pub proof fn lemma_pipeline<F: Fn(&&VpRecord) -> bool, G: Fn(&VpRecord) -> Duration>(all: Seq<VpRecord>, f: F, g: G, r: Option<Duration>, q: RecordType)
    requires exists|bs: Seq<bool>, ds: Seq<Duration>| #[trigger] pipeline_outcome(all, f, g, bs, ds, r),
        forall|x: &&VpRecord, b: bool| #[trigger] call_ensures(f, (x,), b) ==> b == counts_for(**x, q),
        forall|x: &VpRecord, d: Duration| #[trigger] call_ensures(g, (x,), d) ==> d.ns == x.ttl as u128 * 1_000_000_000,
    ensures match r {
        None => forall|i: int| 0 <= i < all.len() ==> !counts_for(#[trigger] all[i], q),
        Some(d) => (exists|i: int| 0 <= i < all.len() && counts_for(#[trigger] all[i], q) && d.ns == all[i].ttl as u128 * 1_000_000_000)
            && (forall|j: int| 0 <= j < all.len() && counts_for(#[trigger] all[j], q) ==> d.ns <= all[j].ttl as u128 * 1_000_000_000),
    }
{
    let (bs, ds) = choose|bs: Seq<bool>, ds: Seq<Duration>| #[trigger] pipeline_outcome(all, f, g, bs, ds, r);
    assert forall|i: int| 0 <= i < all.len() implies bs[i] == counts_for(#[trigger] all[i], q) by {
        assert(call_ensures(f, (&&all[i],), bs[i]));
    }
    assert forall|i: int| 0 <= i < all.len() && bs[i] implies (#[trigger] ds[i]).ns == all[i].ttl as u128 * 1_000_000_000 by {
        assert(call_ensures(g, (&all[i],), ds[i]));
    }
    match r {
        None => { assert forall|i: int| 0 <= i < all.len() implies !counts_for(#[trigger] all[i], q) by { assert(!bs[i]); } }
        Some(d) => {
            let i0 = choose|i: int| 0 <= i < all.len() && #[trigger] bs[i] && ds[i] == d;
            assert(counts_for(all[i0], q) && d.ns == all[i0].ttl as u128 * 1_000_000_000);
            assert forall|j: int| 0 <= j < all.len() && counts_for(#[trigger] all[j], q) implies d.ns <= all[j].ttl as u128 * 1_000_000_000 by { assert(bs[j]); }
        }
    }
}
pub open spec fn counts_for(r: VpRecord, q: RecordType) -> bool { r.rtype.0 == q.0 || r.rtype.0 == 5 }
pub open spec fn clamp_ns(v: int, lo: u128, hi: u128) -> int { if v < lo { lo as int } else if v > hi { hi as int } else { v } }
impl VpCache {
    fn positive_lifetime(&self, query_type: RecordType, message: &VpMessage) -> (r: Duration)
        requires resp_bounds(self.ttl_config, query_type).0.ns <= resp_bounds(self.ttl_config, query_type).1.ns,   // configuration precondition (Ord::clamp panics otherwise)
        ensures
            // within the bounds configured for THIS query type
            resp_bounds(self.ttl_config, query_type).0.ns <= r.ns <= resp_bounds(self.ttl_config, query_type).1.ns,
            // never longer than the (clamped) TTL of ANY record of the queried type or CNAME, in any section
            forall|i: int| 0 <= i < message.all().len() && counts_for(#[trigger] message.all()[i], query_type) ==>
                r.ns <= clamp_ns(message.all()[i].ttl as u128 * 1_000_000_000, resp_bounds(self.ttl_config, query_type).0.ns, resp_bounds(self.ttl_config, query_type).1.ns),
            // and it IS the clamped TTL of one of them; records of other types do not shorten it
            (exists|i: int| 0 <= i < message.all().len() && counts_for(#[trigger] message.all()[i], query_type)) ==>
                exists|i: int| 0 <= i < message.all().len() && counts_for(#[trigger] message.all()[i], query_type)
                    && r.ns == clamp_ns(message.all()[i].ttl as u128 * 1_000_000_000, resp_bounds(self.ttl_config, query_type).0.ns, resp_bounds(self.ttl_config, query_type).1.ns),
    {
//%expr crates/resolver/src/cache.rs :: impl ResponseCache :: clamp_positive_ttls :: "let (positive_min_ttl, positive_max_ttl) = self" .. ".clamp(positive_min_ttl, positive_max_ttl)"
//%sub? "message . all_sections ( ) . filter (" => "{ let vp_c = vp_all_sections(message); let vp_f = (" # R-iter: `A.filter(F).map(G).min()` -> the collection and the two closures are let-bound (closure bodies untouched) and handed to ONE contract-specified shim
//%sub? "message . answers . iter ( ) . filter (" => "{ let vp_c = vp_section(&message.answers); let vp_f = (" # R-iter: the same pipeline over one section (so that such a change is judged, not lost)
//%sub? "message . authorities . iter ( ) . filter (" => "{ let vp_c = vp_section(&message.authorities); let vp_f = (" # R-iter: as above
//%sub1 ") . map (" => "); let vp_g = (" # R-iter (same pipeline)
//%sub1 ") . min ( )" => "); let vp_r = vp_filter_map_min(&vp_c, vp_f, vp_g); proof { lemma_pipeline(vp_c@, vp_f, vp_g, vp_r, query_type); } vp_r }" # R-iter (same pipeline) + R-ann: ghost lemma call
//%closure "|r|"@1
|r: &&VpRecord| -> (b: bool) ensures b == counts_for(**r, query_type)
//%closure "|r|"@2
|r: &VpRecord| -> (d: Duration) ensures d.ns == r.ttl as u128 * 1_000_000_000
//%mutant cname_not_counted "|| r.record_type() == RecordType::CNAME" => ""
//%mutant unclamped_lifetime ".clamp(positive_min_ttl, positive_max_ttl)" => ""
//%mutant max_instead_of_query_type "r.record_type() == query_type ||" => ""
//%end
    }
}

} // verus!
fn main() {}
