//%unit decoder
//%features std
use vstd::prelude::*;
verus! {
//%include ../common/decoder.rs
} // verus!
fn main() {}
