//%unit name_zone_of
//%features std
use vstd::prelude::*;
use vstd::std_specs::iter::IteratorSpec;
verus! {
//%include ../common/decoder.rs
//%include ../common/name.rs
//%include ../common/label_iter.rs

// ---- Name::zone_of / zone_of_case (name.rs): "is `name` at or below `self`". This relation is what C11 (zone selection by
//      longest suffix: LowerName::zone_of -> zone_of_case), C19 (bailiwick: is_subzone -> zone_of) and the NSEC code build
//      on; the units of those properties ASSUME it as an uninterpreted suffix relation -- here it is proved for the real code:
//      self's labels are a suffix of name's labels, label by label, under the given label equality. ----
pub open spec fn lower(b: u8) -> u8 { if 0x41 <= b <= 0x5A { (b + 32) as u8 } else { b } }
pub assume_specification [<[u8]>::eq_ignore_ascii_case] (a: &[u8], b: &[u8]) -> (r: bool)
    ensures r == (a@.len() == b@.len() && forall|i: int| 0 <= i < a@.len() ==> lower(a@[i]) == lower(b@[i]));
#[verifier::external_body]
pub fn vp_slice_eq(a: &[u8], b: &[u8]) -> (r: bool) ensures r == (a@ =~= b@) { a == b }
pub open spec fn lab_eq(fold: bool, a: Seq<u8>, b: Seq<u8>) -> bool {
    if fold { a.len() == b.len() && forall|i: int| 0 <= i < a.len() ==> lower(a[i]) == lower(b[i]) } else { a =~= b }
}
// x is a suffix of y, label by label from the right
pub open spec fn labels_suffix(fold: bool, x: Seq<Seq<u8>>, y: Seq<Seq<u8>>) -> bool {
    x.len() <= y.len() && forall|j: int| 0 <= j < x.len() ==> lab_eq(fold, #[trigger] x[x.len() - 1 - j], y[y.len() - 1 - j])
}
pub proof fn lemma_label_slices(n: &Name)
    ensures forall|i: int| label_slice(n, i)@ == n.label(i)
{
    assert forall|i: int| label_slice(n, i)@ == n.label(i) by { lemma_label_slice_view(n, i); }
}
impl Name {
// R-mono: zone_of_with takes the label equality as a `fn` pointer; it is verified at the two instantiations the code base
// uses (zone_of: <[u8]>::eq_ignore_ascii_case, zone_of_case: <[u8]>::eq), the body being the same repository text
//%fn crates/proto/src/rr/domain/name.rs :: impl Name :: zone_of_with
//%rename zone_of_with_ci
//%sub1 ", label_eq: fn(&[u8], &[u8]) -> bool" => "" # R-mono: instantiation label_eq = <[u8]>::eq_ignore_ascii_case
//%sub1 "self.iter() .rev() .zip(name.iter().rev()) .all(|(a, b)| label_eq(a, b))" => "for (a, b) in vp_it: self.iter().rev().zip(name.iter().rev()) invariant xs == self.labels(), ys == name.labels(), xs.len() <= ys.len(), 0 <= vp_it.index@ <= xs.len(), vp_it.snapshot@.remaining().len() == xs.len(), (forall|j: int| 0 <= j < xs.len() ==> (#[trigger] vp_it.snapshot@.remaining()[j]).0@ == xs[xs.len() - 1 - j] && vp_it.snapshot@.remaining()[j].1@ == ys[ys.len() - 1 - j]), (forall|j: int| 0 <= j < vp_it.index@ ==> lab_eq(true, #[trigger] xs[xs.len() - 1 - j], ys[ys.len() - 1 - j])) { let ghost k = vp_it.index@; assert(vp_it.snapshot@.remaining()[k] == (a, b)); if !(a.eq_ignore_ascii_case(b)) { proof { assert(!lab_eq(true, xs[xs.len() - 1 - k], ys[ys.len() - 1 - k])); } return false; } } true" # R-iter: `I.all(|(a, b)| P)` -> the loop it denotes (false at the first pair failing P, true otherwise); P = the instantiated label equality; R-ann: invariants
//%mutant longer_zone_accepted "_ if self_len > name_len => return false," => "_ if self_len > name_len + 1 => return false,"
//%mutant empty_name_in_zone "(_, 0) => return false," => "(_, 0) => return true,"
//%entry
        let ghost xs = self.labels();
        let ghost ys = name.labels();
        proof { reveal(Name::labels); lemma_label_slices(self); lemma_label_slices(name); }
//%contract
        requires self.wf(), name.wf()
        ensures r == labels_suffix(true, self.labels(), name.labels())
//%end
//%fn crates/proto/src/rr/domain/name.rs :: impl Name :: zone_of_with
//%rename zone_of_with_cs
//%sub1 ", label_eq: fn(&[u8], &[u8]) -> bool" => "" # R-mono: instantiation label_eq = <[u8]>::eq
//%sub1 "self.iter() .rev() .zip(name.iter().rev()) .all(|(a, b)| label_eq(a, b))" => "for (a, b) in vp_it: self.iter().rev().zip(name.iter().rev()) invariant xs == self.labels(), ys == name.labels(), xs.len() <= ys.len(), 0 <= vp_it.index@ <= xs.len(), vp_it.snapshot@.remaining().len() == xs.len(), (forall|j: int| 0 <= j < xs.len() ==> (#[trigger] vp_it.snapshot@.remaining()[j]).0@ == xs[xs.len() - 1 - j] && vp_it.snapshot@.remaining()[j].1@ == ys[ys.len() - 1 - j]), (forall|j: int| 0 <= j < vp_it.index@ ==> lab_eq(false, #[trigger] xs[xs.len() - 1 - j], ys[ys.len() - 1 - j])) { let ghost k = vp_it.index@; assert(vp_it.snapshot@.remaining()[k] == (a, b)); if !(vp_slice_eq(a, b)) { proof { assert(!lab_eq(false, xs[xs.len() - 1 - k], ys[ys.len() - 1 - k])); } return false; } } true" # R-iter + R-ann: as above, with <[u8]>::eq
//%entry
        let ghost xs = self.labels();
        let ghost ys = name.labels();
        proof { reveal(Name::labels); lemma_label_slices(self); lemma_label_slices(name); }
//%contract
        requires self.wf(), name.wf()
        ensures r == labels_suffix(false, self.labels(), name.labels())
//%end
//%fn crates/proto/src/rr/domain/name.rs :: impl Name :: zone_of
//%sub1 "self.zone_of_with(name, <[u8]>::eq_ignore_ascii_case)" => "self.zone_of_with_ci(name)" # R-mono
//%contract
        requires self.wf(), name.wf()
        // the zone relation used for bailiwick checks: label-wise suffix, ASCII case ignored and nothing else
        ensures r == labels_suffix(true, self.labels(), name.labels())
//%end
//%fn crates/proto/src/rr/domain/name.rs :: impl Name :: zone_of_case
//%sub1 "self.zone_of_with(name, <[u8]>::eq)" => "self.zone_of_with_cs(name)" # R-mono
//%contract
        requires self.wf(), name.wf()
        ensures r == labels_suffix(false, self.labels(), name.labels())
//%end
}
} // verus!
fn main() {}
