//%unit server_gate
//%features std
//%dropawait
use vstd::prelude::*;
verus! {
// ---- C11 kernel: the pre-catalog gate of ServerContext::handle_request (server/mod.rs) ----
// The gate is an `async fn`; its statements are extracted as statement ranges (R-await: `.await` is
// dropped, the awaited calls are modelled as plain calls that record what they were asked to send).
// What is decided: WHICH single action the gate takes for a request, as a function of what the decoders
// report -- not the I/O itself.

#[derive(Clone, Copy)] pub enum MessageType { Query, Response }
#[derive(Clone, Copy)] pub enum OpCode { Query, Status, Notify, Update, Unknown(u8) }
#[derive(Clone, Copy)] pub enum ResponseCode { NoError, FormErr, NotImp, Refused, BADVERS, Other(u16) }
#[derive(Clone, Copy)] pub enum Protocol { Udp, Tcp }
#[derive(Clone, Copy)] pub struct IpAddr { pub v: u128 }
#[derive(Clone, Copy)] pub struct SocketAddr { pub ip: IpAddr, pub port: u16 }
impl SocketAddr { pub fn ip(&self) -> (r: IpAddr) ensures r == self.ip { self.ip } pub fn port(&self) -> u16 { self.port } }
impl vstd::std_specs::cmp::PartialEqSpecImpl for MessageType { open spec fn obeys_eq_spec() -> bool { true } open spec fn eq_spec(&self, o: &MessageType) -> bool { *self == *o } }
impl PartialEq for MessageType { fn eq(&self, o: &MessageType) -> (r: bool) { match (*self, *o) { (MessageType::Query, MessageType::Query) => true, (MessageType::Response, MessageType::Response) => true, _ => false } } }
#[derive(Clone, Copy)] pub struct Metadata { pub id: u16, pub message_type: MessageType, pub op_code: OpCode }
#[derive(Clone, Copy)] pub struct HeaderCounts { pub queries: u16 }
#[derive(Clone, Copy)] pub struct Header { pub metadata: Metadata, pub counts: HeaderCounts }
pub struct DecodeError { pub v: u64 }
pub struct Bytes { pub v: Vec<u8> }
pub struct BinDecoder<'a> { pub buf: &'a [u8], pub idx: usize }
impl<'a> BinDecoder<'a> {
    pub fn new(b: &'a Bytes) -> (r: Self) ensures r.buf@ == b.v@, r.idx == 0 { BinDecoder { buf: b.v.as_slice(), idx: 0 } }
}
// contracts proved for the real functions in units header_bits / msg_read; here only their shape matters
pub uninterp spec fn vp_header_of(b: Seq<u8>) -> Option<Header>;        // what Header::read returns on these bytes
pub uninterp spec fn vp_queries_ok(b: Seq<u8>) -> bool;                 // whether Queries::read succeeds
pub uninterp spec fn vp_body_ok(b: Seq<u8>) -> bool;                    // whether MessageRequest::read_with_queries succeeds
impl Header {
    #[verifier::external_body]
    pub fn read(d: &mut BinDecoder<'_>) -> (r: Result<Header, DecodeError>)
        ensures final(d).buf@ == old(d).buf@, match r { Ok(h) => vp_header_of(old(d).buf@) == Some(h), Err(_) => vp_header_of(old(d).buf@) is None }
    { unimplemented!() }
}
#[derive(Clone)] pub struct Queries { pub v: u64 }
pub struct LowerQuery { pub v: u64 }
impl Queries {
    #[verifier::external_body]
    pub fn read(d: &mut BinDecoder<'_>, n: usize) -> (r: Result<Queries, DecodeError>)
        ensures final(d).buf@ == old(d).buf@, r is Ok == vp_queries_ok(old(d).buf@)
    { unimplemented!() }
}
impl core::ops::Deref for Queries { type Target = LowerQuery; #[verifier::external_body] fn deref(&self) -> &LowerQuery { unimplemented!() } }
impl Clone for LowerQuery { #[verifier::external_body] fn clone(&self) -> Self { unimplemented!() } }
pub struct MessageRequest { pub metadata: Metadata, pub queries: Queries }
impl MessageRequest {
    #[verifier::external_body]
    pub fn read_with_queries(d: &mut BinDecoder<'_>, q: Queries, h: Header) -> (r: Result<MessageRequest, DecodeError>)
        ensures match r { Ok(m) => vp_body_ok(old(d).buf@) && m.metadata == h.metadata, Err(_) => !vp_body_ok(old(d).buf@) }
    { unimplemented!() }
}
pub struct Request { pub message: MessageRequest, pub raw: Bytes, pub src: SocketAddr, pub protocol: Protocol }
// request_handler.rs: `impl Deref for Request { type Target = MessageRequest; .. &self.message }`
impl core::ops::Deref for Request { type Target = MessageRequest; fn deref(&self) -> (r: &MessageRequest) ensures *r == self.message { &self.message } }
impl Request { pub fn protocol(&self) -> Protocol { self.protocol } pub fn src(&self) -> SocketAddr { self.src } }
pub struct AccessControl { pub v: u64 }
impl AccessControl {
    pub uninterp spec fn allows(&self, ip: IpAddr) -> bool;
    #[verifier::external_body] pub fn allow(&self, ip: IpAddr) -> (r: bool) ensures r == self.allows(ip) { unimplemented!() }
}
// what the gate did with the response handle: every event is one message handed to the client side
pub enum VpEvent { ErrorResponse { id: u16, code: ResponseCode, with_question: bool }, Forwarded { id: u16 } }
pub struct VpHandler { pub events: Vec<VpEvent> }
pub struct ReportingResponseHandler<'h> { pub request_meta: Metadata, pub query: Option<LowerQuery>, pub protocol: Protocol, pub src_addr: SocketAddr, pub handler: &'h mut VpHandler }
pub trait VpDisplay {}
impl VpDisplay for &'static str {}
impl VpDisplay for DecodeError {}
// model of error_response_handler (server/mod.rs): builds an error message from the request header
// (ID echoed) and the question if one was parsed, and sends exactly that one message
pub fn error_response_handler<E: VpDisplay>(protocol: Protocol, src_addr: SocketAddr, header: Header, queries: Option<Queries>, response_code: ResponseCode, error: E, response_handler: &mut VpHandler)
    ensures final(response_handler).events@ == old(response_handler).events@.push(VpEvent::ErrorResponse { id: header.metadata.id, code: response_code, with_question: queries is Some })
{ response_handler.events.push(VpEvent::ErrorResponse { id: header.metadata.id, code: response_code, with_question: queries.is_some() }); }
pub struct TokioTime;
pub struct VpCatalog { pub v: u64 }
impl VpCatalog {
    // the catalog takes over: from here on C11 is the catalog's business (not decided here)
    pub fn handle_request<'h>(&self, request: &Request, reporter: ReportingResponseHandler<'h>)
        ensures final(reporter.handler).events@ == old(reporter.handler).events@.push(VpEvent::Forwarded { id: request.message.metadata.id })
    { reporter.handler.events.push(VpEvent::Forwarded { id: request.message.metadata.id }); }
}
pub struct ServerContext { pub handler: VpCatalog, pub access: AccessControl }

pub open spec fn is_unknown(op: OpCode) -> bool { op is Unknown }
impl ServerContext {
    fn gate(&self, message_bytes: Bytes, src_addr: SocketAddr, protocol: Protocol, response_handler: &mut VpHandler)
        requires old(response_handler).events@.len() == 0
        ensures ({
            let b = message_bytes.v@;
            let ev = final(response_handler).events@;
            match vp_header_of(b) {
                // "messages ... shorter than a header get nothing at all"
                None => ev.len() == 0,
                Some(h) =>
                    // "messages that are themselves responses ... get nothing at all"
                    if h.metadata.message_type is Response { ev.len() == 0 }
                    // otherwise EXACTLY ONE action, carrying the request's ID
                    else if is_unknown(h.metadata.op_code) { ev =~= seq![VpEvent::ErrorResponse { id: h.metadata.id, code: ResponseCode::NotImp, with_question: false }] }   // "unsupported opcodes get NOTIMP"
                    else if !vp_queries_ok(b) { ev =~= seq![VpEvent::ErrorResponse { id: h.metadata.id, code: ResponseCode::FormErr, with_question: false }] }             // "bodies that do not parse get FORMERR"
                    else if !self.access.allows(src_addr.ip) { ev =~= seq![VpEvent::ErrorResponse { id: h.metadata.id, code: ResponseCode::Refused, with_question: true }] } // "REFUSED if ... the source address is denied", question echoed
                    else if !vp_body_ok(b) { ev =~= seq![VpEvent::ErrorResponse { id: h.metadata.id, code: ResponseCode::FormErr, with_question: true }] }
                    else { ev =~= seq![VpEvent::Forwarded { id: h.metadata.id }] },
            }
        })
    {
//%expr crates/server/src/server/mod.rs :: impl<T: RequestHandler> ServerContext<T> :: handle_request :: "let mut decoder = BinDecoder::new(&message_bytes);" ..< "let id = request.message.metadata.id;"
//%mutant responses_processed "if header.metadata.message_type == MessageType::Response { return; }" => ""
//%mutant acl_after_parse "if !self.access.allow(src_addr.ip())" => "if false && !self.access.allow(src_addr.ip())"
//%end
//%expr crates/server/src/server/mod.rs :: impl<T: RequestHandler> ServerContext<T> :: handle_request :: "let query = &*request.message.queries;" .. "let query = &*request.message.queries;"
//%end
//%expr crates/server/src/server/mod.rs :: impl<T: RequestHandler> ServerContext<T> :: handle_request :: "let reporter = ReportingResponseHandler {" .. ".handle_request::<_, TokioTime>(&request, reporter) .await;"
//%sub1 ".handle_request::<_, TokioTime>(&request, reporter)" => ".handle_request(&request, reporter)" # R-sel: generic parameters of the RequestHandler trait method dropped in the model
//%end
    }
}

// ---- Catalog::handle_request (zone_handler/catalog.rs): "EDNS versions above 0 get BADVERS" ----
pub struct Edns { pub version: u8 }
impl Edns { pub fn version(&self) -> (r: u8) ensures r == self.version { self.version } }
// model of catalog.rs::send_error_response: one error message with the request's ID and the given code
pub fn send_error_response(request: &Request, response_code: ResponseCode, resp_edns: Option<&Edns>, response_handle: &mut VpHandler)
    ensures final(response_handle).events@ == old(response_handle).events@.push(VpEvent::ErrorResponse { id: request.message.metadata.id, code: response_code, with_question: true })
{ response_handle.events.push(VpEvent::ErrorResponse { id: request.message.metadata.id, code: response_code, with_question: true }); }
fn edns_version_gate(request: &Request, req_edns: &Edns, resp_edns: Edns, our_version: u8, response_handle: &mut VpHandler) -> (rejected: bool)
    requires old(response_handle).events@.len() == 0, our_version == 0
    ensures
        rejected == (req_edns.version > 0),
        rejected ==> final(response_handle).events@ =~= seq![VpEvent::ErrorResponse { id: request.message.metadata.id, code: ResponseCode::BADVERS, with_question: true }],
        !rejected ==> final(response_handle).events@.len() == 0,
{
//%expr crates/server/src/zone_handler/catalog.rs :: impl RequestHandler for Catalog :: handle_request :: "if req_edns.version() > our_version {" .. ".await; return; }"
//%sub1 "return;" => "return true;" # R-sel: the wrapper reports whether the gate returned early
//%mutant badvers_not_sent "send_error_response( request, ResponseCode::BADVERS, Some(&resp_edns), response_handle, )" => "()"
//%end
    false
}
} // verus!
fn main() {}
