//%unit rrsig_check
//%features std __dnssec dnssec-ring
use vstd::prelude::*;
use core::cmp::Ordering;
verus! {
//%include ../common/serial.rs

// ---- stand-ins for the record types RrsigValidity::check inspects: plain data, one field per
//      accessor the function calls (names/types/algorithms are abstracted to equality classes) ----
// (derived PartialEq has no Verus spec, so equality on the stand-ins is written out and proved to be
//  structural equality)
#[derive(Clone, Copy)] pub struct Name(pub u64, pub u8);          // (identity, num_labels)
#[derive(Clone, Copy)] pub struct RecordType(pub u16);
#[derive(Clone, Copy)] pub struct Algorithm(pub u8);
#[derive(Clone, Copy)] pub enum DNSClass { IN, CH, HS, NONE, ANY, OPT(u16), Unknown(u16) }
impl vstd::std_specs::cmp::PartialEqSpecImpl for Name { open spec fn obeys_eq_spec() -> bool { true } open spec fn eq_spec(&self, o: &Name) -> bool { *self == *o } }
impl PartialEq for Name { fn eq(&self, o: &Name) -> (r: bool) { self.0 == o.0 && self.1 == o.1 } }
impl vstd::std_specs::cmp::PartialEqSpecImpl for RecordType { open spec fn obeys_eq_spec() -> bool { true } open spec fn eq_spec(&self, o: &RecordType) -> bool { *self == *o } }
impl PartialEq for RecordType { fn eq(&self, o: &RecordType) -> (r: bool) { self.0 == o.0 } }
impl vstd::std_specs::cmp::PartialEqSpecImpl for Algorithm { open spec fn obeys_eq_spec() -> bool { true } open spec fn eq_spec(&self, o: &Algorithm) -> bool { *self == *o } }
impl PartialEq for Algorithm { fn eq(&self, o: &Algorithm) -> (r: bool) { self.0 == o.0 } }
impl vstd::std_specs::cmp::PartialEqSpecImpl for DNSClass { open spec fn obeys_eq_spec() -> bool { true } open spec fn eq_spec(&self, o: &DNSClass) -> bool { *self == *o } }
impl PartialEq for DNSClass {
    fn eq(&self, o: &DNSClass) -> (r: bool) {
        match (*self, *o) {
            (DNSClass::IN, DNSClass::IN) => true, (DNSClass::CH, DNSClass::CH) => true, (DNSClass::HS, DNSClass::HS) => true,
            (DNSClass::NONE, DNSClass::NONE) => true, (DNSClass::ANY, DNSClass::ANY) => true,
            (DNSClass::OPT(a), DNSClass::OPT(b)) => a == b, (DNSClass::Unknown(a), DNSClass::Unknown(b)) => a == b, _ => false,
        }
    }
}
pub struct LowerName(pub Name);
impl core::ops::Deref for LowerName { type Target = Name; fn deref(&self) -> (r: &Name) ensures *r == self.0 { &self.0 } }
impl Name { pub fn num_labels(&self) -> (r: u8) ensures r == self.1 { self.1 } }
//%struct crates/proto/src/dnssec/rdata/sig.rs :: SigInput
//%end
//%struct crates/proto/src/dnssec/rdata/sig.rs :: SIG
//%end
impl SIG {
//%fn crates/proto/src/dnssec/rdata/sig.rs :: impl SIG :: input
//%contract
        ensures *r == self.input
//%end
}
//%struct crates/proto/src/dnssec/rdata/rrsig.rs :: RRSIG
//%end
impl core::ops::Deref for RRSIG {
    type Target = SIG;
//%fn crates/proto/src/dnssec/rdata/rrsig.rs :: impl Deref for RRSIG :: deref
//%contract
        ensures *r == self.0
//%end
}
//%struct crates/proto/src/rr/rr_key.rs :: RrKey
//%end
impl RrKey {
//%fn crates/proto/src/rr/rr_key.rs :: impl RrKey :: name
//%contract
        ensures *r == self.name
//%end
}
pub struct DNSKEY { pub flags: u16, pub algorithm: Algorithm, pub vp_key_tag: Option<u16> }
pub enum ProtoError { Other }
impl DNSKEY {
//%fn crates/proto/src/dnssec/rdata/dnskey.rs :: impl DNSKEY :: zone_key
//%contract
        // RFC 4034 2.1.1: bit 7 of the flags field is the Zone Key flag
        ensures r == (self.flags & 0x0100 != 0)
//%end
//%fn crates/proto/src/dnssec/rdata/dnskey.rs :: impl DNSKEY :: secure_entry_point
//%contract
        ensures r == (self.flags & 0x0001 != 0)
//%end
//%fn crates/proto/src/dnssec/rdata/dnskey.rs :: impl DNSKEY :: revoke
//%contract
        ensures r == (self.flags & 0x0080 != 0)
//%end
    pub fn algorithm(&self) -> (r: Algorithm) ensures r == self.algorithm { self.algorithm }
    // assumed contract: the key tag is a function of the DNSKEY RDATA (RFC 4034 appendix B)
    #[verifier::external_body]
    pub fn calculate_key_tag(&self) -> (r: Result<u16, ProtoError>)
        ensures match r { Ok(t) => self.vp_key_tag == Some(t), Err(_) => self.vp_key_tag is None }
    { unimplemented!() }
}
pub struct Record { pub dns_class: DNSClass, pub ttl: u32 }
impl<'a, R> Clone for RecordRef<'a, R> { fn clone(&self) -> (r: Self) ensures r == *self { *self } }
impl<'a, R> Copy for RecordRef<'a, R> {}
pub struct RecordRef<'a, R> { pub name: &'a Name, pub dns_class: DNSClass, pub ttl: u32, pub data: &'a R }
impl<'a, R> RecordRef<'a, R> {
    pub fn name(&self) -> (r: &Name) ensures *r == *self.name { self.name }
    pub fn data(&self) -> (r: &R) ensures r == self.data { self.data }
}
// net/src/dnssec/mod.rs: `struct Rrset<'a> { records: Vec<&'a mut Record>, signatures: .. }`; the
// check only reads the records, so the stand-in stores shared references
pub struct Rrset<'a> { pub records: Vec<&'a Record> }

#[derive(Clone, Copy)]
//%enum crates/net/src/dnssec/mod.rs :: RrsigValidity
//%end

impl RrsigValidity {
//%fn crates/net/src/dnssec/mod.rs :: impl RrsigValidity :: check
//%contract
        // C06 / RFC 4035 5.3.1: ValidRrsig is returned ONLY IF every one of these holds
        ensures r == RrsigValidity::ValidRrsig ==> {
            &&& *rrsig.name == key.name.0                                                // same owner name
            &&& rrsig.data.0.input.type_covered == key.record_type                       // type covered == RRset type
            &&& key.name.0.1 >= rrsig.data.0.input.num_labels                            // Labels not above the owner's label count
            &&& serial_le(current_time, rrsig.data.0.input.sig_expiration.0)             // now <= expiration (RFC 1982)
            &&& serial_le(rrsig.data.0.input.sig_inception.0, current_time)              // inception <= now (RFC 1982)
            &&& rrsig.data.0.input.signer_name == *dnskey.name                           // signer == DNSKEY owner
            &&& rrsig.data.0.input.algorithm == dnskey.data.algorithm                    // algorithm matches
            &&& dnskey.data.vp_key_tag == Some(rrsig.data.0.input.key_tag)               // key tag matches
            &&& dnskey.data.flags & 0x0100 != 0                                          // zone-key flag set
            &&& forall|i: int| 0 <= i < rrset.records@.len() ==> (#[trigger] rrset.records@[i]).dns_class == DNSClass::IN   // class IN
        }
//%after "for record in"
            vp_it:
//%after "for record in rrset.records.iter()"
            invariant forall|i: int| 0 <= i < vp_it.index@ ==> (#[trigger] rrset.records@[i]).dns_class == DNSClass::IN
//%mutant expiry_not_checked "current_time <= sig_input.sig_expiration &&" => ""
//%mutant plain_u32_time "let current_time = SerialNumber::new(current_time);" => "let current_time = SerialNumber::new(current_time); let sig_input = rrsig.data().input(); if current_time.0 <= sig_input.sig_expiration.0 && current_time.0 >= sig_input.sig_inception.0 && *rrsig.name() == **key.name() && sig_input.type_covered == key.record_type && key.name.num_labels() >= sig_input.num_labels && &sig_input.signer_name == dnskey.name() && sig_input.algorithm == dnskey.data().algorithm() && sig_input.key_tag == dnskey_key_tag && dnskey.data().zone_key() { return Self::ValidRrsig; }"
//%mutant zone_flag_not_required "dnskey.data().zone_key()" => "true"
//%mutant labels_reversed "key.name.num_labels() >= sig_input.num_labels" => "key.name.num_labels() <= sig_input.num_labels"
//%end
}


// ---- verify_rrset_with_dnskey: key-state tests, then RrsigValidity::check, then the signature ----
//%enum crates/proto/src/dnssec/proof.rs :: Proof
//%sub? "Secure = 3" => "Secure" # R-sel: explicit discriminants dropped (never read by the extracted code)
//%sub? "Insecure = 2" => "Insecure" # R-sel
//%sub? "Bogus = 1" => "Bogus" # R-sel
//%sub? "Indeterminate = 0" => "Indeterminate" # R-sel
//%end
pub struct VpMsg;                       // R-fmt: stands for a formatted error message (text not modelled)
pub fn vp_msg() -> VpMsg { VpMsg }
// the variants of error.rs::ProofErrorKind that this function constructs (payloads are never inspected)
pub enum ProofErrorKind {
    InsecureDnsKey { name: Name, key_tag: u16 },
    DnsKeyRevoked { name: Name, key_tag: u16 },
    NotZoneDnsKey { name: Name, key_tag: u16 },
    AlgorithmMismatch { rrsig: Algorithm, dnskey: Algorithm },
    DnsKeyVerifyRrsig { name: Name, key_tag: u16, error: ProtoError },
    Msg(VpMsg),
}
pub struct ProofError { pub proof: Proof, pub kind: ProofErrorKind }
impl ProofError {
    // error.rs::ProofError::new boxes the kind; the box is irrelevant here
    pub fn new(proof: Proof, kind: ProofErrorKind) -> (r: Self)
        ensures r.proof == proof,
    { let e = ProofError { proof, kind }; e }
}
impl<'a, R> RecordRef<'a, R> {
    pub fn dns_class(&self) -> (r: DNSClass) ensures r == self.dns_class { self.dns_class }
}
// the cryptographic step: opaque.  vp_sig_ok says "the signature verifies over exactly this RRset
// with this key"; nothing about cryptographic strength is claimed.
pub uninterp spec fn vp_sig_ok(k: DNSKEY, name: Name, sig: RRSIG) -> bool;
impl DNSKEY {
    #[verifier::external_body]
    pub fn verify_rrsig<'a, I: Iterator<Item = &'a Record>>(&self, name: &LowerName, dns_class: DNSClass, sig: &RRSIG, records: I) -> (r: Result<(), ProtoError>)
        ensures r is Ok ==> vp_sig_ok(*self, name.0, *sig)
    { unimplemented!() }
}

//%fn crates/net/src/dnssec/mod.rs :: fn verify_rrset_with_dnskey
//%contract
    // C06: "marked Secure by signature checking only if the RRSIG was made with the private key of
    // a zone-key, non-revoked DNSKEY whose owner, algorithm and key tag match the RRSIG ... while the
    // validator's clock is within [inception, expiration]"
    ensures r matches Ok((Proof::Secure, ttl)) ==> {
        &&& dnskey_proof is Secure                                             // the key itself was validated
        &&& dnskey.data.flags & 0x0080 == 0                                    // not revoked (RFC 5011)
        &&& dnskey.data.flags & 0x0100 != 0                                    // zone key
        &&& dnskey.data.algorithm == rrsig.data.0.input.algorithm
        &&& dnskey.data.vp_key_tag == Some(rrsig.data.0.input.key_tag)
        &&& rrsig.data.0.input.signer_name == *dnskey.name
        &&& *rrsig.name == key.name.0
        &&& rrsig.data.0.input.type_covered == key.record_type
        &&& key.name.0.1 >= rrsig.data.0.input.num_labels
        &&& serial_le(current_time, rrsig.data.0.input.sig_expiration.0)
        &&& serial_le(rrsig.data.0.input.sig_inception.0, current_time)
        &&& rrsig.dns_class == DNSClass::IN
        &&& vp_sig_ok(*dnskey.data, key.name.0, *rrsig.data)
        &&& rrset.records@.len() > 0
        // accepted records never carry a TTL longer than the remaining signature lifetime
        &&& ttl matches Some(t) && t <= rrset.records@[0].ttl && t <= rrsig.data.0.input.original_ttl
            && t as int <= (if rrsig.data.0.input.sig_expiration.0 >= current_time { rrsig.data.0.input.sig_expiration.0 - current_time } else { 0 })
    }
//%sub1 "ProofErrorKind::Msg(format!(\"{validity:?}\"))" => "ProofErrorKind::Msg(vp_msg())" # R-fmt
//%sub1 "ProofErrorKind::Msg(\"RRSIG record has unsupported class\".to_string())" => "ProofErrorKind::Msg(vp_msg())" # R-fmt
//%closure "|record|"
|record: &&Record| -> (o: &Record)
//%mutant revoke_only_for_sep "if dnskey.data().revoke()" => "if dnskey.data().flags & 1 != 0 && dnskey.data().revoke()"
//%mutant insecure_key_accepted "Proof::Secure => ()," => "Proof::Secure | Proof::Insecure => (),"
//%end

impl RRSIG {
//%fn crates/proto/src/dnssec/rdata/rrsig.rs :: impl RRSIG :: authenticated_ttl
//%contract
        // C06: "accepted records never carry a TTL longer than the remaining signature lifetime"
        ensures r <= record.ttl, r <= self.0.input.original_ttl,
            r as int <= (if self.0.input.sig_expiration.0 >= current_time { self.0.input.sig_expiration.0 - current_time } else { 0 }),
//%mutant lifetime_from_inception "saturating_sub(current_time)" => "saturating_sub(current_time.min(self.input.sig_inception.0))"
//%end
}
// ---- the validator's clock (expression-level extraction from the async fn verify_response): the u64 seconds of the
//      runtime clock enter RrsigValidity::check as a 32-bit serial number, i.e. modulo 2^32 (RFC 4034 3.1.5 / RFC 1982).
//      C06 quantifies over "all clock values ... incl. u32 wrap": a saturating or failing conversion would pin the
//      clock at one value after 2106 and make a signature window containing it valid forever. ----
fn validator_clock(vp_now: u64) -> (current_time: u32)
    ensures current_time as u64 == vp_now % 0x1_0000_0000u64
{
//%expr crates/net/src/dnssec/mod.rs :: impl<H: DnsHandle> DnssecDnsHandle<H> :: verify_response :: "let current_time =" .. ";"
//%sub1 "<H::Runtime as RuntimeProvider>::Timer::current_time()" => "vp_now" # R-shim: the runtime's clock read (seconds since the epoch, u64) is the wrapper's parameter
//%mutant clock_narrowed "as u32" => "as u16 as u32"
//%end
    assert(current_time as u64 == vp_now % 0x1_0000_0000u64) by (bit_vector) requires current_time == vp_now as u32;
    current_time
}

// ---- the validation cache (expression-level extraction from ValidationCache::insert): how long a verdict is kept.
//      C06: "... never yields Secure -- also not via a previously cached verdict -- and accepted records never carry a TTL
//      longer than the remaining signature lifetime."  The verdict's `adjusted_ttl` is min(TTL, original TTL, expiration -
//      now) at validation time (authenticated_ttl above); a Secure verdict may therefore be kept for at most that long. ----
#[derive(Clone, Copy)] pub struct Duration { pub secs: u64 }
impl Duration {
    pub fn from_secs(s: u64) -> (r: Duration) ensures r.secs == s { Duration { secs: s } }
    // Ord::clamp (panics if min > max: configuration precondition)
    pub fn clamp(self, min: Duration, max: Duration) -> (r: Duration)
        requires min.secs <= max.secs
        ensures r.secs == (if self.secs < min.secs { min.secs } else if self.secs > max.secs { max.secs } else { self.secs })
    { if self.secs < min.secs { min } else if self.secs > max.secs { max } else { self } }
}
pub struct VpCacheRecord { pub ttl: u32 }
pub struct VpRrsetProof { pub proof: Proof, pub adjusted_ttl: Option<u32>, pub rrsig_index: Option<usize> }
fn validation_cache_lifetime(first_record: &VpCacheRecord, verdict: &Result<VpRrsetProof, ProofError>, min: Duration, max: Duration) -> (r: Duration)
    requires min.secs <= max.secs
    ensures
        // without configured bounds (min = 0, max = u64::MAX) a Secure verdict is not kept beyond the signature's remaining lifetime
        (min.secs == 0 && max.secs == u64::MAX) ==> (match *verdict { Ok(p) => (match p.adjusted_ttl { Some(t) => r.secs <= t, None => true }), Err(_) => true }),
{
//%expr crates/net/src/dnssec/mod.rs :: impl ValidationCache :: insert :: "Duration::from_secs(first_record.ttl.into()).clamp(min, max)" .. "Duration::from_secs(first_record.ttl.into()).clamp(min, max)"
//%sub1 "first_record.ttl.into()" => "first_record.ttl as u64" # R-shim: Into::into u32 -> u64
//%end
}

} // verus!
fn main() {}
