//%unit nsec_kernels
//%features std __dnssec dnssec-ring
use vstd::prelude::*;
verus! {
// ---- C08 kernels (crates/net/src/dnssec/mod.rs): when does a set of NSEC records entail a denial?
//      "read per RFC 4035 section 5.4 and RFC 6840 section 4".  Names are opaque points of the canonical order
//      (RFC 4034 6.1; that Name::cmp IS that order is proved in unit name_order) with an uninterpreted
//      "is a strict subdomain of" relation.  From the RFCs, not from the code:
//        covers(owner, next, t)   : owner < t < next, or next is the apex (last NSEC of the chain) and owner < t
//        ancestor_delegation(rec) : NS bit set, SOA bit clear  (the PARENT's NSEC at a zone cut)
//        RFC 6840 4.1: an ancestor-delegation NSEC (or one with the DNAME bit) "MUST NOT be used to assume
//        non-existence of any RRs below that zone cut": at its owner name it proves only the absence of DS,
//        and it never covers a name below its owner. ----
pub struct Name { pub id: u64 }
impl vstd::std_specs::cmp::PartialEqSpecImpl for Name { open spec fn obeys_eq_spec() -> bool { true } open spec fn eq_spec(&self, o: &Name) -> bool { self.id == o.id } }
impl PartialEq for Name { fn eq(&self, o: &Name) -> (r: bool) { self.id == o.id } }
impl vstd::std_specs::cmp::PartialOrdSpecImpl for Name {
    open spec fn obeys_partial_cmp_spec() -> bool { true }
    open spec fn partial_cmp_spec(&self, o: &Name) -> Option<core::cmp::Ordering> {
        if self.id < o.id { Some(core::cmp::Ordering::Less) } else if self.id == o.id { Some(core::cmp::Ordering::Equal) } else { Some(core::cmp::Ordering::Greater) } }
}
impl PartialOrd for Name {
    fn partial_cmp(&self, o: &Name) -> (r: Option<core::cmp::Ordering>) {
        if self.id < o.id { Some(core::cmp::Ordering::Less) } else if self.id == o.id { Some(core::cmp::Ordering::Equal) } else { Some(core::cmp::Ordering::Greater) } }
}
pub uninterp spec fn strictly_below(t: Name, owner: Name) -> bool;      // t is a proper subdomain of owner
#[derive(Clone, Copy)] pub enum RecordType { CNAME, DS, NS, SOA, Unknown(u16) }      // DNAME is Unknown(39) in this code base
impl vstd::std_specs::cmp::PartialEqSpecImpl for RecordType { open spec fn obeys_eq_spec() -> bool { true } open spec fn eq_spec(&self, o: &RecordType) -> bool { *self == *o } }
impl PartialEq for RecordType {
    fn eq(&self, o: &RecordType) -> (r: bool) { match (*self, *o) { (RecordType::CNAME, RecordType::CNAME) => true, (RecordType::DS, RecordType::DS) => true,
        (RecordType::NS, RecordType::NS) => true, (RecordType::SOA, RecordType::SOA) => true, (RecordType::Unknown(a), RecordType::Unknown(b)) => a == b, _ => false } }
}
pub struct RecordTypeSet { pub vp: u64 }
pub uninterp spec fn type_in(s: RecordTypeSet, t: RecordType) -> bool;
impl RecordTypeSet { #[verifier::external_body] pub fn contains(&self, t: RecordType) -> (r: bool) ensures r == type_in(*self, t) { unimplemented!() } }
pub struct NSEC { pub next: Name, pub types: RecordTypeSet }
impl NSEC {
    pub fn next_domain_name(&self) -> (r: &Name) ensures *r == self.next { &self.next }
    pub fn type_set(&self) -> (r: &RecordTypeSet) ensures *r == self.types { &self.types }
}
pub open spec fn ancestor_delegation(n: NSEC) -> bool { type_in(n.types, RecordType::NS) && !type_in(n.types, RecordType::SOA) }
// RFC 6840 4.1: may this NSEC be used to deny the existence of the name t?
pub open spec fn usable_below(owner: Name, n: NSEC, t: Name) -> bool {
    !((ancestor_delegation(n) || type_in(n.types, RecordType::Unknown(39))) && strictly_below(t, owner))
}
pub open spec fn nsec_covers(owner: Name, n: NSEC, t: Name, apex: Option<Name>) -> bool {
    owner.id < t.id && (t.id < n.next.id || apex == Some(n.next))
}
#[verifier::external_body]
pub fn vp_opt_name_eq(a: Option<&Name>, b: Option<&Name>) -> (r: bool)
    ensures r == (match (a, b) { (Some(x), Some(y)) => x.id == y.id, (None, None) => true, _ => false })
{ unimplemented!() }
pub open spec fn deref_opt(o: Option<&Name>) -> Option<Name> { match o { Some(n) => Some(*n), None => None } }
// `nsecs.iter().copied().find(f)`: first element with f true, specified through the closure's own contract
#[verifier::external_body]
pub fn vp_find_copied<'a, F: Fn(&(&'a Name, &'a NSEC)) -> bool>(s: &[(&'a Name, &'a NSEC)], f: F) -> (r: Option<(&'a Name, &'a NSEC)>)
    requires forall|i: int| 0 <= i < s@.len() ==> call_requires(f, (&#[trigger] s@[i],))
    ensures match r {
        Some(x) => exists|i: int| 0 <= i < s@.len() && x == #[trigger] s@[i] && call_ensures(f, (&s@[i],), true),
        None => forall|i: int| 0 <= i < s@.len() ==> call_ensures(f, (&#[trigger] s@[i],), false) }
{ s.iter().copied().find(f) }

//%fn crates/net/src/dnssec/mod.rs :: is_ancestor_delegation
//%contract
    ensures r == ancestor_delegation(*nsec)
//%end
pub uninterp spec fn below_or_equal(t: Name, owner: Name) -> bool;
impl Name {
    // Name::zone_of (zone_of_with: label-wise suffix test, not under contract): `self` is `t` or an ancestor of `t`
    #[verifier::external_body]
    pub fn zone_of(&self, t: &Name) -> (r: bool) ensures r == below_or_equal(*t, *self), (r && t.id != self.id) == strictly_below(*t, *self) { unimplemented!() }
}
//%fn crates/net/src/dnssec/mod.rs :: find_nsec_covering_record
//%sub1 "nsecs.iter().copied().find(" => "vp_find_copied(nsecs, " # R-shim: slice iterator `copied().find`, specified through the closure's contract
//%sub1 "Some(next_domain_name) == soa_name" => "vp_opt_name_eq(Some(next_domain_name), soa_name)" # R-shim: PartialEq on Option<&Name>
//%mutant F10_delegation_nsec_covers_child_names "&& !(nsec_name.zone_of(test_name) && (is_ancestor_delegation(nsec_data) || nsec_data.type_set().contains(RecordType::Unknown(39))))" => ""
//%mutant dname_bit_ignored "|| nsec_data.type_set().contains(RecordType::Unknown(39))" => ""
//%mutant upper_bound_dropped "test_name < next_domain_name ||" => "true ||"
//%closure "|(nsec_name, nsec_data)|"
|vp_p: &(&'a Name, &'a NSEC)| -> (b: bool)
    ensures
        // RFC 4034 4.1.1 / RFC 4035 5.4: the record covers the name in canonical order
        b ==> nsec_covers(*vp_p.0, *vp_p.1, *test_name, deref_opt(soa_name)),
        !b ==> !(nsec_covers(*vp_p.0, *vp_p.1, *test_name, deref_opt(soa_name)) && usable_below(*vp_p.0, *vp_p.1, *test_name)),
        // RFC 6840 4.1: ... and is not an ancestor-delegation / DNAME record used for a name below its owner
        b ==> usable_below(*vp_p.0, *vp_p.1, *test_name),
@body: let (nsec_name, nsec_data) = vp_p;
//%contract
    ensures match r {
        Some((owner, rec)) => nsec_covers(*owner, *rec, *test_name, deref_opt(soa_name)) && usable_below(*owner, *rec, *test_name)
            && exists|i: int| 0 <= i < nsecs@.len() && (owner, rec) == #[trigger] nsecs@[i],
        None => forall|i: int| 0 <= i < nsecs@.len() ==> !(nsec_covers(*(#[trigger] nsecs@[i]).0, *nsecs@[i].1, *test_name, deref_opt(soa_name)) && usable_below(*nsecs@[i].0, *nsecs@[i].1, *test_name)) }
//%end

// ---- no_closer_matches (RFC 4035 5.3.4: for a wildcard-expanded answer, no closer match than the wildcard exists):
//      every wildcard `*.a`, for each proper ancestor `a` of the query name that is deeper than the wildcard's own
//      parent, must be covered by an NSEC.  Names are opaque; `parent`/`labels`/`star_of` are uninterpreted, and the only
//      arithmetic fact used is that base_name() of a non-root name has one label less (termination). ----
pub uninterp spec fn parent(n: Name) -> Name;
pub uninterp spec fn nlabels(n: Name) -> u8;        // Name::num_labels (a leading `*` is not counted)
pub uninterp spec fn star_of(n: Name) -> Name;      // *.n
// the k-th proper ancestor of n (k = 1: its parent)
pub open spec fn ancestor(n: Name, k: nat) -> Name decreases k { if k == 0 { n } else { parent(ancestor(n, (k - 1) as nat)) } }
pub struct ProtoError { pub vp: u64 }
impl Name {
    #[verifier::external_body]
    pub fn base_name(&self) -> (r: Name) ensures r == parent(*self), nlabels(*self) > 0 ==> nlabels(r) < nlabels(*self), nlabels(*self) == 0 ==> nlabels(r) == 0 { unimplemented!() }
    #[verifier::external_body]
    pub fn num_labels(&self) -> (r: u8) ensures r == nlabels(*self) { unimplemented!() }
    // Name::prepend_label("*"): fails only when the result would be too long
    #[verifier::external_body]
    pub fn prepend_label(&self, l: &str) -> (r: Result<Name, ProtoError>) ensures r matches Ok(w) ==> w == star_of(*self) { unimplemented!() }
}
pub open spec fn some_usable_cover(nsecs: Seq<(&Name, &NSEC)>, t: Name, apex: Option<Name>) -> bool {
    exists|i: int| 0 <= i < nsecs.len() && nsec_covers(*(#[trigger] nsecs[i]).0, *nsecs[i].1, t, apex) && usable_below(*nsecs[i].0, *nsecs[i].1, t)
}
//%fn crates/net/src/dnssec/mod.rs :: no_closer_matches
//%attr #[verifier::loop_isolation(false)]
//%before "while name.num_labels() > wildcard_base_name.num_labels()"
    let ghost mut vp_k: nat = 1;
    proof { reveal_with_fuel(ancestor, 2); assert(ancestor(*query_name, 1) == parent(*query_name)); }
//%before "{ let Ok(wildcard) = name.prepend_label"
        invariant
            vp_k >= 1, name == ancestor(*query_name, vp_k),
            // every wildcard at an ancestor passed so far is covered
            forall|j: nat| 1 <= j < vp_k ==> some_usable_cover(nsecs@, star_of(#[trigger] ancestor(*query_name, j)), deref_opt(soa)),
        decreases nlabels(name)
//%before "name = name.base_name();"
        proof {
            assert(wildcard == star_of(ancestor(*query_name, vp_k)));
            assert(some_usable_cover(nsecs@, star_of(ancestor(*query_name, vp_k)), deref_opt(soa)));
            reveal_with_fuel(ancestor, 2);
            assert(ancestor(*query_name, vp_k + 1) == parent(ancestor(*query_name, vp_k)));
            vp_k = vp_k + 1;
        }
//%contract
    // C08: `true` only if a wildcard base name was identified and, for every proper ancestor of the query name that has
    // more labels than it, the wildcard at that ancestor is covered by a usable NSEC
    ensures r ==> wildcard_base_name is Some
        && forall|j: nat| j >= 1 && nlabels(ancestor(*query_name, j)) > nlabels(*wildcard_base_name.unwrap())
            && (forall|i: nat| 1 <= i < j ==> nlabels(#[trigger] ancestor(*query_name, i)) > nlabels(*wildcard_base_name.unwrap()))
            ==> some_usable_cover(nsecs@, star_of(#[trigger] ancestor(*query_name, j)), deref_opt(soa)),
//%mutant closer_wildcards_not_checked "find_nsec_covering_record(soa, &wildcard, nsecs).is_none()" => "false"
//%end

// ---- verify_nsec, the direct-match case (statement-range extraction): an NSEC whose owner IS the query name ----
//%enum crates/proto/src/dnssec/proof.rs :: Proof
//%end
#[derive(Clone, Copy)] pub enum ResponseCode { NoError, NXDomain, Other(u16) }
impl vstd::std_specs::cmp::PartialEqSpecImpl for ResponseCode { open spec fn obeys_eq_spec() -> bool { true } open spec fn eq_spec(&self, o: &ResponseCode) -> bool { *self == *o } }
impl PartialEq for ResponseCode {
    fn eq(&self, o: &ResponseCode) -> (r: bool) { match (*self, *o) { (ResponseCode::NoError, ResponseCode::NoError) => true, (ResponseCode::NXDomain, ResponseCode::NXDomain) => true, (ResponseCode::Other(a), ResponseCode::Other(b)) => a == b, _ => false } }
}
pub struct Query { pub name: Name, pub query_type: RecordType }
// the `nsec1_yield` closure of verify_nsec (-> proof_log_yield): logs and returns its first argument
pub fn nsec1_yield(p: Proof, msg: &str) -> (r: Proof) ensures r == p { p }
// `nsecs.iter().find(|(name, _)| &query.name == *name)`
#[verifier::external_body]
pub fn vp_find_owner<'s, 'a>(s: &'s [(&'a Name, &'a NSEC)], q: &Name) -> (r: Option<&'s (&'a Name, &'a NSEC)>)
    ensures match r {
        Some(x) => x.0.id == q.id && exists|i: int| 0 <= i < s@.len() && *x == #[trigger] s@[i],
        None => forall|i: int| 0 <= i < s@.len() ==> (#[trigger] s@[i]).0.id != q.id }
{ unimplemented!() }
fn direct_match_case<'a>(query: &Query, response_code: ResponseCode, have_answer: bool, nsecs: &[(&'a Name, &'a NSEC)]) -> (r: Option<Proof>)
    ensures
        // C08 / RFC 4035 5.4 + RFC 6840 4.1: a NODATA answer is Secure on the strength of the NSEC at the query name only
        // if the response is NOERROR without answers, the NSEC has neither the query type nor CNAME, and -- when it is
        // the parent's NSEC at a zone cut (NS without SOA) -- the query type is DS
        r == Some(Proof::Secure) ==> response_code is NoError && !have_answer
            && exists|i: int| 0 <= i < nsecs@.len() && (#[trigger] nsecs@[i]).0.id == query.name.id
                && !type_in(nsecs@[i].1.types, query.query_type) && !type_in(nsecs@[i].1.types, RecordType::CNAME),
        // RFC 6840 4.1: the parent's NSEC at a zone cut proves only the absence of DS
        r == Some(Proof::Secure) && !(query.query_type is DS) ==> exists|i: int| 0 <= i < nsecs@.len() && (#[trigger] nsecs@[i]).0.id == query.name.id
                && !type_in(nsecs@[i].1.types, query.query_type) && !type_in(nsecs@[i].1.types, RecordType::CNAME) && !ancestor_delegation(*nsecs@[i].1),
        // without an NSEC at the query name this case does not decide
        (forall|i: int| 0 <= i < nsecs@.len() ==> (#[trigger] nsecs@[i]).0.id != query.name.id) ==> r is None,
{
//%expr crates/net/src/dnssec/mod.rs :: verify_nsec :: "if let Some((_, nsec_data)) = nsecs.iter().find(" .. "}; }"
//%sub1 "nsecs.iter().find(|(name, _)| &query.name == *name)" => "vp_find_owner(nsecs, &query.name)" # R-shim: slice iterator `find` with a tuple-pattern closure comparing the owner with the query name
//%sub1 "return if" => "return Some(if" # wrapper: the range's `return` leaves verify_nsec with a verdict -> Some(verdict)
//%sub1 "}; }" => "}); }" # wrapper (closing half)
//%mutant F9_delegation_nsec_proves_nodata "query.query_type != RecordType::DS && is_ancestor_delegation(nsec_data)" => "false"
//%mutant answers_allowed "response_code == ResponseCode::NoError && !have_answer" => "response_code == ResponseCode::NoError"
//%mutant cname_bit_ignored "|| nsec_data.type_set().contains(RecordType::CNAME)" => ""
//%end
    None
}

} // verus!
fn main() {}
