// R-for support: the language-defined desugaring of `for` calls IntoIterator::into_iter; the callers
// of emit_iter pass slices / arrays / slice iterators.  ASSUMED caller contract: the iterator obeys
// the iterator laws and is finite.
pub uninterp spec fn vp_items<T>(t: T) -> nat;   // how many items IntoIterator::into_iter(t) will yield
#[verifier::external_body]
pub fn vp_into_iter<T: IntoIterator>(t: T) -> (r: T::IntoIter)
    ensures r.obeys_prophetic_iter_laws(), r.decrease() is Some, r.remaining().len() == vp_items(t) < usize::MAX
{ t.into_iter() }

// assumed fact about core::ops::Range<usize>: `a..b` yields b - a items
#[verifier::external_body]
pub proof fn axiom_items_range(a: usize, b: usize)
    requires a <= b
    ensures vp_items(a..b) == b - a
{}
