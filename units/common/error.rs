// ---- fragment: ProtoError / ProtoResult ----
//%enum crates/proto/src/error.rs :: ProtoError
//%sub1 "FormError { header: Metadata, error: Box<Self>, }," => "" # R-sel: variant with payload types outside the unit (never constructed by extracted code)
//%sub1 "UrlParsing(#[from] url::ParseError)," => "" # R-sel: external crate payload
//%sub1 "Utf8(#[from] core::str::Utf8Error)," => "" # R-sel: std error payload outside Verus
//%sub1 "FromUtf8(#[from] alloc::string::FromUtf8Error)," => "" # R-sel
//%sub1 "ParseInt(#[from] ParseIntError)," => "" # R-sel
//%end
pub type ProtoResult<T> = Result<T, ProtoError>;

// model of thiserror's #[from] on ProtoError::Decode (generated code: wraps the value)
impl vstd::std_specs::convert::FromSpecImpl<DecodeError> for ProtoError {
    open spec fn obeys_from_spec() -> bool { true }
    open spec fn from_spec(e: DecodeError) -> Self { ProtoError::Decode(e) }
}
impl From<DecodeError> for ProtoError {
    fn from(e: DecodeError) -> (r: Self) { ProtoError::Decode(e) }
}
