// ---- fragment: SerialNumber with its real PartialOrd, proved against RFC 1982 section 3.2 ----
pub open spec fn serial_lt(i1: u32, i2: u32) -> bool {
    (i1 < i2 && i2 - i1 < 0x8000_0000) || (i1 > i2 && i1 - i2 > 0x8000_0000)
}
pub open spec fn serial_le(i1: u32, i2: u32) -> bool { i1 == i2 || serial_lt(i1, i2) }
pub open spec fn serial_cmp(a: u32, b: u32) -> Option<core::cmp::Ordering> {
    if a == b { Some(core::cmp::Ordering::Equal) } else if serial_lt(a, b) { Some(core::cmp::Ordering::Less) }
    else if serial_lt(b, a) { Some(core::cmp::Ordering::Greater) } else { None }
}
#[derive(Clone, Copy, PartialEq, Eq)]
//%struct crates/proto/src/rr/serial_number.rs :: SerialNumber
//%end
impl SerialNumber {
//%fn crates/proto/src/rr/serial_number.rs :: impl SerialNumber :: new
//%contract
        ensures r.0 == value
//%end
//%fn crates/proto/src/rr/serial_number.rs :: impl SerialNumber :: get
//%contract
        ensures r == self.0
//%end
}
// the comparison operators (`<=`, `>=`, ...) on SerialNumber get their meaning from this impl
impl vstd::std_specs::cmp::PartialOrdSpecImpl for SerialNumber {
    open spec fn obeys_partial_cmp_spec() -> bool { true }
    open spec fn partial_cmp_spec(&self, other: &SerialNumber) -> Option<core::cmp::Ordering> { serial_cmp(self.0, other.0) }
}
impl PartialOrd for SerialNumber {
//%fn crates/proto/src/rr/serial_number.rs :: impl PartialOrd for SerialNumber :: partial_cmp
//%sub "Ordering" => "core::cmp::Ordering" # R-sel: path made explicit
//%before "let i1 = self.0;"
        assert(SERIAL_BITS_HALF == 0x8000_0000u32) by (compute);
//%end
}
