// ---- fragment: OpCode / ResponseCode / Header wire layout (RFC 1035 4.1.1, RFC 2535 AD/CD, RFC 6891 extended RCODE) ----
#[derive(Clone, Copy, PartialEq, Eq)]
//%enum crates/proto/src/op/op_code.rs :: OpCode
//%end
#[derive(Clone, Copy, PartialEq, Eq)]
//%enum crates/proto/src/op/response_code.rs :: ResponseCode
//%end
#[derive(Clone, Copy, PartialEq, Eq)]
//%enum crates/proto/src/op/header.rs :: MessageType
//%end
#[derive(Clone, Copy)]
//%struct crates/proto/src/op/header.rs :: Metadata
//%end
#[derive(Clone, Copy)]
//%struct crates/proto/src/op/header.rs :: HeaderCounts
//%end
#[derive(Clone, Copy)]
//%struct crates/proto/src/op/header.rs :: Header
//%end
impl core::ops::Deref for Header {
    type Target = Metadata;
//%fn crates/proto/src/op/header.rs :: impl Deref for Header :: deref
//%contract
        ensures *r == self.metadata
//%end
}

// numeric value of an opcode / rcode, from the IANA tables quoted in the source
pub open spec fn opcode_val(op: OpCode) -> u8 {
    match op { OpCode::Query => 0, OpCode::Status => 2, OpCode::Notify => 4, OpCode::Update => 5, OpCode::Unknown(v) => v }
}
// an opcode value that fits the 4-bit header field, in its canonical enum representation
pub open spec fn opcode_ok(op: OpCode) -> bool {
    opcode_val(op) < 16 && (op matches OpCode::Unknown(v) ==> v != 0 && v != 2 && v != 4 && v != 5)
}
pub open spec fn rcode_val(c: ResponseCode) -> u16 {
    match c {
        ResponseCode::NoError => 0, ResponseCode::FormErr => 1, ResponseCode::ServFail => 2, ResponseCode::NXDomain => 3,
        ResponseCode::NotImp => 4, ResponseCode::Refused => 5, ResponseCode::YXDomain => 6, ResponseCode::YXRRSet => 7,
        ResponseCode::NXRRSet => 8, ResponseCode::NotAuth => 9, ResponseCode::NotZone => 10,
        ResponseCode::BADVERS => 16, ResponseCode::BADSIG => 16, ResponseCode::BADKEY => 17, ResponseCode::BADTIME => 18,
        ResponseCode::BADMODE => 19, ResponseCode::BADNAME => 20, ResponseCode::BADALG => 21, ResponseCode::BADTRUNC => 22,
        ResponseCode::BADCOOKIE => 23, ResponseCode::Unknown(v) => v,
    }
}
// a 12-bit rcode in canonical representation (BADVERS shares code 16 with BADSIG on the wire and
// always decodes as BADSIG: protocol-level aliasing, recorded as an observation)
pub open spec fn rcode_ok(c: ResponseCode) -> bool {
    rcode_val(c) < 4096 && c != ResponseCode::BADVERS && (c matches ResponseCode::Unknown(v) ==> (11 <= v <= 15 || v >= 24))
}

impl vstd::std_specs::convert::FromSpecImpl<OpCode> for u8 {
    open spec fn obeys_from_spec() -> bool { true }
    open spec fn from_spec(op: OpCode) -> Self { opcode_val(op) }
}
impl From<OpCode> for u8 {
//%fn crates/proto/src/op/op_code.rs :: impl From<OpCode> for u8 :: from
//%end
}
impl OpCode {
//%fn crates/proto/src/op/op_code.rs :: impl OpCode :: from_u8
//%contract
        ensures opcode_val(r) == value, value < 16 ==> opcode_ok(r),
            forall|op: OpCode| opcode_ok(op) && opcode_val(op) == value ==> r == op,
//%end
}
impl vstd::std_specs::convert::FromSpecImpl<ResponseCode> for u16 {
    open spec fn obeys_from_spec() -> bool { true }
    open spec fn from_spec(c: ResponseCode) -> Self { rcode_val(c) }
}
impl From<ResponseCode> for u16 {
//%fn crates/proto/src/op/response_code.rs :: impl From<ResponseCode> for u16 :: from
//%end
}
pub open spec fn rcode_of(v: u16) -> ResponseCode {
    if v == 0 { ResponseCode::NoError } else if v == 1 { ResponseCode::FormErr } else if v == 2 { ResponseCode::ServFail }
    else if v == 3 { ResponseCode::NXDomain } else if v == 4 { ResponseCode::NotImp } else if v == 5 { ResponseCode::Refused }
    else if v == 6 { ResponseCode::YXDomain } else if v == 7 { ResponseCode::YXRRSet } else if v == 8 { ResponseCode::NXRRSet }
    else if v == 9 { ResponseCode::NotAuth } else if v == 10 { ResponseCode::NotZone } else if v == 16 { ResponseCode::BADSIG }
    else if v == 17 { ResponseCode::BADKEY } else if v == 18 { ResponseCode::BADTIME } else if v == 19 { ResponseCode::BADMODE }
    else if v == 20 { ResponseCode::BADNAME } else if v == 21 { ResponseCode::BADALG } else if v == 22 { ResponseCode::BADTRUNC }
    else if v == 23 { ResponseCode::BADCOOKIE } else { ResponseCode::Unknown(v) }
}
impl vstd::std_specs::convert::FromSpecImpl<u16> for ResponseCode {
    open spec fn obeys_from_spec() -> bool { true }
    open spec fn from_spec(v: u16) -> Self { rcode_of(v) }
}
impl From<u16> for ResponseCode {
//%fn crates/proto/src/op/response_code.rs :: impl From<u16> for ResponseCode :: from
//%end
}
pub proof fn lemma_rcode_roundtrip(c: ResponseCode, v: u16)
    ensures rcode_ok(c) ==> rcode_of(rcode_val(c)) == c,
        rcode_val(rcode_of(v)) == v, v < 4096 ==> rcode_ok(rcode_of(v)),
{}
impl ResponseCode {
//%fn crates/proto/src/op/response_code.rs :: impl ResponseCode :: low
//%contract
        ensures r == rcode_val(self) & 0x000F, r < 16
//%entry
        let ghost v = rcode_val(self);
        assert(((v & 0x000F) as u8) < 16 && (v & 0x000F) as u8 == (v & 0x000F)) by (bit_vector);
//%end
//%fn crates/proto/src/op/response_code.rs :: impl ResponseCode :: high
//%contract
        ensures r == (rcode_val(self) & 0x0FF0) >> 4
//%entry
        let ghost v = rcode_val(self);
        assert((((v & 0x0FF0) >> 4) as u8) == ((v & 0x0FF0) >> 4)) by (bit_vector);
//%end
//%fn crates/proto/src/op/response_code.rs :: impl ResponseCode :: from_low
//%contract
        ensures r == rcode_of((low as u16) & 0x000F)
//%end
//%fn crates/proto/src/op/response_code.rs :: impl ResponseCode :: from
//%contract
        // C02: "extended rcode split between header and OPT" recombines to the original 12-bit code
        ensures r == rcode_of(((high as u16) << 4) | ((low as u16) & 0x000F))
//%end
}
// splitting a 12-bit rcode into (high 8, low 4) and recombining is the identity
pub proof fn lemma_rcode_split(c: ResponseCode)
    requires rcode_ok(c)
    ensures rcode_of(((((rcode_val(c) & 0x0FF0) >> 4) as u8 as u16) << 4) | (((rcode_val(c) & 0x000F) as u8 as u16) & 0x000F)) == c
{
    let v = rcode_val(c);
    assert(v < 4096 ==> ((((v & 0x0FF0) >> 4) as u8 as u16) << 4) | (((v & 0x000F) as u8 as u16) & 0x000F) == v) by (bit_vector);
    lemma_rcode_roundtrip(c, v);
}

impl Metadata {
//%fn crates/proto/src/op/header.rs :: impl Metadata :: merge_response_code
//%contract
        ensures final(self).response_code == rcode_of(((high_response_code as u16) << 4) | ((rcode_val(old(self).response_code) & 0x000F) as u16 & 0x000F)),
            final(self).id == old(self).id, final(self).op_code == old(self).op_code, final(self).truncation == old(self).truncation,
//%end
}

// ---- the 12 header octets, from RFC 1035 4.1.1 (+ AD/CD of RFC 2535/4035) ----
pub open spec fn hdr_b2(m: Metadata) -> u8 {
    ((if m.message_type == MessageType::Response { 0x80u8 } else { 0u8 })
     | (opcode_val(m.op_code) << 3)
     | (if m.authoritative { 0x04u8 } else { 0u8 }) | (if m.truncation { 0x02u8 } else { 0u8 }) | (if m.recursion_desired { 0x01u8 } else { 0u8 }))
}
pub open spec fn hdr_b3(m: Metadata) -> u8 {
    ((if m.recursion_available { 0x80u8 } else { 0u8 }) | (if m.authentic_data { 0x20u8 } else { 0u8 })
     | (if m.checking_disabled { 0x10u8 } else { 0u8 }) | ((rcode_val(m.response_code) & 0x000F) as u8))
}
// `zmask` = 0xFF when writing (the reserved Z bit is written as 0), 0xBF when reading (Z is ignored)
pub open spec fn hdr_bytes_at(h: Header, b: Seq<u8>, o: int, zmask: u8) -> bool {
    &&& be16(b[o], b[o + 1]) == h.metadata.id
    &&& b[o + 2] == hdr_b2(h.metadata)
    &&& b[o + 3] & zmask == hdr_b3(h.metadata)
    &&& be16(b[o + 4], b[o + 5]) == h.counts.queries
    &&& be16(b[o + 6], b[o + 7]) == h.counts.answers
    &&& be16(b[o + 8], b[o + 9]) == h.counts.authorities
    &&& be16(b[o + 10], b[o + 11]) == h.counts.additionals
}

impl BinEncodable for Header {
    open spec fn in_place_ok() -> bool { true }
//%fn crates/proto/src/op/header.rs :: impl BinEncodable for Header :: emit
//%attr #[verifier::rlimit(80)]
//%attr #[verifier::spinoff_prover]
//%contract
        ensures final(encoder).name_pointers == old(encoder).name_pointers,
            // C02/C03: exactly the 12 octets of RFC 1035 4.1.1 are written at the old offset
            r is Ok ==> final(encoder).offset == old(encoder).offset + 12,
            r is Ok ==> hdr_bytes_at(*self, final(encoder).bytes(), old(encoder).offset as int, 0xFF),
            r is Ok ==> final(encoder).bytes().len() == (if old(encoder).offset + 12 > old(encoder).bytes().len() { old(encoder).offset + 12 } else { old(encoder).bytes().len() as int }),
            r is Ok ==> (forall|i: int| old(encoder).offset + 12 <= i < old(encoder).bytes().len() ==> final(encoder).bytes()[i] == old(encoder).bytes()[i]),
            r is Err ==> old(encoder).offset + 12 > old(encoder).max(),
//%entry
        let ghost o = old(encoder).offset as int;
//%after "self.id.emit(encoder)?;"
        assert(encoder.offset == o + 2 && be16(encoder.bytes()[o], encoder.bytes()[o + 1]) == self.metadata.id);
//%before "r_z_ad_cd_rcod.emit(encoder)?;"
        assert(encoder.offset == o + 3 && be16(encoder.bytes()[o], encoder.bytes()[o + 1]) == self.metadata.id && encoder.bytes()[o + 2] == hdr_b2(self.metadata));
        proof { let x = r_z_ad_cd_rcod; assert(x & 0xFF == x) by (bit_vector); }
        let ghost vp_b3 = r_z_ad_cd_rcod;
        assert(vp_b3 & 0xFF == hdr_b3(self.metadata));
//%before "self.counts.queries.emit(encoder)?;"
        assert(encoder.offset == o + 4 && be16(encoder.bytes()[o], encoder.bytes()[o + 1]) == self.metadata.id && encoder.bytes()[o + 2] == hdr_b2(self.metadata)
            && encoder.bytes()[o + 3] == vp_b3);
//%before "self.counts.answers.emit(encoder)?;"
        assert(encoder.offset == o + 6 && be16(encoder.bytes()[o], encoder.bytes()[o + 1]) == self.metadata.id && encoder.bytes()[o + 2] == hdr_b2(self.metadata)
            && encoder.bytes()[o + 3] == vp_b3 && be16(encoder.bytes()[o + 4], encoder.bytes()[o + 5]) == self.counts.queries);
//%before "self.counts.authorities.emit(encoder)?;"
        assert(encoder.offset == o + 8 && be16(encoder.bytes()[o], encoder.bytes()[o + 1]) == self.metadata.id && encoder.bytes()[o + 2] == hdr_b2(self.metadata)
            && encoder.bytes()[o + 3] == vp_b3 && be16(encoder.bytes()[o + 4], encoder.bytes()[o + 5]) == self.counts.queries
            && be16(encoder.bytes()[o + 6], encoder.bytes()[o + 7]) == self.counts.answers);
//%before "self.counts.additionals.emit(encoder)?;"
        assert(encoder.offset == o + 10 && be16(encoder.bytes()[o], encoder.bytes()[o + 1]) == self.metadata.id && encoder.bytes()[o + 2] == hdr_b2(self.metadata)
            && encoder.bytes()[o + 3] == vp_b3 && be16(encoder.bytes()[o + 4], encoder.bytes()[o + 5]) == self.counts.queries
            && be16(encoder.bytes()[o + 6], encoder.bytes()[o + 7]) == self.counts.answers && be16(encoder.bytes()[o + 8], encoder.bytes()[o + 9]) == self.counts.authorities);
//%mutant tc_bit_wrong "if self.truncation { 0x2 }" => "if self.truncation { 0x4 }"
//%mutant rcode_high_leak "self.response_code.low()" => "self.response_code.high()"
//%end
}
//%impl crates/proto/src/op/header.rs :: impl EncodedSize for Header
//%end
