// ---- fragment: LabelIter (iterator over the labels of a Name) against vstd's prophetic iterator protocol ----
//%struct crates/proto/src/rr/domain/name.rs :: LabelIter
//%novis
//%end

// the slice value that denotes label i of a name (slices are values in Verus: equal views <=> equal slices)
pub open spec fn label_slice<'a>(n: &'a Name, i: int) -> &'a [u8] {
    choose|s: &'a [u8]| s@ == n.label(i)
}
pub proof fn lemma_label_slice(n: &Name, i: int, w: &[u8])
    requires w@ =~= n.label(i)
    ensures w == label_slice(n, i), label_slice(n, i)@ == n.label(i)
{
    let c = label_slice(n, i);
    assert(c@ == n.label(i));
    assert(w@ =~= c@);
    assert(w =~= c);
}

// trusted, benign: every finite octet sequence is the view of some slice value (slices are
// mathematical values in Verus; needed to name "the slice of label i" before it has been produced)
#[verifier::external_body]
pub proof fn axiom_slice_exists(s: Seq<u8>)
    ensures exists|w: &[u8]| w@ == s
{}
pub proof fn lemma_label_slice_view(n: &Name, i: int)
    ensures label_slice(n, i)@ == n.label(i)
{
    axiom_slice_exists(n.label(i));
}

impl<'a> LabelIter<'a> {
    // trait methods cannot take `requires`, so well-formedness of the iterator is a type invariant,
    // established where Name::iter constructs the value
    #[verifier::type_invariant]
    pub closed spec fn inv(self) -> bool { self.name.wf() && self.end as int <= self.name.nlabels() }
    pub closed spec fn count(&self) -> nat { (if self.start < self.end { self.end - self.start } else { 0 }) as nat }
    pub closed spec fn rem(&self) -> Seq<&'a [u8]> {
        Seq::new(self.count(), |i: int| label_slice(self.name, self.start + i))
    }
}
impl<'a> vstd::std_specs::iter::IteratorSpecImpl for LabelIter<'a> {
    open spec fn obeys_prophetic_iter_laws(&self) -> bool { true }
    closed spec fn remaining(&self) -> Seq<Self::Item> { self.rem() }
    open spec fn will_return_none(&self) -> bool { true }
    closed spec fn peek(&self, i: int) -> Option<Self::Item> { if 0 <= i < self.count() { Some(self.rem()[i]) } else { None } }
    closed spec fn decrease(&self) -> Option<nat> { Some(self.count()) }
}

impl<'a> Iterator for LabelIter<'a> {
    type Item = &'a [u8];
//%fn crates/proto/src/rr/domain/name.rs :: impl<'a> Iterator for LabelIter<'a> :: next
//%tail
        proof {
            let o = *old(self);
            lemma_label_slice(o.name, o.start as int, vp_ret->Some_0);
            assert(self.rem() =~= o.rem().drop_first());
        }
//%entry
        proof { use_type_invariant(&*self); }
//%end
}

impl<'a> vstd::std_specs::iter::DoubleEndedIteratorSpecImpl for LabelIter<'a> {
    closed spec fn peek_back(&self, i: int) -> Option<Self::Item> { if 0 <= i < self.count() { Some(self.rem()[self.count() - 1 - i]) } else { None } }
}
impl<'a> DoubleEndedIterator for LabelIter<'a> {
//%fn crates/proto/src/rr/domain/name.rs :: impl DoubleEndedIterator for LabelIter<'_> :: next_back
//%tail
        proof {
            let o = *old(self);
            lemma_label_slice(o.name, o.end as int - 1, vp_ret->Some_0);
            assert(self.rem() =~= o.rem().drop_last());
        }
//%entry
        proof { use_type_invariant(&*self); }
//%end
}

impl Name {
//%fn crates/proto/src/rr/domain/name.rs :: impl Name :: iter
//%contract
        requires self.wf()
        ensures r.rem() =~= Seq::new(self.nlabels() as nat, |i: int| label_slice(self, i)),
//%end
}
