// ---- fragment: BinDecoder + Restrict + DecodeError under contract (included by several units) ----
// Abstraction: buf() = the whole packet, idx() = read position, wf() = `remaining` is the suffix of
// `buffer` at idx().  Every method keeps wf and buf, and states exactly how idx moves.

pub open spec fn be16(a: u8, b: u8) -> int { (a as int) * 256 + (b as int) }
pub open spec fn be32(a: u8, b: u8, c: u8, d: u8) -> int {
    (a as int) * 16777216 + (b as int) * 65536 + (c as int) * 256 + (d as int)
}

// R-shim: std integer conversions that vstd cannot name (assumed specs of core, listed in trusted_base)
#[verifier::external_body]
pub fn vp_u16_from_be_bytes(b: [u8; 2]) -> (r: u16)
    ensures r as int == be16(b[0], b[1])
{ u16::from_be_bytes(b) }
#[verifier::external_body]
pub fn vp_u32_from_be_bytes(b: [u8; 4]) -> (r: u32)
    ensures r as int == be32(b[0], b[1], b[2], b[3])
{ u32::from_be_bytes(b) }
#[verifier::external_body]
pub fn vp_i32_from_be_bytes(b: [u8; 4]) -> (r: i32)
    ensures r as int == (if be32(b[0], b[1], b[2], b[3]) >= 0x8000_0000 { be32(b[0], b[1], b[2], b[3]) - 0x1_0000_0000 } else { be32(b[0], b[1], b[2], b[3]) })
{ i32::from_be_bytes(b) }
#[verifier::external_body]
pub fn vp_slice_to_owned(s: &[u8]) -> (r: Vec<u8>)
    ensures r@ == s@
{ s.to_owned() }

#[derive(Clone, Copy)]
//%struct crates/proto/src/serialize/binary/restrict.rs :: Restrict
//%end

impl<T> Restrict<T> {
//%fn crates/proto/src/serialize/binary/restrict.rs :: impl<T> Restrict<T> :: new
//%contract
        ensures r.0 == restricted
//%end
//%fn crates/proto/src/serialize/binary/restrict.rs :: impl<T> Restrict<T> :: verify_unwrap
//%contract
        requires f.requires((&self.0,))
        ensures match r { Ok(t) => t == self.0 && f.ensures((&self.0,), true), Err(t) => t == self.0 && f.ensures((&self.0,), false) }
//%end
//%fn crates/proto/src/serialize/binary/restrict.rs :: impl<T> Restrict<T> :: unverified
//%contract
        ensures r == self.0
//%end
//%fn crates/proto/src/serialize/binary/restrict.rs :: impl<T> Restrict<T> :: map
//%contract
        requires f.requires((self.0,))
        ensures f.ensures((self.0,), r.0)
//%end
}

//%enum crates/proto/src/serialize/binary/decoder.rs :: DecodeError
//%sub1 "EdnsNameNotRoot(Box<Name>)," => "" # R-sel: variant payload type (Name) outside this fragment
//%sub1 "RecordNotInAdditionalSection(RecordType)," => "RecordNotInAdditionalSection(u16)," # R-sel: payload RecordType replaced by its u16 code (payload never inspected)
//%sub1 "Utf8(#[from] alloc::string::FromUtf8Error)," => "" # R-sel: std error payload type outside Verus
//%end

//%struct crates/proto/src/serialize/binary/decoder.rs :: BinDecoder
//%end

impl<'a> BinDecoder<'a> {
    pub open spec fn wf(&self) -> bool {
        self.remaining@.len() <= self.buffer@.len()
        && self.remaining@ =~= self.buffer@.subrange(self.buffer@.len() - self.remaining@.len(), self.buffer@.len() as int)
    }
    pub open spec fn buf(&self) -> Seq<u8> { self.buffer@ }
    pub open spec fn idx(&self) -> int { self.buffer@.len() - self.remaining@.len() }

//%fn crates/proto/src/serialize/binary/decoder.rs :: impl<'a> BinDecoder<'a> :: new
//%contract
        ensures r.wf(), r.buf() == buffer@, r.idx() == 0
//%end

//%fn crates/proto/src/serialize/binary/decoder.rs :: impl<'a> BinDecoder<'a> :: pop
//%contract
        requires old(self).wf()
        ensures final(self).wf(), final(self).buf() == old(self).buf(),
          match r { Ok(v) => old(self).idx() < old(self).buf().len() && final(self).idx() == old(self).idx() + 1 && v.0 == old(self).buf()[old(self).idx()],
                    Err(_) => old(self).idx() == old(self).buf().len() && final(self).idx() == old(self).idx() }
//%end

//%fn crates/proto/src/serialize/binary/decoder.rs :: impl<'a> BinDecoder<'a> :: len
//%contract
        requires self.wf()
        ensures r == self.buf().len() - self.idx()
//%end

//%fn crates/proto/src/serialize/binary/decoder.rs :: impl<'a> BinDecoder<'a> :: is_empty
//%contract
        requires self.wf()
        ensures r == (self.idx() == self.buf().len())
//%end

//%fn crates/proto/src/serialize/binary/decoder.rs :: impl<'a> BinDecoder<'a> :: peek
//%contract
        requires self.wf()
        ensures match r { Some(v) => self.idx() < self.buf().len() && v.0 == self.buf()[self.idx()], None => self.idx() == self.buf().len() }
//%end

//%fn crates/proto/src/serialize/binary/decoder.rs :: impl<'a> BinDecoder<'a> :: index
//%contract
        requires self.wf()
        ensures r == self.idx()
//%end

//%fn crates/proto/src/serialize/binary/decoder.rs :: impl<'a> BinDecoder<'a> :: clone
//%contract
        requires self.wf(), index_at as int <= self.buf().len()
        ensures r.wf(), r.buf() == self.buf(), r.idx() == index_at
//%end

//%fn crates/proto/src/serialize/binary/decoder.rs :: impl<'a> BinDecoder<'a> :: read_character_data
//%contract
        requires old(self).wf()
        ensures final(self).wf(), final(self).buf() == old(self).buf(),
            final(self).idx() >= old(self).idx(),
            match r { Ok(v) => old(self).idx() < old(self).buf().len()
                            && v.0@.len() == old(self).buf()[old(self).idx()]
                            && final(self).idx() == old(self).idx() + 1 + v.0@.len()
                            && v.0@ =~= old(self).buf().subrange(old(self).idx() + 1, old(self).idx() + 1 + v.0@.len()),
                      // it fails only when the packet is too short for the length octet or for the octets it announces
                      Err(_) => old(self).idx() == old(self).buf().len()
                            || old(self).idx() + 1 + old(self).buf()[old(self).idx()] > old(self).buf().len() }
//%end

//%fn crates/proto/src/serialize/binary/decoder.rs :: impl<'a> BinDecoder<'a> :: read_vec
//%contract
        requires old(self).wf()
        ensures final(self).wf(), final(self).buf() == old(self).buf(),
            match r { Ok(v) => final(self).idx() == old(self).idx() + len && v.0@ =~= old(self).buf().subrange(old(self).idx(), old(self).idx() + len),
                      Err(_) => final(self).idx() == old(self).idx() }
//%sub1 "self.read_slice(len).map(|s| s.map(ToOwned::to_owned))" => "match self.read_slice(len) { Ok(s) => Ok(s.map(|x: &[u8]| -> (o: Vec<u8>) ensures o@ == x@ { vp_slice_to_owned(x) })), Err(e) => Err(e) }" # R-shim: Result::map + ToOwned::to_owned path (not nameable in vstd) -> explicit match + shim
//%end

//%fn crates/proto/src/serialize/binary/decoder.rs :: impl<'a> BinDecoder<'a> :: read_vec_to_end
//%contract
        requires old(self).wf()
        ensures final(self).wf(), final(self).buf() == old(self).buf(), final(self).idx() == old(self).buf().len(),
            r.0@ =~= old(self).buf().subrange(old(self).idx(), old(self).buf().len() as int)
//%sub1 "self.remaining.to_owned()" => "vp_slice_to_owned(self.remaining)" # R-shim
//%end

//%fn crates/proto/src/serialize/binary/decoder.rs :: impl<'a> BinDecoder<'a> :: read_slice
//%contract
        requires old(self).wf()
        ensures final(self).wf(), final(self).buf() == old(self).buf(),
            match r { Ok(v) => final(self).idx() == old(self).idx() + len && v.0@ =~= old(self).buf().subrange(old(self).idx(), old(self).idx() + len),
                      Err(_) => final(self).idx() == old(self).idx() && old(self).idx() + len > old(self).buf().len() }
//%mutant off_by_one "len > self.remaining.len()" => "len > self.remaining.len() + 1"
//%end

//%fn crates/proto/src/serialize/binary/decoder.rs :: impl<'a> BinDecoder<'a> :: split_off
//%contract
        requires old(self).wf()
        ensures final(self).wf(), final(self).buf() == old(self).buf(),
            match r { Ok(d) => final(self).idx() == old(self).idx() + length
                            && d.wf() && d.idx() == old(self).idx()
                            && d.buf() =~= old(self).buf().subrange(0, old(self).idx() + length),
                      Err(_) => final(self).idx() == old(self).idx() && old(self).idx() + length > old(self).buf().len() }
//%before "let decoder = Self"
        assert(length <= self.remaining@.len());
        assert(self.wf());
        assert(self.buffer@.len() == self.buffer.len() <= usize::MAX);
        assert(self.idx() + length <= self.buffer@.len());
//%end

//%fn crates/proto/src/serialize/binary/decoder.rs :: impl<'a> BinDecoder<'a> :: slice_from
//%contract
        requires self.wf()
        ensures match r { Ok(s) => index <= self.idx() && s@ =~= self.buf().subrange(index as int, self.idx()), Err(_) => index > self.idx() }
//%end

//%fn crates/proto/src/serialize/binary/decoder.rs :: impl<'a> BinDecoder<'a> :: read_u8
//%contract
        requires old(self).wf()
        ensures final(self).wf(), final(self).buf() == old(self).buf(),
          match r { Ok(v) => old(self).idx() < old(self).buf().len() && final(self).idx() == old(self).idx() + 1 && v.0 == old(self).buf()[old(self).idx()],
                    Err(_) => old(self).idx() == old(self).buf().len() && final(self).idx() == old(self).idx() }
//%end

//%fn crates/proto/src/serialize/binary/decoder.rs :: impl<'a> BinDecoder<'a> :: read_u16
//%contract
        requires old(self).wf()
        ensures final(self).wf(), final(self).buf() == old(self).buf(),
            match r { Ok(v) => final(self).idx() == old(self).idx() + 2
                         && v.0 as int == be16(old(self).buf()[old(self).idx()], old(self).buf()[old(self).idx() + 1]),
                      Err(_) => final(self).idx() == old(self).idx() && old(self).idx() + 2 > old(self).buf().len() }
//%closure "|s|"
|s: &[u8]| -> (o: u16) requires s@.len() == 2 ensures o as int == be16(s@[0], s@[1])
//%sub1 "u16::from_be_bytes" => "vp_u16_from_be_bytes" # R-shim
//%end

//%fn crates/proto/src/serialize/binary/decoder.rs :: impl<'a> BinDecoder<'a> :: read_i32
//%contract
        requires old(self).wf()
        ensures final(self).wf(), final(self).buf() == old(self).buf(),
            match r { Ok(v) => final(self).idx() == old(self).idx() + 4,
                      Err(_) => final(self).idx() == old(self).idx() && old(self).idx() + 4 > old(self).buf().len() }
//%closure "|s|"
|s: &[u8]| -> (o: i32) requires s@.len() == 4
//%sub1 "i32::from_be_bytes" => "vp_i32_from_be_bytes" # R-shim
//%end

//%fn crates/proto/src/serialize/binary/decoder.rs :: impl<'a> BinDecoder<'a> :: read_u32
//%contract
        requires old(self).wf()
        ensures final(self).wf(), final(self).buf() == old(self).buf(),
            match r { Ok(v) => final(self).idx() == old(self).idx() + 4
                         && v.0 as int == be32(old(self).buf()[old(self).idx()], old(self).buf()[old(self).idx() + 1], old(self).buf()[old(self).idx() + 2], old(self).buf()[old(self).idx() + 3]),
                      Err(_) => final(self).idx() == old(self).idx() && old(self).idx() + 4 > old(self).buf().len() }
//%closure "|s|"
|s: &[u8]| -> (o: u32) requires s@.len() == 4 ensures o as int == be32(s@[0], s@[1], s@[2], s@[3])
//%sub1 "u32::from_be_bytes" => "vp_u32_from_be_bytes" # R-shim
//%end
}
