// ---- fragment: MaximalBuf + BinEncoder + Rollback + Place under contract ----
// Abstraction: bytes() = physical buffer, offset = logical end of message, max() = hard limit.
// wf: offset <= |bytes| <= max <= 65535, every compression candidate starts below offset.

// trusted fact about Rust slices (allocation size limit), needed only to rule out usize overflow
// in `offset + data.len()`:
#[verifier::external_body]
pub proof fn axiom_slice_len_isize(s: &[u8])
    ensures s@.len() <= isize::MAX
{}

// R-shim: `dst[a..b].copy_from_slice(src)` (IndexMut<Range> + copy_from_slice are outside vstd)
#[verifier::external_body]
pub fn vp_copy_into(dst: &mut Vec<u8>, start: usize, end: usize, src: &[u8])
    requires start <= end <= old(dst)@.len(), src@.len() == end - start
    ensures final(dst)@.len() == old(dst)@.len(),
        forall|i: int| 0 <= i < old(dst)@.len() ==> final(dst)@[i] == (if start <= i < end { src@[i - start] } else { old(dst)@[i] })
{ dst[start..end].copy_from_slice(src) }

//%struct crates/proto/src/serialize/binary/encoder.rs :: MaximalBuf
//%end

impl<'a> MaximalBuf<'a> {
    pub open spec fn bytes(&self) -> Seq<u8> { self.buffer@ }
    pub open spec fn max(&self) -> int { self.max_size as int }
    pub open spec fn wf(&self) -> bool { self.bytes().len() <= self.max() <= 0xFFFF }

//%fn crates/proto/src/serialize/binary/encoder.rs :: impl<'a> MaximalBuf<'a> :: new
//%contract
            requires old(buffer)@.len() <= max_size
            ensures r.bytes() == old(buffer)@, r.max() == max_size, r.wf(),
                *final(r.buffer) == *final(buffer),     // the struct holds THIS reference: what is written through it is what the caller's Vec ends up with
//%end

//%fn crates/proto/src/serialize/binary/encoder.rs :: impl<'a> MaximalBuf<'a> :: set_max_size
//%contract
            requires old(self).bytes().len() <= max
            ensures final(self).bytes() == old(self).bytes(), final(self).max() == max, final(self).wf()
//%end

//%fn crates/proto/src/serialize/binary/encoder.rs :: impl<'a> MaximalBuf<'a> :: write
//%contract
            requires old(self).wf(), offset <= old(self).bytes().len()
            ensures final(self).max() == old(self).max(), final(self).wf(),
                match r {
                    Ok(_) => offset + data@.len() <= old(self).max()
                        && final(self).bytes().len() == (if offset + data@.len() > old(self).bytes().len() { offset + data@.len() } else { old(self).bytes().len() as int })
                        && (forall|i: int| 0 <= i < final(self).bytes().len() ==> final(self).bytes()[i] ==
                               (if offset <= i < offset + data@.len() { data@[i - offset] } else if i < old(self).bytes().len() { old(self).bytes()[i] } else { 0u8 })),
                    Err(e) => final(self).bytes() == old(self).bytes() && offset + data@.len() > old(self).max()
                        && e == ProtoError::MaxBufferSizeExceeded(old(self).max_size),
                }
//%sub1 "debug_assert!(offset <= self.buffer.len());" => "assert(offset <= self.buffer@.len()); proof { axiom_slice_len_isize(data); }" # R-ann: the debug_assert becomes a proof obligation (discharged from the precondition)
//%sub1 "self.buffer.extend(data);" => "self.buffer.extend_from_slice(data);" # R-shim: Extend<&u8> for Vec<u8> == extend_from_slice (not nameable in vstd)
//%sub "self.buffer[offset..end].copy_from_slice(data);" => "vp_copy_into(self.buffer, offset, end, data);" # R-shim
//%mutant limit_off_by_one "offset + data.len() > self.max_size" => "offset + data.len() > self.max_size + 1"
//%end

//%fn crates/proto/src/serialize/binary/encoder.rs :: impl<'a> MaximalBuf<'a> :: reserve
//%contract
            requires old(self).wf(), offset <= old(self).bytes().len(), len <= 0xFFFF
            ensures final(self).max() == old(self).max(), final(self).wf(),
                match r {
                    Ok(_) => offset + len <= old(self).max() && final(self).bytes().len() == offset + len
                        && (forall|i: int| 0 <= i < offset ==> final(self).bytes()[i] == old(self).bytes()[i]),
                    Err(e) => final(self).bytes() == old(self).bytes() && offset + len > old(self).max()
                        && e == ProtoError::MaxBufferSizeExceeded(old(self).max_size),
                }
//%end

//%fn crates/proto/src/serialize/binary/encoder.rs :: impl<'a> MaximalBuf<'a> :: truncate
//%contract
            requires old(self).wf()
            ensures final(self).max() == old(self).max(), final(self).wf(),
               final(self).bytes() =~= (if len <= old(self).bytes().len() { old(self).bytes().subrange(0, len as int) } else { old(self).bytes() })
//%end

//%fn crates/proto/src/serialize/binary/encoder.rs :: impl<'a> MaximalBuf<'a> :: len
//%contract
            ensures r == self.bytes().len()
//%end
}

#[derive(Clone, Copy)]
//%enum crates/proto/src/serialize/binary/encoder.rs :: NameEncoding
//%end
#[derive(Clone, Copy)]
//%enum crates/proto/src/serialize/binary/encoder.rs :: RDataEncoding
//%end

//%struct crates/proto/src/serialize/binary/encoder.rs :: BinEncoder
//%sub1 "private::MaximalBuf<'a>" => "MaximalBuf<'a>" # R-sel: `mod private` flattened (single-file unit)
//%end

//%struct crates/proto/src/serialize/binary/encoder.rs :: Rollback
//%end

//%const crates/proto/src/serialize/binary/encoder.rs :: COMPRESSION_CANDIDATE_LIMIT
//%end

//%trait crates/proto/src/serialize/binary/encoder.rs :: EncodedSize
//%end

//%impl crates/proto/src/serialize/binary/encoder.rs :: impl EncodedSize for u16
//%end

//%struct crates/proto/src/serialize/binary/encoder.rs :: Place
//%sub1 "PhantomData<T>" => "core::marker::PhantomData<T>" # R-sel: path made explicit (no `use` lines in the unit)
//%end

// trait-level contract of BinEncodable::emit: what every implementor must guarantee and every
// caller (emit_iter, Place::replace, emit_character_data) may rely on.
pub trait BinEncodable {
    // fixed-size primitives (u8/u16/u32/i32/Header) may also be emitted "in place" (offset moved back by
    // Place::replace); every other emitter appends and needs the buffer to end at the offset
    open spec fn in_place_ok() -> bool { false }
    fn emit(&self, encoder: &mut BinEncoder<'_>) -> (r: ProtoResult<()>)
        requires old(encoder).wf_buf(), old(encoder).tight() || Self::in_place_ok()
        ensures final(encoder).wf_buf(), old(encoder).wf_ptrs() ==> final(encoder).wf_ptrs(),
            final(encoder).max() == old(encoder).max(),
            final(encoder).offset >= old(encoder).offset,
            old(encoder).wf_ptrs() ==> final(encoder).ptr_prefix_of(*old(encoder)),
            old(encoder).tight() ==> final(encoder).tight(),
            final(encoder).canonical_form == old(encoder).canonical_form,
            final(encoder).name_encoding == old(encoder).name_encoding,
            forall|i: int| 0 <= i < old(encoder).offset ==> final(encoder).bytes()[i] == old(encoder).bytes()[i],
            // only emit_iter constructs NotAllRecordsWritten; an item emitter never reports it
            !(r matches Err(ProtoError::NotAllRecordsWritten { .. }));
}

impl<'a> BinEncoder<'a> {
    pub open spec fn bytes(&self) -> Seq<u8> { self.buffer.bytes() }
    pub open spec fn max(&self) -> int { self.buffer.max() }
    // buffer part: what every write needs
    pub open spec fn wf_buf(&self) -> bool {
        &&& self.buffer.wf()
        &&& self.offset <= self.bytes().len()
        // every compression candidate is addressable by a 16-bit offset (asserted on insertion)
        &&& forall|k: int| 0 <= k < self.name_pointers@.len() ==> (#[trigger] self.name_pointers@[k]).0 <= 0xFFFF
    }
    // compression-table part: every candidate starts below the logical end (temporarily false while
    // Place::replace has moved `offset` back to patch a length)
    pub open spec fn wf_ptrs(&self) -> bool {
        forall|k: int| 0 <= k < self.name_pointers@.len() ==> (#[trigger] self.name_pointers@[k]).0 < self.offset
    }
    pub open spec fn wf(&self) -> bool { self.wf_buf() && self.wf_ptrs() }
    // no physical bytes beyond the logical end of the message
    pub open spec fn tight(&self) -> bool { self.bytes().len() == self.offset }
    // the compression table of `o` is a prefix of self's
    pub open spec fn ptr_prefix_of(&self, o: Self) -> bool {
        &&& o.name_pointers@.len() <= self.name_pointers@.len()
        &&& forall|k: int| 0 <= k < o.name_pointers@.len() ==> self.name_pointers@[k] == o.name_pointers@[k]
    }

//%fn crates/proto/src/serialize/binary/encoder.rs :: impl<'a> BinEncoder<'a> :: set_max_size
//%contract
        requires old(self).wf(), old(self).bytes().len() <= max
        ensures final(self).wf(), final(self).max() == max, final(self).bytes() == old(self).bytes(), final(self).offset == old(self).offset,
            final(self).name_pointers == old(self).name_pointers
//%end

//%fn crates/proto/src/serialize/binary/encoder.rs :: impl<'a> BinEncoder<'a> :: len
//%contract
        ensures r == self.bytes().len()
//%end

//%fn crates/proto/src/serialize/binary/encoder.rs :: impl<'a> BinEncoder<'a> :: emit_slice
//%contract
        requires old(self).wf_buf()
        ensures final(self).wf_buf(), old(self).wf_ptrs() ==> final(self).wf_ptrs(), final(self).max() == old(self).max(),
            final(self).name_pointers == old(self).name_pointers,
            final(self).canonical_form == old(self).canonical_form, final(self).name_encoding == old(self).name_encoding,
            final(self).compressed_name_count == old(self).compressed_name_count,
            old(self).tight() ==> final(self).tight(),
            forall|i: int| 0 <= i < old(self).offset ==> final(self).bytes()[i] == old(self).bytes()[i],
            match r {
                Ok(_) => final(self).offset == old(self).offset + data@.len()
                      && final(self).bytes().len() == (if old(self).offset + data@.len() > old(self).bytes().len() { old(self).offset + data@.len() } else { old(self).bytes().len() as int })
                      && (forall|i: int| 0 <= i < data@.len() ==> final(self).bytes()[old(self).offset + i] == data@[i])
                      && (forall|i: int| old(self).offset + data@.len() <= i < old(self).bytes().len() ==> final(self).bytes()[i] == old(self).bytes()[i]),
                Err(e) => final(self).offset == old(self).offset && final(self).bytes() == old(self).bytes()
                      && old(self).offset + data@.len() > old(self).max()
                      && e == ProtoError::MaxBufferSizeExceeded(old(self).buffer.max_size),
            }
//%end

//%fn crates/proto/src/serialize/binary/encoder.rs :: impl<'a> BinEncoder<'a> :: emit_iter
//%contract
        requires old(self).wf(), old(self).tight()      // records are appended: the buffer ends at the offset
        ensures final(self).wf(), final(self).max() == old(self).max(),
            match r {
                Ok(n) => final(self).offset >= old(self).offset && final(self).tight(),
                // C03: after dropping the record that did not fit, the encoder is exactly as it was
                // before that record: logical end restored, compression table restored, and NO
                // physical bytes left beyond the logical end
                Err(ProtoError::NotAllRecordsWritten { count }) =>
                    final(self).offset >= old(self).offset && final(self).tight(),
                Err(_) => true,
            },
            forall|i: int| 0 <= i < old(self).offset ==> final(self).bytes()[i] == old(self).bytes()[i],
            // the count reported never exceeds the number of items offered ("sections are a prefix")
            r matches Ok(n) ==> n == vp_items(iter),
            r matches Err(ProtoError::NotAllRecordsWritten { count }) ==> count < vp_items(iter),
//%attr #[verifier::loop_isolation(false)]
//%sub1 "let mut count = 0;" => "let mut count: usize = 0;" # R-ann: type ascription (inferred as usize from the return type; spec expressions need it explicit)
//%before "for i in iter"
        let ghost enc0 = *old(self);
        let ghost n_items = vp_items(iter);
//%forloop "for i in iter"
            invariant self.wf(), self.max() == enc0.max(), self.offset >= enc0.offset,
                self.tight(),
                forall|i: int| 0 <= i < enc0.offset ==> self.bytes()[i] == enc0.bytes()[i],
                vp_it0.obeys_prophetic_iter_laws(), vp_it0.decrease() is Some,
                count + vp_it0.remaining().len() == n_items < usize::MAX,
            decreases vp_it0.decrease().unwrap()
//%before "let rollback = Rollback"
            let ghost vp_iter_start = *self;
//%after "rollback.rollback(self);"
                        // C03: the encoder is exactly as before the record that did not fit
                        assert(self.offset == vp_iter_start.offset);
                        assert(self.name_pointers@ =~= vp_iter_start.name_pointers@);
                        assert(self.tight());
                        assert(forall|i: int| 0 <= i < vp_iter_start.offset ==> self.bytes()[i] == vp_iter_start.bytes()[i]);
//%mutant no_rollback "rollback.rollback(self);" => ""
//%end

//%fn crates/proto/src/serialize/binary/encoder.rs :: impl<'a> BinEncoder<'a> :: emit_character_data
//%contract
        requires old(self).wf_buf()
        ensures final(self).wf_buf(), old(self).wf_ptrs() ==> final(self).wf_ptrs(), final(self).max() == old(self).max(),
            final(self).offset >= old(self).offset,
            final(self).name_pointers == old(self).name_pointers,
            final(self).canonical_form == old(self).canonical_form, final(self).name_encoding == old(self).name_encoding,
            final(self).compressed_name_count == old(self).compressed_name_count,
            old(self).tight() ==> final(self).tight(),
            forall|i: int| 0 <= i < old(self).offset ==> final(self).bytes()[i] == old(self).bytes()[i],
            r matches Err(e) ==> (e matches ProtoError::MaxBufferSizeExceeded(_)) || (e matches ProtoError::CharacterDataTooLong { .. }),
            r is Ok ==> vp_as_ref(&char_data).len() <= 255
                && final(self).offset == old(self).offset + 1 + vp_as_ref(&char_data).len()
                && final(self).bytes()[old(self).offset as int] == vp_as_ref(&char_data).len()
                && (forall|i: int| 0 <= i < vp_as_ref(&char_data).len() ==> final(self).bytes()[old(self).offset + 1 + i] == vp_as_ref(&char_data)[i]),
//%sub1 "char_data.as_ref()" => "vp_as_ref_exec(&char_data)" # R-shim: AsRef<[u8]>::as_ref on a generic S (pure, deterministic view as bytes)
//%end

//%fn crates/proto/src/serialize/binary/encoder.rs :: impl<'a> BinEncoder<'a> :: place
//%rename place_u16
//%sub1 "<T: EncodedSize>" => "" # R-mono: generic Place<T> verified at the instantiation T = u16 (the RDLENGTH back-patch)
//%sub "T::LEN" => "<u16 as EncodedSize>::LEN" # R-mono
//%sub1 "ProtoResult<Place<T>>" => "ProtoResult<Place<u16>>" # R-mono
//%sub1 "phantom: PhantomData," => "phantom: core::marker::PhantomData," # R-sel: path made explicit
//%contract
        requires old(self).wf_buf(), old(self).tight()
        ensures final(self).wf_buf(), old(self).wf_ptrs() ==> final(self).wf_ptrs(),
            final(self).max() == old(self).max(), final(self).name_pointers == old(self).name_pointers,
            final(self).canonical_form == old(self).canonical_form, final(self).name_encoding == old(self).name_encoding,
            forall|i: int| 0 <= i < old(self).offset ==> final(self).bytes()[i] == old(self).bytes()[i],
            match r {
                Ok(p) => p.start_index == old(self).offset && final(self).offset == old(self).offset + 2 && final(self).tight(),
                Err(e) => final(self).offset == old(self).offset && final(self).bytes() == old(self).bytes()
                       && e == ProtoError::MaxBufferSizeExceeded(old(self).buffer.max_size),
            }
//%end

//%fn crates/proto/src/serialize/binary/encoder.rs :: impl<'a> BinEncoder<'a> :: len_since_place
//%rename len_since_place_u16
//%sub1 "<T: EncodedSize>" => "" # R-mono
//%sub "T::LEN" => "<u16 as EncodedSize>::LEN" # R-mono
//%sub1 "&Place<T>" => "&Place<u16>" # R-mono
//%contract
        requires place.start_index + 2 <= self.offset
        ensures r == self.offset - place.start_index - 2
//%end

//%fn crates/proto/src/serialize/binary/encoder.rs :: impl<'a> BinEncoder<'a> :: slice_of
//%contract
        requires self.wf_buf(), start < self.offset, end <= self.bytes().len(), start <= end
        ensures r@ =~= self.bytes().subrange(start as int, end as int)
//%sub1 "self.buffer.buffer()" => "vp_buf_slice(&self.buffer)" # R-shim: MaximalBuf::buffer() (`self.buffer as &'a [u8]` reborrow-cast of &mut Vec) -> view as slice
//%end

//%fn crates/proto/src/serialize/binary/encoder.rs :: impl<'a> BinEncoder<'a> :: store_label_pointer
//%contract
        requires old(self).wf_buf(), start < old(self).offset, end <= old(self).bytes().len(), start <= end, end <= 0xFFFF
        ensures final(self).wf_buf(), old(self).wf_ptrs() ==> final(self).wf_ptrs(),
            final(self).max() == old(self).max(), final(self).offset == old(self).offset, final(self).bytes() == old(self).bytes(),
            final(self).canonical_form == old(self).canonical_form, final(self).name_encoding == old(self).name_encoding,
            final(self).compressed_name_count == old(self).compressed_name_count,
            final(self).ptr_prefix_of(*old(self)),
            final(self).name_pointers@.len() <= old(self).name_pointers@.len() + 1,
            // RFC 1035 4.1.4: a compression pointer has 14 bits; candidates at or beyond 0x3FFF are never stored
            forall|k: int| old(self).name_pointers@.len() <= k < final(self).name_pointers@.len() ==> (#[trigger] final(self).name_pointers@[k]).0 == start
                && final(self).name_pointers@[k].1@ =~= old(self).bytes().subrange(start as int, end as int) && start < 0x3FFF,
            final(self).name_pointers@.len() <= 64 || final(self).name_pointers@.len() == old(self).name_pointers@.len(),
//%sub1 "self.slice_of(start, end).to_vec()" => "vp_slice_to_owned(self.slice_of(start, end))" # R-shim: <[u8]>::to_vec copies the bytes
//%mutant ptr_14bit_guard "self.offset < 0x3FFF_usize" => "self.offset < 0xFFFF_usize"
//%end

//%fn crates/proto/src/serialize/binary/encoder.rs :: impl<'a> BinEncoder<'a> :: get_label_pointer
//%contract
        requires self.wf_buf(), start < self.offset, end <= self.bytes().len(), start <= end,
        ensures
            // C04 ("a name of arbitrary octets is unchanged, including letter case, by wire encoding and decoding, compressed
            // or not"): a pointer is offered only to a compression candidate recorded with EXACTLY the octets of this
            // suffix -- the same length octets, the same label octets, the same letter case
            r matches Some(loc) ==> exists|k: int| 0 <= k < self.name_pointers@.len() && (#[trigger] self.name_pointers@[k]).0 == loc as int
                && self.name_pointers@[k].1@ == self.bytes().subrange(start as int, end as int),
//%after "for (match_start, matcher) in"
                vp_it:
//%after "for (match_start, matcher) in &self.name_pointers"
            invariant forall|j: int| 0 <= j < vp_it.iter.remaining().len() ==> (#[trigger] vp_it.iter.remaining()[j]).0 <= 0xFFFF,
                search@ == self.bytes().subrange(start as int, end as int),
                vp_it.snapshot@.remaining().len() == self.name_pointers@.len(), 0 <= vp_it.index@ <= self.name_pointers@.len(),
                forall|j: int| 0 <= j < self.name_pointers@.len() ==> *(#[trigger] vp_it.snapshot@.remaining()[j]) == self.name_pointers@[j],
//%sub? "matcher.as_slice() == search" => "vp_slice_eq(matcher.as_slice(), search)" # R-shim: PartialEq for [u8]
//%sub? "matcher.as_slice().eq_ignore_ascii_case(search)" => "vp_slice_eq_ignore_case(matcher.as_slice(), search)" # R-shim: <[u8]>::eq_ignore_ascii_case (so that such a comparison is judged against the contract, not lost)
//%sub? "matcher.eq_ignore_ascii_case(search)" => "vp_slice_eq_ignore_case(matcher.as_slice(), search)" # R-shim: as above, through Vec's deref
//%before "return Some(*match_start as u16);"
                assert(*match_start == self.name_pointers@[vp_it.index@ as int].0 && matcher@ == self.name_pointers@[vp_it.index@ as int].1@);
//%sub1 "assert!(match_start <= &(u16::MAX as usize));" => "assert(*match_start <= u16::MAX as usize);" # R-ann: assert! through references -> same condition on values (proof obligation)
//%end

//%fn crates/proto/src/serialize/binary/encoder.rs :: impl<'a> BinEncoder<'a> :: trim
//%contract
        requires old(self).wf_buf()
        ensures final(self).wf(), final(self).max() == old(self).max(), final(self).offset == old(self).offset, final(self).tight(),
            final(self).bytes() =~= old(self).bytes().subrange(0, old(self).offset as int),
            final(self).canonical_form == old(self).canonical_form, final(self).name_encoding == old(self).name_encoding,
            final(self).compressed_name_count == old(self).compressed_name_count,
            // candidates that start below the offset all survive, in order
            (forall|k: int| 0 <= k < old(self).name_pointers@.len() ==> (#[trigger] old(self).name_pointers@[k]).0 < old(self).offset)
                ==> final(self).name_pointers@ == old(self).name_pointers@,
            final(self).name_pointers@.len() <= old(self).name_pointers@.len(),
//%sub1 "self.name_pointers.retain(|&(start, _)| start < offset);" => "vp_retain_below(&mut self.name_pointers, offset);" # R-shim: Vec::retain with a pattern closure
//%end
}

// ---- primitive emitters (serialize/binary/mod.rs): big-endian bytes appended at offset ----
#[verifier::external_body]
pub fn vp_u16_to_be_bytes(v: u16) -> (r: [u8; 2])
    ensures be16(r[0], r[1]) == v as int
{ v.to_be_bytes() }
#[verifier::external_body]
pub fn vp_u32_to_be_bytes(v: u32) -> (r: [u8; 4])
    ensures be32(r[0], r[1], r[2], r[3]) == v as int
{ v.to_be_bytes() }
#[verifier::external_body]
pub fn vp_i32_to_be_bytes(v: i32) -> (r: [u8; 4])
    ensures be32(r[0], r[1], r[2], r[3]) == (if v < 0 { v as int + 0x1_0000_0000 } else { v as int })
{ v.to_be_bytes() }

impl BinEncodable for u8 {
    open spec fn in_place_ok() -> bool { true }
//%fn crates/proto/src/serialize/binary/mod.rs :: impl BinEncodable for u8 :: emit
//%contract
        ensures final(encoder).name_pointers == old(encoder).name_pointers, final(encoder).compressed_name_count == old(encoder).compressed_name_count,
            match r {
                Ok(_) => final(encoder).offset == old(encoder).offset + 1 && final(encoder).bytes()[old(encoder).offset as int] == *self
                      && final(encoder).bytes().len() == (if old(encoder).offset + 1 > old(encoder).bytes().len() { old(encoder).offset + 1 } else { old(encoder).bytes().len() as int })
                      && (forall|i: int| old(encoder).offset + 1 <= i < old(encoder).bytes().len() ==> final(encoder).bytes()[i] == old(encoder).bytes()[i]),
                Err(e) => final(encoder).offset == old(encoder).offset && final(encoder).bytes() == old(encoder).bytes()
                      && old(encoder).offset + 1 > old(encoder).max()
                      && e == ProtoError::MaxBufferSizeExceeded(old(encoder).buffer.max_size),
            }
//%end
}
impl BinEncodable for u16 {
    open spec fn in_place_ok() -> bool { true }
//%fn crates/proto/src/serialize/binary/mod.rs :: impl BinEncodable for u16 :: emit
//%contract
        ensures final(encoder).name_pointers == old(encoder).name_pointers, final(encoder).compressed_name_count == old(encoder).compressed_name_count,
            match r {
                Ok(_) => final(encoder).offset == old(encoder).offset + 2
                      && be16(final(encoder).bytes()[old(encoder).offset as int], final(encoder).bytes()[old(encoder).offset + 1]) == *self as int
                      && final(encoder).bytes().len() == (if old(encoder).offset + 2 > old(encoder).bytes().len() { old(encoder).offset + 2 } else { old(encoder).bytes().len() as int })
                      && (forall|i: int| old(encoder).offset + 2 <= i < old(encoder).bytes().len() ==> final(encoder).bytes()[i] == old(encoder).bytes()[i]),
                Err(e) => final(encoder).offset == old(encoder).offset && final(encoder).bytes() == old(encoder).bytes()
                      && old(encoder).offset + 2 > old(encoder).max()
                      && e == ProtoError::MaxBufferSizeExceeded(old(encoder).buffer.max_size),
            }
//%sub1 "&self.to_be_bytes()" => "vp_u16_to_be_bytes(*self).as_slice()" # R-shim: u16::to_be_bytes
//%end
}
impl BinEncodable for u32 {
    open spec fn in_place_ok() -> bool { true }
//%fn crates/proto/src/serialize/binary/mod.rs :: impl BinEncodable for u32 :: emit
//%contract
        ensures final(encoder).name_pointers == old(encoder).name_pointers, final(encoder).compressed_name_count == old(encoder).compressed_name_count,
            match r {
                Ok(_) => final(encoder).offset == old(encoder).offset + 4
                      && be32(final(encoder).bytes()[old(encoder).offset as int], final(encoder).bytes()[old(encoder).offset + 1],
                              final(encoder).bytes()[old(encoder).offset + 2], final(encoder).bytes()[old(encoder).offset + 3]) == *self as int,
                Err(e) => final(encoder).offset == old(encoder).offset && final(encoder).bytes() == old(encoder).bytes()
                      && e == ProtoError::MaxBufferSizeExceeded(old(encoder).buffer.max_size),
            }
//%sub1 "&self.to_be_bytes()" => "vp_u32_to_be_bytes(*self).as_slice()" # R-shim: u32::to_be_bytes
//%end
}
impl BinEncodable for i32 {
    open spec fn in_place_ok() -> bool { true }
//%fn crates/proto/src/serialize/binary/mod.rs :: impl BinEncodable for i32 :: emit
//%contract
        ensures final(encoder).name_pointers == old(encoder).name_pointers, final(encoder).compressed_name_count == old(encoder).compressed_name_count,
            match r {
                Ok(_) => final(encoder).offset == old(encoder).offset + 4,
                Err(e) => final(encoder).offset == old(encoder).offset && final(encoder).bytes() == old(encoder).bytes()
                      && e == ProtoError::MaxBufferSizeExceeded(old(encoder).buffer.max_size),
            }
//%sub1 "&self.to_be_bytes()" => "vp_i32_to_be_bytes(*self).as_slice()" # R-shim: i32::to_be_bytes
//%end
}

impl Place<u16> {
//%fn crates/proto/src/serialize/binary/encoder.rs :: impl<T: EncodedSize> Place<T> :: replace
//%sub1 "data: T" => "data: u16" # R-mono: verified at T = u16 (RDLENGTH back-patch in Record::emit)
//%sub "T::LEN" => "<u16 as EncodedSize>::LEN" # R-mono
//%contract
        requires old(encoder).wf_buf(), self.start_index + 2 <= old(encoder).offset, old(encoder).tight()
        ensures final(encoder).wf_buf(), old(encoder).wf_ptrs() ==> final(encoder).wf_ptrs(),
            final(encoder).max() == old(encoder).max(), final(encoder).offset == old(encoder).offset,
            final(encoder).tight(), final(encoder).name_pointers == old(encoder).name_pointers,
            final(encoder).canonical_form == old(encoder).canonical_form, final(encoder).name_encoding == old(encoder).name_encoding,
            r is Ok,
            // the two reserved bytes now hold `data` big-endian (RDLENGTH == bytes emitted, C02) ...
            be16(final(encoder).bytes()[self.start_index as int], final(encoder).bytes()[self.start_index + 1]) == data as int,
            // ... and nothing else changed (frame)
            forall|i: int| 0 <= i < old(encoder).bytes().len() && !(self.start_index <= i < self.start_index + 2) ==> final(encoder).bytes()[i] == old(encoder).bytes()[i],
//%mutant offset_not_restored "encoder.offset = current_index;" => ""
//%end
}

// R-shims used by the functions above (assumed specs of std, listed in trusted_base)
pub uninterp spec fn vp_as_ref<S>(s: &S) -> Seq<u8>;   // the byte view of an AsRef<[u8]> value
#[verifier::external_body]
pub fn vp_as_ref_exec<S: AsRef<[u8]>>(s: &S) -> (r: &[u8])
    ensures r@ == vp_as_ref(s)
{ s.as_ref() }
#[verifier::external_body]
pub fn vp_buf_slice<'b>(m: &'b MaximalBuf<'_>) -> (r: &'b [u8])
    ensures r@ == m.bytes()
{ m.buffer.as_slice() }
#[verifier::external_body]
pub fn vp_slice_eq(a: &[u8], b: &[u8]) -> (r: bool)
    ensures r == (a@ =~= b@)
{ a == b }
pub open spec fn vp_lower(b: u8) -> u8 { if 0x41 <= b <= 0x5A { (b + 32) as u8 } else { b } }
#[verifier::external_body]
pub fn vp_slice_eq_ignore_case(a: &[u8], b: &[u8]) -> (r: bool)
    ensures r == (a@.len() == b@.len() && forall|i: int| 0 <= i < a@.len() ==> vp_lower(a@[i]) == vp_lower(b@[i]))
{ a.eq_ignore_ascii_case(b) }

//%include forloop.rs

// R-shim for Vec::retain(|&(start, _)| start < offset): keeps, in order, exactly the entries below offset
#[verifier::external_body]
pub fn vp_retain_below(v: &mut Vec<(usize, Vec<u8>)>, offset: usize)
    ensures final(v)@.len() <= old(v)@.len(),
        forall|k: int| 0 <= k < final(v)@.len() ==> (#[trigger] final(v)@[k]).0 < offset,
        (forall|k: int| 0 <= k < old(v)@.len() ==> (#[trigger] old(v)@[k]).0 < offset) ==> final(v)@ == old(v)@,
{ v.retain(|&(start, _)| start < offset); }

impl Rollback {
//%fn crates/proto/src/serialize/binary/encoder.rs :: impl Rollback :: rollback
//%contract
        requires old(encoder).wf(), self.offset <= old(encoder).offset, self.pointers <= old(encoder).name_pointers@.len(),
            forall|k: int| 0 <= k < self.pointers ==> (#[trigger] old(encoder).name_pointers@[k]).0 < self.offset,
        ensures final(encoder).wf(), final(encoder).max() == old(encoder).max(),
            final(encoder).offset == self.offset,
            final(encoder).name_pointers@ =~= old(encoder).name_pointers@.subrange(0, self.pointers as int),
            // C03 "no bytes left over": the rolled-back record's bytes are physically gone
            final(encoder).tight(),
            forall|i: int| 0 <= i < self.offset ==> final(encoder).bytes()[i] == old(encoder).bytes()[i],
//%mutant F1_no_truncate "encoder.buffer.truncate(offset);" => ""
//%mutant offset_not_restored "encoder.offset = offset;" => ""
//%mutant pointers_not_restored "encoder.name_pointers.truncate(pointers);" => ""
//%end
}
