// ---- fragment: Name storage model (flat label storage), shared by name_read / name_order / name_build ----
// R-tiny: TinyVec<[u8; N]> is verified as Vec<u8> (assumption A-tinyvec: same observable behaviour
// for push/extend_from_slice/len/is_empty/get/index/iter/clone).
//%gsub "TinyVec<[u8; 32]>" => "Vec<u8>" # R-tiny
//%gsub "TinyVec<[u8; 24]>" => "Vec<u8>" # R-tiny

//%struct crates/proto/src/rr/domain/name.rs :: Name
//%end

impl Name {
    // abstract view: the sequence of labels
    pub open spec fn nlabels(&self) -> int { self.label_ends@.len() as int }
    pub open spec fn lstart(&self, i: int) -> int { if i <= 0 { 0 } else { self.label_ends@[i - 1] as int } }
    pub open spec fn lend(&self, i: int) -> int { self.label_ends@[i] as int }
    pub open spec fn label(&self, i: int) -> Seq<u8> { self.label_data@.subrange(self.lstart(i), self.lend(i)) }
    #[verifier::opaque]
    pub open spec fn labels(&self) -> Seq<Seq<u8>> { Seq::new(self.nlabels() as nat, |i: int| self.label(i)) }
    // representation invariant: total encoded length <= 255 (RFC 1035 2.3.4), ends are monotone and
    // the last end is the data length
    pub open spec fn wf(&self) -> bool {
        &&& self.label_ends@.len() + self.label_data@.len() + 1 <= 255
        &&& forall|i: int| 0 <= i < self.nlabels() ==> self.lstart(i) <= (#[trigger] self.label_ends@[i]) as int <= self.label_data@.len()
        &&& (self.nlabels() > 0 ==> self.lend(self.nlabels() - 1) == self.label_data@.len())
        &&& (self.nlabels() == 0 ==> self.label_data@.len() == 0)
    }
    // every label has 1..=63 octets (RFC 1035 2.3.4)
    pub open spec fn labels_bounded(&self) -> bool {
        forall|i: int| 0 <= i < self.nlabels() ==> 1 <= (#[trigger] self.label_ends@[i]) as int - self.lstart(i) <= 63
    }
    pub open spec fn labels_le63(&self) -> bool {
        forall|i: int| 0 <= i < self.nlabels() ==> (#[trigger] self.label_ends@[i]) as int - self.lstart(i) <= 63
    }
    pub open spec fn enc_len(&self) -> int { (self.label_ends@.len() + self.label_data@.len() + 1) as int }
    // RFC 1035 3.1 / 4.1.4 wire form WITHOUT compression: label j is one length octet followed by its octets, at
    // offset off + j + (octets of the labels before it); the name ends with the zero octet of the root
    #[verifier::opaque]
    pub open spec fn wire_label_ok(&self, b: Seq<u8>, off: int, j: int) -> bool {
        let p = off + j + self.lstart(j);
        let l = self.lend(j) - self.lstart(j);
        0 <= p && p + 1 + l <= b.len() && b[p] as int == l && b.subrange(p + 1, p + 1 + l) == self.label(j)
    }
    pub open spec fn wire_at(&self, b: Seq<u8>, off: int) -> bool {
        &&& 0 <= off && off + self.enc_len() <= b.len()
        &&& forall|j: int| 0 <= j < self.nlabels() ==> #[trigger] self.wire_label_ok(b, off, j)
        &&& b[off + self.nlabels() + self.label_data@.len()] == 0
    }

    // model of #[derive(Default)] on Name (all fields default): verified, not assumed
    pub fn vp_default() -> (r: Self)
        ensures r.wf(), r.nlabels() == 0, r.label_data@.len() == 0, !r.is_fqdn, r.labels_bounded()
    { Name { is_fqdn: false, label_data: Vec::new(), label_ends: Vec::new() } }

//%const crates/proto/src/rr/domain/name.rs :: impl Name :: MAX_LENGTH
//%end

//%fn crates/proto/src/rr/domain/name.rs :: impl Name :: encoded_len
//%contract
        requires self.wf()
        ensures r == self.enc_len()
//%end

//%fn crates/proto/src/rr/domain/name.rs :: impl Name :: len
//%contract
        requires self.wf()
        ensures r < 255, r == (if self.nlabels() > 0 { self.nlabels() } else { 1 }) + self.label_data@.len()
//%end

//%fn crates/proto/src/rr/domain/name.rs :: impl Name :: is_fqdn
//%contract
        ensures r == self.is_fqdn
//%end

//%fn crates/proto/src/rr/domain/name.rs :: impl Name :: set_fqdn
//%contract
        ensures final(self).label_data == old(self).label_data, final(self).label_ends == old(self).label_ends, final(self).is_fqdn == val,
            final(self).labels() == old(self).labels(), final(self).wf() == old(self).wf(), final(self).labels_bounded() == old(self).labels_bounded(),
//%entry
        proof { reveal(Name::labels); }
//%end

//%fn crates/proto/src/rr/domain/name.rs :: impl Name :: extend_name
//%contract
        requires old(self).wf(), label@.len() <= 255
        ensures final(self).wf(), final(self).is_fqdn == old(self).is_fqdn,
            match r {
                Ok(_) => final(self).label_data@ =~= old(self).label_data@ + label@
                      && final(self).label_ends@ =~= old(self).label_ends@.push((old(self).label_data@.len() + label@.len()) as u8)
                      && old(self).enc_len() + label@.len() + 1 <= 255
                      && final(self).labels() =~= old(self).labels().push(label@)
                      && (old(self).labels_bounded() && 1 <= label@.len() <= 63 ==> final(self).labels_bounded()),
                Err(e) => final(self).label_data@ == old(self).label_data@ && final(self).label_ends@ == old(self).label_ends@
                      && old(self).enc_len() + label@.len() + 1 > 255,
            }
//%before "Ok(())"
        proof { lemma_extend_labels(*old(self), *self, label@); }
//%mutant guard_off_by_one "new_len > Self::MAX_LENGTH" => "new_len > Self::MAX_LENGTH + 1"
//%mutant guard_dropped "if new_len > Self::MAX_LENGTH" => "if false && new_len > Self::MAX_LENGTH"
//%end
}

// extending keeps earlier labels and appends exactly `label` (split into three small lemmas so that
// each solver query stays small and stable)
pub open spec fn extends(old_n: Name, new_n: Name, label: Seq<u8>) -> bool {
    &&& old_n.wf()
    &&& new_n.label_data@ =~= old_n.label_data@ + label
    &&& new_n.label_ends@ =~= old_n.label_ends@.push((old_n.label_data@.len() + label.len()) as u8)
    &&& old_n.enc_len() + label.len() + 1 <= 255
}
pub proof fn lemma_extend_index(old_n: Name, new_n: Name, label: Seq<u8>)
    requires extends(old_n, new_n, label)
    ensures new_n.nlabels() == old_n.nlabels() + 1,
        forall|i: int| 0 <= i < old_n.nlabels() ==> new_n.lstart(i) == old_n.lstart(i) && #[trigger] new_n.label_ends@[i] == old_n.label_ends@[i],
        new_n.lstart(old_n.nlabels()) == old_n.label_data@.len(),
        new_n.label_ends@[old_n.nlabels()] as int == old_n.label_data@.len() + label.len(),
{
    let n = old_n.nlabels();
    if n > 0 { assert(old_n.label_ends@[n - 1] as int == old_n.label_data@.len()); }
}
pub proof fn lemma_extend_wf(old_n: Name, new_n: Name, label: Seq<u8>)
    requires extends(old_n, new_n, label)
    ensures new_n.wf(),
        old_n.labels_bounded() && 1 <= label.len() <= 63 ==> new_n.labels_bounded(),
{
    lemma_extend_index(old_n, new_n, label);
    let n = old_n.nlabels();
    assert forall|i: int| 0 <= i < new_n.nlabels() implies new_n.lstart(i) <= (#[trigger] new_n.label_ends@[i]) as int <= new_n.label_data@.len() by {
        if i < n { assert(old_n.lstart(i) <= old_n.label_ends@[i] as int <= old_n.label_data@.len()); }
    }
    if old_n.labels_bounded() && 1 <= label.len() <= 63 {
        assert forall|i: int| 0 <= i < new_n.nlabels() implies 1 <= (#[trigger] new_n.label_ends@[i]) as int - new_n.lstart(i) <= 63 by {
            if i < n { assert(1 <= old_n.label_ends@[i] as int - old_n.lstart(i) <= 63); }
        }
    }
}
pub proof fn lemma_subrange_of_concat(a: Seq<u8>, b: Seq<u8>, s: int, e: int)
    requires 0 <= s <= e <= a.len()
    ensures (a + b).subrange(s, e) =~= a.subrange(s, e), (a + b).subrange(a.len() as int, (a.len() + b.len()) as int) =~= b
{}
// one label of the extended name, by index (no quantifier: keeps the solver query small and stable)
pub proof fn lemma_extend_label_at(old_n: Name, new_n: Name, label: Seq<u8>, i: int)
    requires extends(old_n, new_n, label), 0 <= i <= old_n.nlabels()
    ensures new_n.label(i) == (if i < old_n.nlabels() { old_n.label(i) } else { label })
{
    lemma_extend_index(old_n, new_n, label);
    let n = old_n.nlabels();
    if i < n {
        assert(old_n.lstart(i) <= old_n.label_ends@[i] as int <= old_n.label_data@.len());
        lemma_subrange_of_concat(old_n.label_data@, label, old_n.lstart(i), old_n.lend(i));
        assert(new_n.lstart(i) == old_n.lstart(i) && new_n.lend(i) == old_n.lend(i));
    } else {
        lemma_subrange_of_concat(old_n.label_data@, label, 0, 0);
        assert(new_n.lstart(i) == old_n.label_data@.len() && new_n.lend(i) == old_n.label_data@.len() + label.len());
    }
}
pub proof fn lemma_extend_labels(old_n: Name, new_n: Name, label: Seq<u8>)
    requires extends(old_n, new_n, label)
    ensures new_n.wf(), new_n.nlabels() == old_n.nlabels() + 1,
        new_n.labels() =~= old_n.labels().push(label),
        old_n.labels_bounded() && 1 <= label.len() <= 63 ==> new_n.labels_bounded(),
{
    lemma_extend_index(old_n, new_n, label);
    lemma_extend_wf(old_n, new_n, label);
    let n = old_n.nlabels();
    assert forall|i: int| 0 <= i <= n implies new_n.label(i) == (if i < n { old_n.label(i) } else { label }) by {
        lemma_extend_label_at(old_n, new_n, label, i);
    }
    reveal(Name::labels);
    assert(new_n.labels().len() == n + 1);
    assert(old_n.labels().push(label).len() == n + 1);
    assert forall|i: int| 0 <= i < n + 1 implies new_n.labels()[i] == old_n.labels().push(label)[i] by {
        assert(new_n.labels()[i] == new_n.label(i));
        if i < n { assert(old_n.labels().push(label)[i] == old_n.labels()[i]); assert(old_n.labels()[i] == old_n.label(i)); }
    }
}
