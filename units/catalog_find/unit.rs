//%unit catalog_find
//%features std
use vstd::prelude::*;
verus! {
// ---- C11 kernels: zone selection and the source-address decision ----
// (1) Catalog::find (zone_handler/catalog.rs): "a query is answered from the zone whose origin is the longest suffix of
//     the query name and is REFUSED if no configured zone encloses the name".  The name is a sequence of opaque
//     (lower-cased) labels plus the FQDN flag; the handler table is a map keyed by such names.
pub struct LowerName { pub labels: Vec<u64>, pub fqdn: bool }
pub spec const STAR: u64 = 0;       // the label `*`
impl LowerName {
    // contracts of Name::{is_root, base_name, num_labels} as proved in units name_order / name_build (assumed here)
    #[verifier::external_body]
    pub fn is_root(&self) -> (r: bool) ensures r == (self.labels@.len() == 0 && self.fqdn) { unimplemented!() }
    #[verifier::external_body]
    pub fn base_name(&self) -> (r: LowerName)
        ensures r.fqdn == self.fqdn, r.labels@ == (if self.labels@.len() > 0 { self.labels@.skip(1) } else { self.labels@ })
    { unimplemented!() }
    #[verifier::external_body]
    pub fn num_labels(&self) -> (r: u8)
        ensures r as int == (if self.labels@.len() > 0 && self.labels@[0] == STAR { self.labels@.len() - 1 } else { self.labels@.len() as int }) % 256
    { unimplemented!() }
}
pub struct VpChain { pub id: u64 }          // Vec<Arc<dyn ZoneHandler>>
pub struct VpHandlers { pub vp: u64 }       // HashMap<LowerName, Vec<Arc<dyn ZoneHandler>>>
impl VpHandlers {
    pub uninterp spec fn has(&self, labels: Seq<u64>, fqdn: bool) -> bool;
    pub uninterp spec fn at(&self, labels: Seq<u64>, fqdn: bool) -> VpChain;
    #[verifier::external_body]
    pub fn get(&self, name: &LowerName) -> (r: Option<&VpChain>)
        ensures match r { Some(c) => self.has(name.labels@, name.fqdn) && *c == self.at(name.labels@, name.fqdn), None => !self.has(name.labels@, name.fqdn) }
    { unimplemented!() }
}
pub struct Catalog { pub handlers: VpHandlers }
proof fn lemma_skip_skip(s: Seq<u64>, k: int)
    requires s.len() > 0, 0 <= k <= s.len() - 1
    ensures s.skip(1).skip(k) =~= s.skip(k + 1)
{}
impl Catalog {
//%fn crates/server/src/zone_handler/catalog.rs :: impl Catalog :: find
//%sub1 "Option<&Vec<Arc<dyn ZoneHandler + 'static>>>" => "Option<&VpChain>" # R-shim: handler chain type -> opaque stand-in
//%sub1 "self.handlers.get(name).or_else(|| {" => "match self.handlers.get(name) { Some(vp_c) => Some(vp_c), None => {" # R-shim: Option::or_else with a closure that recurses -> the match it abbreviates (closure body kept verbatim)
//%sub1 "} })" => "} } }" # R-shim (closing half of the same rewrite)
//%before "if"@1
            let ghost vp_s = name.labels@;
//%entry
        proof { assert(name.labels@.skip(0) =~= name.labels@); }
//%before "self.find(&name)"
                proof {
                    assert(name.labels@ == vp_s.skip(1) && vp_s.len() > 0);
                    assert forall|k: int| 0 <= k <= name.labels@.len() implies #[trigger] name.labels@.skip(k) == vp_s.skip(k + 1) by { lemma_skip_skip(vp_s, k); }
                    assert forall|k: int| 1 <= k <= vp_s.len() implies #[trigger] vp_s.skip(k) == name.labels@.skip(k - 1) by { lemma_skip_skip(vp_s, k - 1); }
                }
//%mutant root_zone_never_tried "if !name.is_root()" => "if name.labels.len() > 1"
//%mutant wildcard_aware_label_count "if !name.is_root()" => "if name.num_labels() > 0"
//%contract
        requires name.fqdn            // names taken from the wire are fully qualified; for an EMPTY RELATIVE name the recursion would not end
        // C11: the chain returned belongs to the LONGEST suffix of the name that is a configured origin; None only if no suffix (root included) is configured
        ensures match r {
            Some(c) => exists|k: int| 0 <= k <= name.labels@.len() && self.handlers.has(#[trigger] name.labels@.skip(k), true)
                && *c == self.handlers.at(name.labels@.skip(k), true)
                && (forall|j: int| 0 <= j < k ==> !self.handlers.has(#[trigger] name.labels@.skip(j), true)),
            None => forall|k: int| 0 <= k <= name.labels@.len() ==> !self.handlers.has(#[trigger] name.labels@.skip(k), true) }
        decreases name.labels@.len()
//%end
}
// (2) InnerAccessControl::allow (access.rs): "REFUSED if ... the source address is denied"; state anchor: "longest-prefix
//     allow overrides deny".  PrefixSet (prefix_trie crate) is opaque: get_lpm returns the longest configured prefix
//     containing the address, if any.
pub trait Prefix: Sized {
    spec fn plen(&self) -> u8;
    fn prefix_len(&self) -> (r: u8) ensures r == self.plen();
}
pub struct PrefixSet<I> { pub v: Vec<I> }
impl<I: Prefix> PrefixSet<I> {
    pub uninterp spec fn lpm(&self, ip: I) -> Option<I>;       // longest-prefix match
    pub uninterp spec fn nonempty(&self) -> bool;
    #[verifier::external_body]
    pub fn get_lpm(&self, ip: &I) -> (r: Option<&I>) ensures match r { Some(p) => self.lpm(*ip) == Some(*p), None => self.lpm(*ip) is None } { unimplemented!() }
    // the crate's other lookup: the SHORTEST configured prefix containing the address (some prefix matches iff the longest does;
    // if the shortest is the longest the two agree) -- not used by the repository, present so that a tree using it is judged
    pub uninterp spec fn spm(&self, ip: I) -> Option<I>;
    #[verifier::external_body]
    pub fn get_spm(&self, ip: &I) -> (r: Option<&I>)
        ensures match r { Some(p) => self.spm(*ip) == Some(*p), None => self.spm(*ip) is None },
            self.spm(*ip) is Some == self.lpm(*ip) is Some,
            self.spm(*ip) matches Some(s) ==> s.plen() <= self.lpm(*ip).unwrap().plen(),
    { unimplemented!() }
    // `set.iter().next().is_some()`
    #[verifier::external_body]
    pub fn vp_nonempty(&self) -> (r: bool) ensures r == self.nonempty() { unimplemented!() }
}
//%struct crates/server/src/access.rs :: InnerAccessControl
//%end
impl<I: Prefix> InnerAccessControl<I> {
//%fn crates/server/src/access.rs :: impl<I: Prefix> InnerAccessControl<I> :: allow
//%sub1 "self.deny.iter().next().is_some()" => "self.deny.vp_nonempty()" # R-shim: iterator `next().is_some()` on the prefix set -> non-emptiness
//%sub1 "self.allow.iter().next().is_some()" => "self.allow.vp_nonempty()" # R-shim
//%mutant equal_prefix_allow_wins "allowed.prefix_len() > denied.prefix_len()" => "allowed.prefix_len() >= denied.prefix_len()"
//%mutant deny_only_list_refuses_everyone "(true, _) => true," => "(true, _) => false,"
//%contract
        // C11: a source is refused exactly when the deny list matches it and no STRICTLY more specific allow entry
        // does, or when only an allow list exists and it does not match
        ensures r == match (self.deny.lpm(*ip), self.allow.lpm(*ip)) {
            (Some(d), Some(a)) => a.plen() > d.plen(),
            (Some(_), None) => false,
            (None, Some(_)) => true,
            (None, None) => self.deny.nonempty() || !self.allow.nonempty() }
//%end
}

} // verus!
fn main() {}
