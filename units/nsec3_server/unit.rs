//%unit nsec3_server
//%features std __dnssec dnssec-ring
use vstd::prelude::*;
verus! {
// ---- C09, completeness side ("for every NSEC3-signed zone and query the server's own proof is accepted"): the record the
//      authoritative server picks as COVERING a hashed name (server/src/store/in_memory/inner.rs::InnerInMemory::find_cover,
//      whole function). The NSEC3 chain is the ring of hashed owner names in canonical order, each record covering the
//      open interval up to the next owner; the record covering a hash t that is not itself an owner is therefore the one
//      with the LARGEST owner below t, or -- when t sorts before every owner -- the LAST record of the chain (its interval
//      wraps around). Hashed owner names are points of one total order (u64); iterator pipelines go through shims
//      specified by the closures' own contracts (closure bodies are the repository's text). ----
#[derive(Clone, Copy)] pub enum RecordType { NSEC3, Other(u16) }
impl vstd::std_specs::cmp::PartialEqSpecImpl for RecordType { open spec fn obeys_eq_spec() -> bool { true } open spec fn eq_spec(&self, o: &RecordType) -> bool { *self == *o } }
impl PartialEq for RecordType { fn eq(&self, o: &RecordType) -> (r: bool) { match (*self, *o) { (RecordType::NSEC3, RecordType::NSEC3) => true, (RecordType::Other(a), RecordType::Other(b)) => a == b, _ => false } } }
pub struct Name { pub h: u64 }
impl vstd::std_specs::cmp::PartialEqSpecImpl for Name { open spec fn obeys_eq_spec() -> bool { true } open spec fn eq_spec(&self, o: &Name) -> bool { self.h == o.h } }
impl PartialEq for Name { fn eq(&self, o: &Name) -> (r: bool) { self.h == o.h } }
impl vstd::std_specs::cmp::PartialOrdSpecImpl for Name {
    open spec fn obeys_partial_cmp_spec() -> bool { true }
    open spec fn partial_cmp_spec(&self, o: &Name) -> Option<core::cmp::Ordering> {
        Some(if self.h < o.h { core::cmp::Ordering::Less } else if self.h > o.h { core::cmp::Ordering::Greater } else { core::cmp::Ordering::Equal })
    }
}
impl PartialOrd for Name {
    fn partial_cmp(&self, o: &Name) -> (r: Option<core::cmp::Ordering>) {
        Some(if self.h < o.h { core::cmp::Ordering::Less } else if self.h > o.h { core::cmp::Ordering::Greater } else { core::cmp::Ordering::Equal })
    }
}
pub struct LowerName { pub n: Name }
pub struct RecordSet { pub name: Name, pub rtype: RecordType, pub vp: u64 }
impl RecordSet {
    pub fn name(&self) -> (r: &Name) ensures *r == self.name { &self.name }
    pub fn record_type(&self) -> (r: RecordType) ensures r == self.rtype { self.rtype }
}
pub struct ProtoError { pub vp: u64 }
pub struct Nsec3QueryInfo { pub vp: u64 }
pub uninterp spec fn hashed(info: Nsec3QueryInfo, name: LowerName, zone: Name) -> u64;
impl Nsec3QueryInfo {
    // Nsec3QueryInfo::hashed_owner_name: <base32(hash(name))>.<zone> (SHA-1, salt, iterations: opaque)
    #[verifier::external_body]
    pub fn hashed_owner_name(&self, name: &LowerName, zone: &Name) -> (r: Result<LowerName, ProtoError>)
        ensures r matches Ok(o) ==> o.n.h == hashed(*self, *name, *zone) { unimplemented!() }
}
// the zone's BTreeMap<RrKey, Arc<RecordSet>>, and a (cloneable) filtered view of its values
pub struct VpZoneMap { pub v: Vec<RecordSet> }
pub struct VpView<'a> { pub v: Vec<&'a RecordSet> }
impl<'a> VpView<'a> {
    pub open spec fn has(&self, x: RecordSet) -> bool { vhas(self.v@, x) }
    #[verifier::external_body] pub fn clone(&self) -> (r: VpView<'a>) ensures r.v@ == self.v@ { unimplemented!() }
}
impl VpZoneMap { pub open spec fn has(&self, x: RecordSet) -> bool { exists|i: int| 0 <= i < self.v@.len() && #[trigger] self.v@[i] == x } }
// membership in a view depends on the sequence of references only (a clone of a view has the same members)
pub open spec fn vhas(v: Seq<&RecordSet>, x: RecordSet) -> bool { exists|j: int| 0 <= j < v.len() && *#[trigger] v[j] == x }
// The shims take, as a ghost argument, the spec predicate / key function the closure computes; that the closure really
// computes it is the shim's PRECONDITION (discharged at the call, where the closure's verified contract is known).
// `map.values().filter(f)`: exactly the values f keeps
#[verifier::external_body]
pub fn vp_values_filter<'a, F: Fn(&&RecordSet) -> bool>(m: &'a VpZoneMap, f: F, Ghost(p): Ghost<spec_fn(RecordSet) -> bool>) -> (r: VpView<'a>)
    requires forall|x: &&RecordSet| call_requires(f, (x,)), forall|x: &&RecordSet, b: bool| #[trigger] call_ensures(f, (x,), b) ==> b == p(**x),
    ensures forall|x: RecordSet| #[trigger] vhas(r.v@, x) <==> (m.has(x) && p(x))
{ unimplemented!() }
// `view.filter(f).filter(g).max_by_key(k)`: an element kept by both filters whose key is the largest among those kept
#[verifier::external_body]
pub fn vp_filter_filter_max_by_key<'a, F: Fn(&&'a RecordSet) -> bool, G: Fn(&&'a RecordSet) -> bool, K: Fn(&&'a RecordSet) -> &'a Name>(
        view: VpView<'a>, f: F, g: G, k: K, Ghost(p): Ghost<spec_fn(RecordSet) -> bool>, Ghost(q): Ghost<spec_fn(RecordSet) -> bool>) -> (r: Option<&'a RecordSet>)
    requires forall|x: &&'a RecordSet| call_requires(f, (x,)) && call_requires(g, (x,)) && call_requires(k, (x,)),
        forall|x: &&'a RecordSet, b: bool| #[trigger] call_ensures(f, (x,), b) ==> b == p(**x),
        forall|x: &&'a RecordSet, b: bool| #[trigger] call_ensures(g, (x,), b) ==> b == q(**x),
        forall|x: &&'a RecordSet, kk: &'a Name| #[trigger] call_ensures(k, (x,), kk) ==> *kk == x.name,
    ensures match r {
        None => forall|x: RecordSet| #[trigger] vhas(view.v@, x) ==> !(p(x) && q(x)),
        Some(y) => vhas(view.v@, *y) && p(*y) && q(*y) && forall|x: RecordSet| #[trigger] vhas(view.v@, x) && p(x) && q(x) ==> x.name.h <= y.name.h }
{ unimplemented!() }
// `view.max_by_key(k)` / `view.min_by_key(k)` (the latter is not used by the repository; present so that a tree using it is judged)
#[verifier::external_body]
pub fn vp_max_by_key<'a, K: Fn(&&'a RecordSet) -> &'a Name>(view: VpView<'a>, k: K) -> (r: Option<&'a RecordSet>)
    requires forall|x: &&'a RecordSet| call_requires(k, (x,)), forall|x: &&'a RecordSet, kk: &'a Name| #[trigger] call_ensures(k, (x,), kk) ==> *kk == x.name,
    ensures match r { None => forall|x: RecordSet| !#[trigger] vhas(view.v@, x), Some(y) => vhas(view.v@, *y) && forall|x: RecordSet| #[trigger] vhas(view.v@, x) ==> x.name.h <= y.name.h }
{ unimplemented!() }
#[verifier::external_body]
pub fn vp_min_by_key<'a, K: Fn(&&'a RecordSet) -> &'a Name>(view: VpView<'a>, k: K) -> (r: Option<&'a RecordSet>)
    requires forall|x: &&'a RecordSet| call_requires(k, (x,)), forall|x: &&'a RecordSet, kk: &'a Name| #[trigger] call_ensures(k, (x,), kk) ==> *kk == x.name,
    ensures match r { None => forall|x: RecordSet| !#[trigger] vhas(view.v@, x), Some(y) => vhas(view.v@, *y) && forall|x: RecordSet| #[trigger] vhas(view.v@, x) ==> x.name.h >= y.name.h }
{ unimplemented!() }
// Option<&Arc<RecordSet>>::cloned
#[verifier::external_body]
pub fn vp_cloned(o: Option<&RecordSet>) -> (r: Option<RecordSet>)
    ensures match (o, r) { (Some(a), Some(b)) => b == *a, (None, None) => true, _ => false }
{ unimplemented!() }
pub struct InnerInMemory { pub records: VpZoneMap }
pub open spec fn is_nsec3(x: RecordSet) -> bool { x.rtype is NSEC3 }
impl InnerInMemory {
//%fn crates/server/src/store/in_memory/inner.rs :: impl InnerInMemory :: find_cover
//%sub1 "fn find_cover(" => "fn find_cover<'a>(" # R-ann: the lifetime the elided signature denotes, named so that closure types can mention it
//%sub1 "&self," => "&'a self," # R-ann: as above
//%sub1 "info: &Nsec3QueryInfo<'_>" => "info: &Nsec3QueryInfo" # stand-in type without the borrowed salt
//%sub1 "Result<Option<Arc<RecordSet>>, ProtoError>" => "Result<Option<RecordSet>, ProtoError>" # R-shim: the Arc around a stored RRset is dropped
//%sub1 "&*owner_name" => "&owner_name.n" # R-shim: Deref<Target = Name> for LowerName
//%sub1 "self .records .values() .filter(" => "vp_values_filter(&self.records," # R-iter: BTreeMap::values().filter(f) -> contract-specified shim (the closing parenthesis of filter( closes the shim call)
//%sub1 "); Ok(" => ", Ghost(|x: RecordSet| is_nsec3(x))); Ok(" # R-ann: the ghost argument naming what the closure computes (an obligation of the call)
//%sub1 "records .clone() .filter(" => "{ let ghost vp_view = records; let vp_r = match vp_filter_filter_max_by_key(records.clone()," # R-iter: `V.filter(f).filter(g).max_by_key(k).or_else(|| E).cloned()` -> one shim for filter/filter/max_by_key, the `match` that Option::or_else denotes, and a shim for cloned
//%sub1 ") .filter("@3 => "," # R-iter (same pipeline)
//%sub1 ") .max_by_key(" => "," # R-iter (same pipeline)
//%sub? ") .or_else(|| records.max_by_key(" => ", Ghost(|x: RecordSet| is_nsec3(x)), Ghost(|x: RecordSet| x.name.h < owner_name.n.h)) { Some(vp_x) => Some(vp_x), None => vp_max_by_key(records," # R-iter (same pipeline): Option::or_else written as the match it denotes; R-ann: ghost arguments
//%sub? ") .or_else(|| records.min_by_key(" => ", Ghost(|x: RecordSet| is_nsec3(x)), Ghost(|x: RecordSet| x.name.h < owner_name.n.h)) { Some(vp_x) => Some(vp_x), None => vp_min_by_key(records," # R-iter: the same with min_by_key as the fallback (so that such a tree is judged, not lost)
//%sub1 ")) .cloned()" => ") }; proof { let t = owner_name.n.h; assert forall|x: RecordSet| self.records.has(x) && is_nsec3(x) implies vhas(vp_view.v@, x) by {} assert forall|x: RecordSet| vhas(vp_view.v@, x) implies self.records.has(x) && is_nsec3(x) by {} if let Some(vp_y) = vp_r { assert(vhas(vp_view.v@, *vp_y)); if is_nsec3(*vp_y) && vp_y.name.h < t { assert(self.records.has(*vp_y) && is_nsec3(*vp_y) && vp_y.name.h < t); } } } vp_cloned(vp_r) }" # R-iter (same pipeline): closes the match, then the shim for cloned; R-ann: ghost steps
//%closure "|rr_set|"@1
|rr_set: &&RecordSet| -> (b: bool) ensures b == is_nsec3(**rr_set)
//%closure "|rr_set|"@2
|rr_set: &&'a RecordSet| -> (b: bool) ensures b == is_nsec3(**rr_set)
//%closure "|rr_set|"@3
|rr_set: &&'a RecordSet| -> (b: bool) ensures b == (rr_set.name.h < owner_name.n.h)
//%closure "|rr_set|"@4
|rr_set: &&'a RecordSet| -> (k: &'a Name) ensures *k == rr_set.name
//%closure "|rr_set|"@5
|rr_set: &&'a RecordSet| -> (k: &'a Name) ensures *k == rr_set.name
//%contract
        ensures
            r matches Ok(None) ==> forall|x: RecordSet| #[trigger] self.records.has(x) ==> !is_nsec3(x),   // only when the zone has no NSEC3 record at all
            // otherwise an NSEC3 RRset of the zone ...
            r matches Ok(Some(c)) ==> self.records.has(c) && is_nsec3(c),
            // ... the one with the largest hashed owner below t = H(name), if any owner is below t ...
            r matches Ok(Some(c)) ==> ((exists|x: RecordSet| #[trigger] self.records.has(x) && is_nsec3(x) && x.name.h < hashed(*info, *name, *zone))
                ==> c.name.h < hashed(*info, *name, *zone)
                    && forall|x: RecordSet| #[trigger] self.records.has(x) && is_nsec3(x) && x.name.h < hashed(*info, *name, *zone) ==> x.name.h <= c.name.h),
            // ... otherwise the LAST record of the chain (its interval wraps around to the first owner)
            r matches Ok(Some(c)) ==> (!(exists|x: RecordSet| #[trigger] self.records.has(x) && is_nsec3(x) && x.name.h < hashed(*info, *name, *zone))
                ==> forall|x: RecordSet| #[trigger] self.records.has(x) && is_nsec3(x) ==> x.name.h <= c.name.h),
//%end
}
} // verus!
fn main() {}
