//%unit chain_kernels
//%features std __dnssec dnssec-ring
use vstd::prelude::*;
verus! {
// ---- C07 kernels: one link of the chain of trust -- "established by DS digests matching DNSKEYs".
//      verify_dnskey (crates/net/src/dnssec/mod.rs) decides whether a DNSKEY is authenticated by the parent's DS RRset;
//      DS::covers (crates/proto/src/dnssec/rdata/ds.rs) is the digest comparison.  Digests and key tags are opaque. ----
pub struct Name { pub id: u64 }
impl Name { #[verifier::external_body] pub fn clone(&self) -> (r: Name) ensures r == *self { unimplemented!() } }
#[derive(Clone, Copy)] pub struct Algorithm(pub u8);
impl vstd::std_specs::cmp::PartialEqSpecImpl for Algorithm { open spec fn obeys_eq_spec() -> bool { true } open spec fn eq_spec(&self, o: &Algorithm) -> bool { self.0 == o.0 } }
impl PartialEq for Algorithm { fn eq(&self, o: &Algorithm) -> (r: bool) { self.0 == o.0 } }
pub uninterp spec fn alg_supported(a: Algorithm) -> bool;
impl Algorithm { #[verifier::external_body] pub fn is_supported(&self) -> (r: bool) ensures r == alg_supported(*self) { unimplemented!() } }
#[derive(Clone, Copy)] pub struct DigestType(pub u8);
pub struct ProtoError { pub vp: u64 }
pub type ProtoResult<T> = Result<T, ProtoError>;
pub struct Digest { pub bytes: Vec<u8> }
impl Digest { pub fn as_ref(&self) -> (r: &[u8]) ensures r@ == self.bytes@ { self.bytes.as_slice() } }
pub struct DNSKEY { pub zone_key: bool, pub algorithm: Algorithm, pub vp: u64 }
pub uninterp spec fn key_tag_of(k: DNSKEY) -> Option<u16>;                       // RFC 4034 appendix B checksum (None: could not be computed)
pub uninterp spec fn digest_of(name: Name, k: DNSKEY, t: DigestType) -> Option<Seq<u8>>;   // RFC 4034 5.1.4: digest(owner | DNSKEY RDATA)
impl DNSKEY {
    #[verifier::external_body]
    pub fn calculate_key_tag(&self) -> (r: ProtoResult<u16>) ensures match r { Ok(t) => key_tag_of(*self) == Some(t), Err(_) => key_tag_of(*self) is None } { unimplemented!() }
    pub fn algorithm(&self) -> (r: Algorithm) ensures r == self.algorithm { self.algorithm }
    pub fn zone_key(&self) -> (r: bool) ensures r == self.zone_key { self.zone_key }
    #[verifier::external_body]
    pub fn to_digest(&self, name: &Name, t: DigestType) -> (r: ProtoResult<Digest>)
        ensures match r { Ok(d) => digest_of(*name, *self, t) == Some(d.bytes@), Err(_) => digest_of(*name, *self, t) is None }
    { unimplemented!() }
}
#[verifier::external_body]
pub fn vp_slice_eq(a: &[u8], b: &[u8]) -> (r: bool) ensures r == (a@ == b@) { unimplemented!() }
//%struct crates/proto/src/dnssec/rdata/ds.rs :: DS
//%end
// RFC 4034 5.2 / RFC 4035 5.2: the DS refers to the DNSKEY: zone key, and the digest of (owner name | DNSKEY RDATA) under
// the DS's digest type equals the DS's digest
pub open spec fn ds_refers_to(ds: DS, name: Name, k: DNSKEY) -> bool {
    k.zone_key && digest_of(name, k, ds.digest_type) == Some(ds.digest@)
}
impl DS {
//%fn crates/proto/src/dnssec/rdata/ds.rs :: impl DS :: key_tag
//%contract
        ensures r == self.key_tag
//%end
//%fn crates/proto/src/dnssec/rdata/ds.rs :: impl DS :: algorithm
//%contract
        ensures r == self.algorithm
//%end
//%fn crates/proto/src/dnssec/rdata/ds.rs :: impl DS :: digest_type
//%contract
        ensures r == self.digest_type
//%end
//%fn crates/proto/src/dnssec/rdata/ds.rs :: impl DS :: digest
//%contract
        ensures r@ == self.digest@
//%end
//%fn crates/proto/src/dnssec/rdata/ds.rs :: impl DS :: covers
//%sub1 "hash.as_ref() == self.digest()" => "vp_slice_eq(hash.as_ref(), self.digest())" # R-shim: PartialEq on [u8]
//%closure "|hash|"
|hash: Digest| -> (b: bool) ensures b == (key.zone_key && hash.bytes@ == self.digest@)
//%mutant zone_key_flag_ignored "key.zone_key() &&" => ""
//%contract
        ensures r matches Ok(b) ==> b == ds_refers_to(*self, *name, *key)
//%end
}
// ---------------- verify_dnskey: is this DNSKEY authenticated by the parent's (validated) DS RRset? ----------------
//%enum crates/proto/src/dnssec/proof.rs :: Proof
//%end
impl Proof {
//%fn crates/proto/src/dnssec/proof.rs :: impl Proof :: is_secure
//%sub1 "*self == Self::Secure" => "matches!(*self, Self::Secure)" # R-shim: derived PartialEq on a field-less enum -> the pattern it denotes
//%contract
        ensures r == (*self is Secure)
//%end
}
// the variants of error.rs::ProofErrorKind that verify_dnskey constructs (payloads are never inspected)
pub enum ProofErrorKind { ErrorComputingKeyTag { name: Name }, UnsupportedKeyAlgorithm, DnsKeyHasNoDs { name: Name } }
pub struct ProofError { pub proof: Proof, pub kind: ProofErrorKind }
impl ProofError {
    // error.rs::ProofError::new boxes the kind; the box is irrelevant here
    pub fn new(p: Proof, kind: ProofErrorKind) -> (r: Self) ensures r.proof == p { ProofError { proof: p, kind } }
}
pub struct Record<R> { pub name: Name, pub data: R, pub proof: Proof }
pub struct RecordRef<'a, R> { pub name: &'a Name, pub data: &'a R }
impl<'a, R> RecordRef<'a, R> {
    pub fn name(&self) -> (r: &Name) ensures *r == *self.name { self.name }
    pub fn data(&self) -> (r: &R) ensures *r == *self.data { self.data }
}
//%const crates/net/src/dnssec/mod.rs :: MAX_KEY_TAG_COLLISIONS
//%end
// `ds_records.iter().filter(|ds| ds.proof.is_secure())` as a loop source: R-for over the slice with the filter applied
// as the first statement of the body
//%fn crates/net/src/dnssec/mod.rs :: verify_dnskey
//%sub? "for r in ds_records.iter().filter(|ds| ds.proof.is_secure()) {" => "let mut vp_k: usize = 0; while vp_k < ds_records.len() invariant vp_k <= ds_records@.len(), key_authentication_attempts <= vp_k, key_tag_of(*rr.data) == Some(key_tag), key_algorithm == rr.data.algorithm, key_rdata == rr.data decreases ds_records@.len() - vp_k { let r = &ds_records[vp_k]; vp_k += 1; if !(r.proof.is_secure()) { continue; }" # R-iter: `for x in s.iter().filter(p) { B }` written as the indexed loop `while k < s.len() { let x = &s[k]; k += 1; if !p(x) { continue; } B }` (Verus has no `continue` in `for`); predicate and body verbatim
//%sub? "for r in ds_records.iter() {" => "let mut vp_k: usize = 0; while vp_k < ds_records.len() invariant vp_k <= ds_records@.len(), key_authentication_attempts <= vp_k, key_tag_of(*rr.data) == Some(key_tag), key_algorithm == rr.data.algorithm, key_rdata == rr.data decreases ds_records@.len() - vp_k { let r = &ds_records[vp_k]; vp_k += 1;" # R-iter (form without the filter: not the current source; kept so that a dropped filter is judged, not lost): `for x in s.iter().filter(p) { B }` written as the indexed loop `while k < s.len() { let x = &s[k]; k += 1; if !p(x) { continue; } B }` (Verus has no `continue` in `for`); predicate and body verbatim
//%sub? "for r in ds_records {" => "let mut vp_k: usize = 0; while vp_k < ds_records.len() invariant vp_k <= ds_records@.len(), key_authentication_attempts <= vp_k, key_tag_of(*rr.data) == Some(key_tag), key_algorithm == rr.data.algorithm, key_rdata == rr.data decreases ds_records@.len() - vp_k { let r = &ds_records[vp_k]; vp_k += 1;" # R-iter (form without the filter: not the current source; kept so that a dropped filter is judged, not lost): `for x in s.iter().filter(p) { B }` written as the indexed loop `while k < s.len() { let x = &s[k]; k += 1; if !p(x) { continue; } B }` (Verus has no `continue` in `for`); predicate and body verbatim
//%sub1 ".map_err(|_| {" => ".map_err(|vp_e: ProtoError| -> (e: ProofError) ensures e.proof is Insecure {" # R-clo: typed closure, `_` parameter named
//%before "return Ok(Proof::Secure);"
        proof {
            let i = vp_k - 1;
            assert(*r == ds_records@[i]);
            assert(ds_refers_to(ds_records@[i].data, *rr.name, *rr.data));
        }
//%sub1 "!r.data.covers(rr.name(), key_rdata).unwrap_or(false)" => "!vp_unwrap_or_false(r.data.covers(rr.name(), key_rdata))" # R-shim: Result::unwrap_or
//%attr #[verifier::loop_isolation(false)]
//%mutant digest_not_compared "if !r.data.covers(rr.name(), key_rdata).unwrap_or(false) { continue; }" => ""
//%mutant key_tag_not_compared "if r.data.key_tag() != key_tag {" => "if false {"
//%contract
    // C07: the link parent DS -> child DNSKEY is established only by a DS record that was itself validated (Secure),
    // names the key's algorithm and key tag, and whose digest is the digest of this owner name and DNSKEY (a zone key)
    ensures r matches Ok(p) ==> p is Secure && alg_supported(rr.data.algorithm)
        && exists|i: int| 0 <= i < ds_records@.len() && (#[trigger] ds_records@[i]).proof is Secure
            && ds_records@[i].data.algorithm.0 == rr.data.algorithm.0 && key_tag_of(*rr.data) == Some(ds_records@[i].data.key_tag)
            && ds_refers_to(ds_records@[i].data, *rr.name, *rr.data),
        // a key without such a DS is never Secure: the error carries Insecure (unsupported algorithm / tag error) or Bogus
        r matches Err(e) ==> !(e.proof is Secure),
//%end
pub fn vp_unwrap_or_false(r: ProtoResult<bool>) -> (b: bool) ensures b == (r matches Ok(true)) { match r { Ok(v) => v, Err(_) => false } }

} // verus!
fn main() {}
