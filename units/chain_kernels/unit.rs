//%unit chain_kernels
//%features std __dnssec dnssec-ring
use vstd::prelude::*;
verus! {
// ---- C07 kernels: one link of the chain of trust -- "established by DS digests matching DNSKEYs".
//      verify_dnskey (crates/net/src/dnssec/mod.rs) decides whether a DNSKEY is authenticated by the parent's DS RRset;
//      DS::covers (crates/proto/src/dnssec/rdata/ds.rs) is the digest comparison.  Digests and key tags are opaque. ----
pub struct Name { pub id: u64 }
impl Name { #[verifier::external_body] pub fn clone(&self) -> (r: Name) ensures r == *self { unimplemented!() } }
#[derive(Clone, Copy)] pub struct Algorithm(pub u8);
impl vstd::std_specs::cmp::PartialEqSpecImpl for Algorithm { open spec fn obeys_eq_spec() -> bool { true } open spec fn eq_spec(&self, o: &Algorithm) -> bool { self.0 == o.0 } }
impl PartialEq for Algorithm { fn eq(&self, o: &Algorithm) -> (r: bool) { self.0 == o.0 } }
pub uninterp spec fn alg_supported(a: Algorithm) -> bool;
impl Algorithm { #[verifier::external_body] pub fn is_supported(&self) -> (r: bool) ensures r == alg_supported(*self) { unimplemented!() } }
#[derive(Clone, Copy)] pub struct DigestType(pub u8);
pub struct ProtoError { pub vp: u64 }
pub type ProtoResult<T> = Result<T, ProtoError>;
pub struct Digest { pub bytes: Vec<u8> }
impl Digest { pub fn as_ref(&self) -> (r: &[u8]) ensures r@ == self.bytes@ { self.bytes.as_slice() } }
pub struct DNSKEY { pub zone_key: bool, pub algorithm: Algorithm, pub vp: u64 }
pub uninterp spec fn key_tag_of(k: DNSKEY) -> Option<u16>;                       // RFC 4034 appendix B checksum (None: could not be computed)
pub uninterp spec fn digest_of(name: Name, k: DNSKEY, t: DigestType) -> Option<Seq<u8>>;   // RFC 4034 5.1.4: digest(owner | DNSKEY RDATA)
impl DNSKEY {
    #[verifier::external_body]
    pub fn calculate_key_tag(&self) -> (r: ProtoResult<u16>) ensures match r { Ok(t) => key_tag_of(*self) == Some(t), Err(_) => key_tag_of(*self) is None } { unimplemented!() }
    pub fn algorithm(&self) -> (r: Algorithm) ensures r == self.algorithm { self.algorithm }
    pub fn zone_key(&self) -> (r: bool) ensures r == self.zone_key { self.zone_key }
    #[verifier::external_body]
    pub fn to_digest(&self, name: &Name, t: DigestType) -> (r: ProtoResult<Digest>)
        ensures match r { Ok(d) => digest_of(*name, *self, t) == Some(d.bytes@), Err(_) => digest_of(*name, *self, t) is None }
    { unimplemented!() }
}
#[verifier::external_body]
pub fn vp_slice_eq(a: &[u8], b: &[u8]) -> (r: bool) ensures r == (a@ == b@) { unimplemented!() }
//%struct crates/proto/src/dnssec/rdata/ds.rs :: DS
//%end
// RFC 4034 5.2 / RFC 4035 5.2: the DS refers to the DNSKEY: zone key, and the digest of (owner name | DNSKEY RDATA) under
// the DS's digest type equals the DS's digest
pub open spec fn ds_refers_to(ds: DS, name: Name, k: DNSKEY) -> bool {
    k.zone_key && digest_of(name, k, ds.digest_type) == Some(ds.digest@)
}
impl DS {
//%fn crates/proto/src/dnssec/rdata/ds.rs :: impl DS :: key_tag
//%contract
        ensures r == self.key_tag
//%end
//%fn crates/proto/src/dnssec/rdata/ds.rs :: impl DS :: algorithm
//%contract
        ensures r == self.algorithm
//%end
//%fn crates/proto/src/dnssec/rdata/ds.rs :: impl DS :: digest_type
//%contract
        ensures r == self.digest_type
//%end
//%fn crates/proto/src/dnssec/rdata/ds.rs :: impl DS :: digest
//%contract
        ensures r@ == self.digest@
//%end
//%fn crates/proto/src/dnssec/rdata/ds.rs :: impl DS :: covers
//%sub1 "hash.as_ref() == self.digest()" => "vp_slice_eq(hash.as_ref(), self.digest())" # R-shim: PartialEq on [u8]
//%closure "|hash|"
|hash: Digest| -> (b: bool) ensures b == (key.zone_key && hash.bytes@ == self.digest@)
//%mutant zone_key_flag_ignored "key.zone_key() &&" => ""
//%contract
        ensures r matches Ok(b) ==> b == ds_refers_to(*self, *name, *key)
//%end
}
} // verus!
fn main() {}
