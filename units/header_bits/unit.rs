//%unit header_bits
//%features std
use vstd::prelude::*;
use vstd::std_specs::iter::IteratorSpec;
verus! {
//%include ../common/decoder.rs
//%include ../common/error.rs
//%include ../common/encoder.rs
//%include ../common/header.rs



//%fn crates/proto/src/op/header.rs :: impl<'r> BinDecodable<'r> for Header :: read
//%rename header_read<'r>
//%sub1 "Result<Self, DecodeError>" => "Result<Header, DecodeError>" # R-sel: trait-impl method pulled out as a free fn
//%sub1 "Ok(Self { metadata, counts })" => "Ok(Header { metadata, counts })" # R-sel
//%contract
    requires old(decoder).wf()
    ensures final(decoder).wf(), final(decoder).buf() == old(decoder).buf(),
        match r {
            // C01: 12 octets or an error; C02: the header read back is the one whose octets these are
            Ok(h) => final(decoder).idx() == old(decoder).idx() + 12 && hdr_bytes_at(h, old(decoder).buf(), old(decoder).idx(), 0xBF)
                  && opcode_ok(h.metadata.op_code) && rcode_ok(h.metadata.response_code) && rcode_val(h.metadata.response_code) < 16,
            Err(_) => old(decoder).idx() + 12 > old(decoder).buf().len() && final(decoder).idx() >= old(decoder).idx(),
        }
//%before "let metadata = Metadata"
        proof {
            let b = q_opcd_a_t_r;
            let v = (0b0111_1000u8 & b) >> 3;
            assert(v < 16 && b == ((if (0x80u8 & b) == 0x80 { 0x80u8 } else { 0u8 }) | (v << 3) | (if (4u8 & b) == 4 { 4u8 } else { 0u8 })
                   | (if (2u8 & b) == 2 { 2u8 } else { 0u8 }) | (if (1u8 & b) == 1 { 1u8 } else { 0u8 }))) by (bit_vector)
                requires v == (0b0111_1000u8 & b) >> 3;
            let c = r_z_ad_cd_rcod;
            let lo = ((0b0000_1111u8 & c) as u16) & 0x000F;
            assert(lo < 16 && c & 0xBF == ((if (0x80u8 & c) == 0x80 { 0x80u8 } else { 0u8 }) | (if (0x20u8 & c) == 0x20 { 0x20u8 } else { 0u8 })
                   | (if (0x10u8 & c) == 0x10 { 0x10u8 } else { 0u8 }) | ((lo & 0x000F) as u8))) by (bit_vector)
                requires lo == ((0b0000_1111u8 & c) as u16) & 0x000F;
            lemma_rcode_roundtrip(response_code, lo);
        }
//%mutant opcode_mask "(0b0111_1000 & q_opcd_a_t_r) >> 3" => "(0b0011_1000 & q_opcd_a_t_r) >> 3"
//%mutant ad_cd_swapped "let authentic_data = (0b0010_0000 & r_z_ad_cd_rcod) == 0b0010_0000;" => "let authentic_data = (0b0001_0000 & r_z_ad_cd_rcod) == 0b0001_0000;"
//%end

// ---- C02 round-trip lemmas over the two contracts above ----
// a header byte determines the fields it was built from (so read(emit(h)) == h field by field)
pub proof fn lemma_hdr_b2_inj(m1: Metadata, m2: Metadata)
    requires opcode_ok(m1.op_code), opcode_ok(m2.op_code), hdr_b2(m1) == hdr_b2(m2)
    ensures m1.message_type == m2.message_type, m1.op_code == m2.op_code, m1.authoritative == m2.authoritative,
        m1.truncation == m2.truncation, m1.recursion_desired == m2.recursion_desired
{
    let (t1, t2) = (if m1.message_type == MessageType::Response { 0x80u8 } else { 0u8 }, if m2.message_type == MessageType::Response { 0x80u8 } else { 0u8 });
    let (v1, v2) = (opcode_val(m1.op_code), opcode_val(m2.op_code));
    let (a1, a2) = (if m1.authoritative { 4u8 } else { 0u8 }, if m2.authoritative { 4u8 } else { 0u8 });
    let (c1, c2) = (if m1.truncation { 2u8 } else { 0u8 }, if m2.truncation { 2u8 } else { 0u8 });
    let (d1, d2) = (if m1.recursion_desired { 1u8 } else { 0u8 }, if m2.recursion_desired { 1u8 } else { 0u8 });
    assert(t1 == t2 && v1 == v2 && a1 == a2 && c1 == c2 && d1 == d2) by (bit_vector)
        requires (t1 | (v1 << 3) | a1 | c1 | d1) == (t2 | (v2 << 3) | a2 | c2 | d2), v1 < 16, v2 < 16,
            t1 == 0x80 || t1 == 0, t2 == 0x80 || t2 == 0, a1 == 4 || a1 == 0, a2 == 4 || a2 == 0,
            c1 == 2 || c1 == 0, c2 == 2 || c2 == 0, d1 == 1 || d1 == 0, d2 == 1 || d2 == 0;
}
pub proof fn lemma_hdr_b3_inj(m1: Metadata, m2: Metadata)
    requires rcode_ok(m1.response_code), rcode_ok(m2.response_code), rcode_val(m1.response_code) < 16, rcode_val(m2.response_code) < 16,
        hdr_b3(m1) == hdr_b3(m2)
    ensures m1.recursion_available == m2.recursion_available, m1.authentic_data == m2.authentic_data,
        m1.checking_disabled == m2.checking_disabled, m1.response_code == m2.response_code
{
    let (r1, r2) = (if m1.recursion_available { 0x80u8 } else { 0u8 }, if m2.recursion_available { 0x80u8 } else { 0u8 });
    let (a1, a2) = (if m1.authentic_data { 0x20u8 } else { 0u8 }, if m2.authentic_data { 0x20u8 } else { 0u8 });
    let (c1, c2) = (if m1.checking_disabled { 0x10u8 } else { 0u8 }, if m2.checking_disabled { 0x10u8 } else { 0u8 });
    let (v1, v2) = (rcode_val(m1.response_code), rcode_val(m2.response_code));
    assert(r1 == r2 && a1 == a2 && c1 == c2 && v1 == v2) by (bit_vector)
        requires (r1 | a1 | c1 | ((v1 & 0x000F) as u8)) == (r2 | a2 | c2 | ((v2 & 0x000F) as u8)), v1 < 16, v2 < 16,
            r1 == 0x80 || r1 == 0, r2 == 0x80 || r2 == 0, a1 == 0x20 || a1 == 0, a2 == 0x20 || a2 == 0, c1 == 0x10 || c1 == 0, c2 == 0x10 || c2 == 0;
    lemma_rcode_roundtrip(m1.response_code, v1);
    lemma_rcode_roundtrip(m2.response_code, v2);
}
// whatever Header::read returns for the octets Header::emit wrote is the header that was emitted
// (for 4-bit opcodes / the low 4 rcode bits; the high rcode bits travel in the OPT record)
pub proof fn lemma_header_roundtrip(h: Header, h2: Header, b: Seq<u8>, o: int)
    requires opcode_ok(h.metadata.op_code), rcode_ok(h.metadata.response_code), rcode_val(h.metadata.response_code) < 16,
        opcode_ok(h2.metadata.op_code), rcode_ok(h2.metadata.response_code), rcode_val(h2.metadata.response_code) < 16,
        hdr_bytes_at(h, b, o, 0xFF), hdr_bytes_at(h2, b, o, 0xBF),
    ensures h2.metadata.id == h.metadata.id, h2.metadata.message_type == h.metadata.message_type, h2.metadata.op_code == h.metadata.op_code,
        h2.metadata.authoritative == h.metadata.authoritative, h2.metadata.truncation == h.metadata.truncation,
        h2.metadata.recursion_desired == h.metadata.recursion_desired, h2.metadata.recursion_available == h.metadata.recursion_available,
        h2.metadata.authentic_data == h.metadata.authentic_data, h2.metadata.checking_disabled == h.metadata.checking_disabled,
        h2.metadata.response_code == h.metadata.response_code, h2.counts == h.counts,
{
    lemma_hdr_b2_inj(h.metadata, h2.metadata);
    let x = hdr_b3(h.metadata);
    let y = b[o + 3];
    assert(y & 0xFF == x ==> (y & 0xBF == x || (x & 0x40) != 0)) by (bit_vector);
    let (r1, a1, c1, v1) = (if h.metadata.recursion_available { 0x80u8 } else { 0u8 }, if h.metadata.authentic_data { 0x20u8 } else { 0u8 },
        if h.metadata.checking_disabled { 0x10u8 } else { 0u8 }, rcode_val(h.metadata.response_code));
    assert(((r1 | a1 | c1 | ((v1 & 0x000F) as u8)) & 0x40) == 0) by (bit_vector)
        requires v1 < 16, r1 == 0x80 || r1 == 0, a1 == 0x20 || a1 == 0, c1 == 0x10 || c1 == 0;
    lemma_hdr_b3_inj(h.metadata, h2.metadata);
}
} // verus!
fn main() {}
