//%unit name_build
//%features std
use vstd::prelude::*;
use vstd::std_specs::iter::IteratorSpec;
verus! {
//%include ../common/decoder.rs
//%include ../common/error.rs
//%include ../common/name.rs
//%include ../common/label_iter.rs

// ---- Label (label.rs): 1..=63 octets is a type invariant, established by from_raw_bytes ----
//%gsub "TinyVec<[u8; 24]>" => "Vec<u8>" # R-tiny
//%struct crates/proto/src/rr/domain/label.rs :: Label
//%novis
//%end
impl vstd::std_specs::convert::FromSpecImpl<&'static str> for ProtoError {
    open spec fn obeys_from_spec() -> bool { true }
    open spec fn from_spec(m: &'static str) -> Self { ProtoError::Message(m) }
}
impl From<&'static str> for ProtoError {
//%fn crates/proto/src/error.rs :: impl From<&'static str> for ProtoError :: from
//%end
}
impl Label {
    #[verifier::type_invariant]
    pub closed spec fn inv(self) -> bool { 1 <= self.0@.len() <= 63 }
    pub closed spec fn bytes(&self) -> Seq<u8> { self.0@ }
//%fn crates/proto/src/rr/domain/label.rs :: impl Label :: from_raw_bytes
//%contract
        // RFC 2181 section 11: "The length of any one label is limited to between 1 and 63 octets"
        ensures match r { Ok(l) => l.bytes() == bytes@ && 1 <= bytes@.len() <= 63, Err(_) => bytes@.len() == 0 || bytes@.len() > 63 }
//%sub1 "TinyVec::from(bytes)" => "vp_slice_to_owned(bytes)" # R-tiny / R-shim: TinyVec::from(&[u8]) copies the bytes
//%mutant max_64 "bytes.len() > 63" => "bytes.len() > 64"
//%mutant empty_allowed "if bytes.is_empty()" => "if false && bytes.is_empty()"
//%end
//%fn crates/proto/src/rr/domain/label.rs :: impl Label :: as_bytes
//%contract
        ensures r@ == self.bytes(), 1 <= r@.len() <= 63
//%entry
        proof { use_type_invariant(self); }
//%sub1 "&self.0" => "self.0.as_slice()" # R-tiny: deref of TinyVec to a slice == Vec::as_slice
//%end
}
// interface of label.rs::IntoLabel with its contract; proved below for &[u8], Vec<u8>, Label, &Label,
// ASSUMED for &str / String (IDNA / punycode conversion is outside Verus)
pub trait IntoLabel: Sized {
    fn into_label(self) -> (r: ProtoResult<Label>);
}
impl IntoLabel for Label {
//%fn crates/proto/src/rr/domain/label.rs :: impl IntoLabel for Label :: into_label
//%end
}
impl IntoLabel for &[u8] {
//%fn crates/proto/src/rr/domain/label.rs :: impl IntoLabel for &[u8] :: into_label
//%end
}
impl IntoLabel for Vec<u8> {
//%fn crates/proto/src/rr/domain/label.rs :: impl IntoLabel for Vec<u8> :: into_label
//%sub1 "&self" => "self.as_slice()" # R-shim: &Vec<u8> -> &[u8] deref coercion written out
//%end
}

// ---- C04: "no constructor or combinator (append, prepend, wildcard, ...) yields a name above 255
//      octets or a label above 63" ----
impl Name {
//%fn crates/proto/src/rr/domain/name.rs :: impl Name :: new
//%sub1 "Self::default()" => "Name::vp_default()" # R-shim: derived Default -> verified model vp_default
//%contract
        ensures r.wf(), r.nlabels() == 0, !r.is_fqdn, r.labels_bounded()
//%end
//%fn crates/proto/src/rr/domain/name.rs :: impl Name :: root
//%contract
        ensures r.wf(), r.nlabels() == 0, r.is_fqdn, r.labels_bounded()
//%end

//%fn crates/proto/src/rr/domain/name.rs :: impl Name :: append_label
//%mutself
//%contract
        requires self.wf()
        ensures match r {
            Ok(n) => n.wf() && n.nlabels() == self.nlabels() + 1 && n.is_fqdn == self.is_fqdn
                  && n.labels().take(self.nlabels()) =~= self.labels()
                  && 1 <= n.labels()[self.nlabels()].len() <= 63
                  && (self.labels_bounded() ==> n.labels_bounded()),
            Err(_) => true,
        }
//%entry
        proof { reveal(Name::labels); }
//%end

//%fn crates/proto/src/rr/domain/name.rs :: impl Name :: prepend_label
//%contract
        requires self.wf()
        ensures match r {
            Ok(n) => n.wf()                                                  // <= 255 octets
                  && n.nlabels() == self.nlabels() + 1 && n.is_fqdn == self.is_fqdn
                  && n.labels().skip(1) =~= self.labels() && 1 <= n.labels()[0].len() <= 63
                  && (self.labels_bounded() ==> n.labels_bounded()),
            Err(_) => true,
        }
//%entry
        let ghost ys = self.labels();
        proof {
            reveal(Name::labels);
            assert forall|i: int| label_slice(self, i)@ == self.label(i) by { lemma_label_slice_view(self, i); }
        }
//%after "for label in"
            vp_it:
//%after "for label in self.into_iter()"
            invariant
                name.wf(), ys == self.labels(), self.wf(),
                0 <= vp_it.index@ <= ys.len(),
                vp_it.snapshot@.remaining().len() == ys.len(),
                forall|j: int| 0 <= j < ys.len() ==> (#[trigger] vp_it.snapshot@.remaining()[j])@ == ys[j],
                name.nlabels() == vp_it.index@ + 1, 1 <= name.labels()[0].len() <= 63,
                name.labels().skip(1) =~= ys.take(vp_it.index@),
                self.labels_bounded() ==> name.labels_bounded(),
//%sub1 "self.into_iter()" => "self.vp_ref_into_iter()" # R-sel: call of the pulled-out method
//%after "for label in self.into_iter() {"
            proof {
                let k = vp_it.index@;
                assert(label@ == ys[k]);
                assert(ys.take(k + 1) =~= ys.take(k).push(ys[k]));
                lemma_label_len(self, k);
                assert(self.labels_bounded() ==> 1 <= self.label_ends@[k] as int - self.lstart(k) <= 63);
                let before = name.labels();
                assert(before.len() == name.nlabels()) by { reveal(Name::labels); }
                assert(before.push(ys[k]).skip(1) =~= before.skip(1).push(ys[k]));
                assert(before.push(ys[k])[0] == before[0]);
            }
//%before "name.set_fqdn(self.is_fqdn);"
        proof { assert(ys.take(ys.len() as int) =~= ys); }
//%end

//%fn crates/proto/src/rr/domain/name.rs :: impl Name :: append_name
//%mutself
//%contract
        requires self.wf(), other.wf()
        ensures match r {
            Ok(n) => n.wf()                                                        // <= 255 octets
                  && n.labels() =~= self.labels() + other.labels()                 // exactly the labels of both, in order
                  && n.is_fqdn == other.is_fqdn
                  && (self.labels_bounded() && other.labels_bounded() ==> n.labels_bounded()),   // labels stay 1..=63
            Err(_) => self.enc_len() + other.enc_len() - 1 > 255,                  // fails only when the result would not fit
        }
//%entry
        let ghost self0 = self;
        let ghost ys = other.labels();
        proof {
            reveal(Name::labels);
            assert forall|i: int| label_slice(other, i)@ == other.label(i) by { lemma_label_slice_view(other, i); }
        }
//%after "for label in"
            vp_it:
//%after "for label in other.iter()"
            invariant
                vp_self.wf(), ys == other.labels(), other.wf(), self0 == self,
                0 <= vp_it.index@ <= ys.len(),
                vp_it.snapshot@.remaining().len() == ys.len(),
                forall|j: int| 0 <= j < ys.len() ==> (#[trigger] vp_it.snapshot@.remaining()[j])@ == ys[j],
                vp_self.labels() =~= self0.labels() + ys.take(vp_it.index@),
                vp_self.enc_len() == self0.enc_len() + lens_sum(ys.take(vp_it.index@)),
                self0.labels_bounded() && other.labels_bounded() ==> vp_self.labels_bounded(),
//%after "for label in other.iter() {"
            proof {
                let k = vp_it.index@;
                assert(label@ == ys[k]);
                assert(ys.take(k + 1) =~= ys.take(k).push(ys[k]));
                lemma_lens_sum_push(ys.take(k), ys[k]);
                lemma_lens_sum_le(ys, k + 1);
                lemma_label_len(other, k);
                lemma_lens_sum_total(other);
                assert(lens_sum(ys.take(k + 1)) == lens_sum(ys.take(k)) + label@.len() + 1);
                assert(lens_sum(ys.take(k + 1)) <= other.enc_len() - 1);
                assert(vp_self.enc_len() + label@.len() + 1 <= self0.enc_len() + other.enc_len() - 1);
            }
//%before "self.is_fqdn = other.is_fqdn;"
        proof {
            assert(ys.take(ys.len() as int) =~= ys);
        }
//%mutant data_without_end ".extend_name(label)?;" => ".label_data.extend_from_slice(label);"
//%end

//%fn crates/proto/src/rr/domain/name.rs :: impl Name :: into_wildcard
//%sub "TinyVec::new()" => "Vec::new()" # R-tiny
//%contract
        // every label of a constructed name has 1..=63 octets (labels_bounded); that is exactly the
        // "should always be shorter than the original name" argument the source comment relies on
        requires self.wf(), self.labels_bounded()
        ensures r.wf(),                                                    // C04: <= 255 octets, although extend_name's guard is bypassed
            r.labels_bounded(),                                            // and every label still 1..=63
            r.nlabels() == self.nlabels(), r.enc_len() <= self.enc_len(),
            self.nlabels() > 0 ==> r.is_fqdn == self.is_fqdn,
//%entry
        proof {
            assert forall|i: int| label_slice(&self, i)@ == self.label(i) by { lemma_label_slice_view(&self, i); }
            assert(self.nlabels() > 0 ==> 1 <= self.label_ends@[0] as int - self.lstart(0));
        }
//%after "for label in"
            vp_it:
//%after "for label in self.iter().skip(1)"
            invariant
                self.wf(), self.labels_bounded(), self.nlabels() > 0,
                0 <= vp_it.index@ <= self.nlabels() - 1,
                vp_it.snapshot@.remaining().len() == self.nlabels() - 1,
                forall|j: int| 0 <= j < self.nlabels() - 1 ==> (#[trigger] vp_it.snapshot@.remaining()[j])@ == self.label(j + 1),
                label_ends@.len() == vp_it.index@ + 1,
                label_data@.len() == 1 + self.lend(vp_it.index@) - self.lend(0),
                forall|i: int| 0 <= i <= vp_it.index@ ==> (#[trigger] label_ends@[i]) as int == 1 + self.lend(i) - self.lend(0),
//%after "for label in self.iter().skip(1) {"
            proof {
                let k = vp_it.index@;
                assert(label@ == self.label(k + 1));
                assert(self.lstart(k + 1) <= self.label_ends@[k + 1] as int <= self.label_data@.len());
                assert(1 <= self.label_ends@[0] as int - self.lstart(0));
            }
//%before "Self { label_data, label_ends, is_fqdn: self.is_fqdn, }"
        proof {
            let n = self.nlabels();
            assert(1 <= self.label_ends@[0] as int - self.lstart(0));
            assert forall|i: int| 0 <= i < n implies 1 <= (#[trigger] label_ends@[i]) as int - (if i <= 0 { 0 } else { label_ends@[i - 1] as int }) <= 63
                && (if i <= 0 { 0 } else { label_ends@[i - 1] as int }) <= label_ends@[i] as int <= label_data@.len() by {
                assert(1 <= self.label_ends@[i] as int - self.lstart(i) <= 63);
                assert(self.lstart(i) <= self.label_ends@[i] as int <= self.label_data@.len());
                if i > 0 { assert(self.lstart(i - 1) <= self.label_ends@[i - 1] as int); }
            }
        }
//%mutant star_label_len_2 "label_ends.push(1);" => "label_ends.push(2);"
//%end

//%fn crates/proto/src/rr/domain/name.rs :: impl Name :: append_domain
//%contract
        requires self.wf(), domain.wf()
        ensures match r {
            Ok(n) => n.wf() && n.labels() =~= self.labels() + domain.labels() && n.is_fqdn
                  && (self.labels_bounded() && domain.labels_bounded() ==> n.labels_bounded()),
            Err(_) => true,
        }
//%end
}

impl Name {
//%fn crates/proto/src/rr/domain/name.rs :: impl<'a> IntoIterator for &'a Name :: into_iter
//%rename vp_ref_into_iter<'a>
//%sub1 "(self)" => "(&'a self)" # R-sel: method of `impl IntoIterator for &'a Name` pulled out as an inherent method (a trait impl cannot carry the wf precondition); receiver type written out
//%sub1 "Self::IntoIter" => "LabelIter<'a>" # R-sel: associated type written out
//%contract
        requires self.wf()
        ensures r.rem() =~= Seq::new(self.nlabels() as nat, |i: int| label_slice(self, i)),
//%end
}

// total encoded size of a sequence of labels (length octet + data each)
pub open spec fn lens_sum(x: Seq<Seq<u8>>) -> int decreases x.len() {
    if x.len() == 0 { 0 } else { lens_sum(x.drop_last()) + x.last().len() + 1 }
}
pub proof fn lemma_lens_sum_push(x: Seq<Seq<u8>>, l: Seq<u8>)
    ensures lens_sum(x.push(l)) == lens_sum(x) + l.len() + 1
{
    assert(x.push(l).drop_last() =~= x);
}
pub proof fn lemma_lens_sum_le(x: Seq<Seq<u8>>, k: int)
    requires 0 <= k <= x.len()
    ensures 0 <= lens_sum(x.take(k)) <= lens_sum(x)
    decreases x.len() - k
{
    if k < x.len() {
        lemma_lens_sum_le(x, k + 1);
        assert(x.take(k + 1) =~= x.take(k).push(x[k]));
        lemma_lens_sum_push(x.take(k), x[k]);
        lemma_lens_sum_nonneg(x.take(k));
    } else {
        assert(x.take(k) =~= x);
        lemma_lens_sum_nonneg(x);
    }
}
pub proof fn lemma_lens_sum_nonneg(x: Seq<Seq<u8>>)
    ensures lens_sum(x) >= 0
    decreases x.len()
{
    if x.len() > 0 { lemma_lens_sum_nonneg(x.drop_last()); }
}
// a label of a well-formed name has at most 253 octets, and all labels together account for enc_len - 1
pub proof fn lemma_label_len(n: &Name, k: int)
    requires n.wf(), 0 <= k < n.nlabels()
    ensures n.labels()[k].len() <= 253, n.labels()[k].len() == n.lend(k) - n.lstart(k)
{
    reveal(Name::labels);
    assert(n.lstart(k) <= n.label_ends@[k] as int <= n.label_data@.len());
}
pub proof fn lemma_lens_sum_prefix(n: &Name, k: int)
    requires n.wf(), 0 <= k <= n.nlabels()
    ensures lens_sum(n.labels().take(k)) == n.lstart(k) + k
    decreases k
{
    reveal(Name::labels);
    if k > 0 {
        lemma_lens_sum_prefix(n, k - 1);
        assert(n.labels().take(k) =~= n.labels().take(k - 1).push(n.labels()[k - 1]));
        lemma_lens_sum_push(n.labels().take(k - 1), n.labels()[k - 1]);
        lemma_label_len(n, k - 1);
    } else {
        assert(n.labels().take(0) =~= Seq::<Seq<u8>>::empty());
    }
}
pub proof fn lemma_lens_sum_total(n: &Name)
    requires n.wf()
    ensures lens_sum(n.labels()) == n.enc_len() - 1
{
    reveal(Name::labels);
    lemma_lens_sum_prefix(n, n.nlabels());
    assert(n.labels().take(n.nlabels()) =~= n.labels());
}
} // verus!
fn main() {}
