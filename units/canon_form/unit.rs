//%unit canon_form
//%features std __dnssec dnssec-ring
use vstd::prelude::*;
use vstd::std_specs::iter::IteratorSpec;
verus! {
//%include ../common/decoder.rs
//%include ../common/error.rs
//%include ../common/encoder.rs

// ---- C05 kernel 1: which name form RDATA is written in (RFC 4034 6.2, RFC 3597 7, RFC 6840 5.1) ----
//%struct crates/proto/src/serialize/binary/encoder.rs :: ModalEncoder
//%end
pub open spec fn rdata_name_mode(kind: RDataEncoding, canonical_form: bool, current: NameEncoding) -> NameEncoding {
    match (kind, canonical_form) {
        // RFC 4034 6.2: in the canonical form of an RR of one of the listed (pre-RFC 3597) types, and of
        // any ordinary record, embedded names are uncompressed and lower-cased
        (RDataEncoding::StandardRecord, true) => NameEncoding::UncompressedLowercase,
        (RDataEncoding::Canonical, true) => NameEncoding::UncompressedLowercase,
        // outside DNSSEC canonical form ordinary records keep the message's encoding (compression allowed)
        (RDataEncoding::StandardRecord, false) => current,
        // RFC 3597 7 / RFC 6840 5.1: every other type is never compressed and NEVER case-folded
        (RDataEncoding::Canonical, false) => NameEncoding::Uncompressed,
        (RDataEncoding::Other, _) => NameEncoding::Uncompressed,
    }
}
impl<'a> BinEncoder<'a> {
//%fn crates/proto/src/serialize/binary/encoder.rs :: impl<'a> BinEncoder<'a> :: with_rdata_behavior
//%contract
        ensures
            r.previous_name_encoding == old(self).name_encoding,                   // what Drop will restore
            r.inner.name_encoding == rdata_name_mode(rdata_encoding, old(self).canonical_form, old(self).name_encoding),
            r.inner.canonical_form == old(self).canonical_form, r.inner.offset == old(self).offset,
            *final(r.inner) == *final(self),
//%mutant other_types_lowercased "(RDataEncoding::Canonical, false) | (RDataEncoding::Other, true) | (RDataEncoding::Other, false)" => "(RDataEncoding::Other, true) => self.name_encoding = NameEncoding::UncompressedLowercase, (RDataEncoding::Canonical, false) | (RDataEncoding::Other, false)"
//%end
}

// ---- C05 kernel 2: the owner name that goes into the signed data (RFC 4035 5.3.2) ----
// Name is abstract here: a sequence of labels plus the fqdn flag; the Name operations determine_name
// calls carry ASSUMED contracts (append_name is proved in unit name_build, num_labels/trim_to/
// from_labels are not).
pub struct Name { pub vp_id: u64 }
pub open spec fn star() -> Seq<u8> { seq![42u8] }
impl Name {
    pub uninterp spec fn labels(&self) -> Seq<Seq<u8>>;
    pub uninterp spec fn fqdn(&self) -> bool;
    // number of labels not counting a leading "*" (name.rs::num_labels)
    pub open spec fn nl(&self) -> int {
        if self.labels().len() > 0 && self.labels()[0] == star() { self.labels().len() - 1 } else { self.labels().len() as int }
    }
    #[verifier::external_body]
    pub fn num_labels(&self) -> (r: u8) ensures r as int == self.nl() { unimplemented!() }
    #[verifier::external_body]
    pub fn is_root(&self) -> (r: bool) ensures r == (self.labels().len() == 0 && self.fqdn()) { unimplemented!() }
    #[verifier::external_body]
    pub fn trim_to(&self, n: usize) -> (r: Self)
        ensures n <= self.labels().len() ==> r.labels() =~= self.labels().skip(self.labels().len() - n) && r.fqdn(),
            n > self.labels().len() ==> r.labels() == self.labels() && r.fqdn() == self.fqdn(),
    { unimplemented!() }
    #[verifier::external_body]
    pub fn append_name(self, other: &Self) -> (r: Result<Self, ProtoError>)
        ensures r matches Ok(n) ==> n.labels() =~= self.labels() + other.labels() && n.fqdn() == other.fqdn()
    { unimplemented!() }
    #[verifier::external_body]
    pub fn from_labels(l: Vec<&[u8]>) -> (r: Result<Self, ProtoError>)
        ensures (forall|i: int| 0 <= i < l@.len() ==> 1 <= (#[trigger] l@[i])@.len() <= 63) && l@.len() <= 127 ==>
            (r matches Ok(n) && n.fqdn() && n.labels().len() == l@.len() && (forall|i: int| 0 <= i < l@.len() ==> n.labels()[i] == (#[trigger] l@[i])@))
    { unimplemented!() }
    #[verifier::external_body]
    pub fn to_lowercase(&self) -> (r: Self) ensures r.labels().len() == self.labels().len(), r.fqdn() == self.fqdn() { unimplemented!() }
}
impl Clone for Name {
    #[verifier::external_body]
    fn clone(&self) -> (r: Self) ensures r == *self { unimplemented!() }
}
pub struct VpFmt;
impl vstd::std_specs::convert::FromSpecImpl<VpFmt> for ProtoError {
    open spec fn obeys_from_spec() -> bool { false }
    uninterp spec fn from_spec(m: VpFmt) -> Self;
}
impl From<VpFmt> for ProtoError { #[verifier::external_body] fn from(m: VpFmt) -> (r: Self) { unimplemented!() } }
pub fn vp_msg() -> VpFmt { VpFmt }
#[verifier::external_body]
pub fn vp_star_bytes() -> (r: &'static [u8]) ensures r@ == star() { b"*" }

//%fn crates/proto/src/dnssec/tbs.rs :: fn determine_name
//%contract
    ensures
        // "if rrsig_labels = fqdn_labels, name = fqdn"
        num_labels as int == name.nl() ==> (r matches Ok(n) && n == *name),
        // "if rrsig_labels < fqdn_labels, name = "*." | the rightmost rrsig_label labels of the fqdn"
        (num_labels as int) < name.nl() ==> (r matches Ok(n) ==> n.labels() =~= seq![star()] + name.labels().skip(name.labels().len() - num_labels)),
        // "if rrsig_labels > fqdn_labels the RRSIG RR ... MUST NOT be used"
        num_labels as int > name.nl() ==> r is Err,
//%sub1 "b\"*\" as &[u8]" => "vp_star_bytes()" # R-shim: byte-string literal
//%sub1 "format!(\"could not determine name from {name}\")" => "vp_msg()" # R-fmt
//%mutant leftmost_labels "name.trim_to(num_labels as usize)" => "name.trim_to(name.num_labels() as usize - num_labels as usize)"
//%mutant gt_accepted "if num_labels < fqdn_labels" => "if num_labels != fqdn_labels"
//%end
} // verus!
// Result::unwrap needs E: Debug; formatting is never reached on the verified paths and is outside Verus
impl core::fmt::Debug for ProtoError { fn fmt(&self, f: &mut core::fmt::Formatter<'_>) -> core::fmt::Result { f.write_str("ProtoError") } }
fn main() {}
