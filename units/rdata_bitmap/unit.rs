//%unit rdata_bitmap
//%features std
use vstd::prelude::*;
verus! {
//%include ../common/decoder.rs

// ---- C01, RDATA loops: the NSEC/NSEC3/CSYNC type-bitmap reader (RecordTypeSet::read_data) ----
// RestrictedMath (restrict.rs): interface + the two impls the bitmap reader uses.  No functional
// contract is needed for totality; the bodies are checked for panics/overflow like everything else.
pub trait RestrictedMath {
    type Arg: 'static + Sized + Copy;
    type Value: 'static + Sized + Copy;
    fn checked_add(&self, arg: Self::Arg) -> Result<Restrict<Self::Value>, Self::Arg>;
    fn checked_sub(&self, arg: Self::Arg) -> Result<Restrict<Self::Value>, Self::Arg>;
    fn checked_mul(&self, arg: Self::Arg) -> Result<Restrict<Self::Value>, Self::Arg>;
}
//%impl crates/proto/src/serialize/binary/restrict.rs :: impl RestrictedMath for Restrict<u8>
//%sub ".map(Restrict)" => ".map(|v: u8| -> (o: Restrict<u8>) { Restrict(v) })" # R-shim: a tuple-struct constructor used as a function value is eta-expanded
//%end
//%impl crates/proto/src/serialize/binary/restrict.rs :: impl<R, A> RestrictedMath for Result<R, A> where R: RestrictedMath, A: 'static + Sized + Copy,
//%end

#[derive(Clone, Copy)] pub struct RecordType(pub u16);
impl RecordType { pub fn from(v: u16) -> RecordType { RecordType(v) } }
// stand-in for BTreeSet<RecordType>: insertion cannot fail
pub struct VpTypeSet { pub vp: u64 }
impl VpTypeSet {
    #[verifier::external_body] pub fn new() -> VpTypeSet { unimplemented!() }
    #[verifier::external_body] pub fn insert(&mut self, t: RecordType) -> bool { unimplemented!() }
}
pub struct RecordTypeSet { pub types: VpTypeSet, pub original_encoding: Option<Vec<u8>> }
//%enum crates/proto/src/rr/record_type_set.rs :: BitMapReadState
//%end

//%fn crates/proto/src/rr/record_type_set.rs :: impl RecordDataDecodable<'_> for RecordTypeSet :: read_data
//%rename record_type_set_read_data
//%attr #[verifier::loop_isolation(false)]
//%sub1 "Result<Self, DecodeError>" => "Result<RecordTypeSet, DecodeError>" # R-sel: trait-impl method pulled out as a free fn
//%sub1 "Ok(Self {" => "Ok(RecordTypeSet {" # R-sel
//%sub1 "BTreeSet::new()" => "VpTypeSet::new()" # R-shim: BTreeSet stand-in
//%closure "|_|"@1
|_vp0: u8| -> (e: DecodeError)
//%closure "|_|"@2
|_vp1: u8| -> (e: DecodeError)
//%contract
    // C01: every byte string given as a type bitmap decodes to a value or an error: no panic
    // (the `len - left`, `* 8`, `+ i` arithmetic must stay checked), and the loops are bounded by the input
    requires old(decoder).wf()
    ensures final(decoder).wf(), final(decoder).buf() == old(decoder).buf(), final(decoder).idx() >= old(decoder).idx()
//%mutant unchecked_block_arith ".checked_mul(8) .checked_add(i)" => ".map(|r: Restrict<u8>| -> (o: Restrict<u8>) { Restrict::new(r.unverified() * 8 + i) })"
//%end
} // verus!
fn main() {}
