//%unit tbs_order
//%features std __dnssec dnssec-ring
use vstd::prelude::*;
use core::cmp::Ordering;
use vstd::std_specs::iter::IteratorSpec;
verus! {
//%include ../common/decoder.rs
//%include ../common/error.rs
//%include ../common/encoder.rs

// ---- C05, "each distinct RR in RFC 4034 section 6.3 canonical order": TBS::new puts the records of the RRset in order with
//      `rrset.sort()`, i.e. by `Ord for Record`, whose last key is `Ord for RData` (rr/record_data.rs). RFC 4034 6.3 -- quoted
//      in that function's own comment -- orders RRs "by treating the RDATA portion of the CANONICAL FORM of each RR as a
//      left-justified unsigned octet sequence in which the absence of an octet sorts before a zero octet". What RData::emit
//      writes depends on the encoder's mode; it is an uninterpreted function of (RDATA, canonical_form, name_encoding). The
//      canonical form is what TBS::new itself sets up for signing: canonical_form = true, names uncompressed. ----
pub struct RData { pub id: u64 }
pub uninterp spec fn emitted(id: u64, canonical_form: bool, mode: NameEncoding) -> Seq<u8>;
impl RData {
    // RData::emit (each type's emitter, under the trait-level contract in unit msg_emit): appends the RDATA as the mode says
    #[verifier::external_body]
    pub fn emit(&self, encoder: &mut BinEncoder<'_>) -> (r: ProtoResult<()>)
        requires old(encoder).wf_buf(), old(encoder).tight()
        ensures r is Ok ==> final(encoder).bytes() == old(encoder).bytes() + emitted(self.id, old(encoder).canonical_form, old(encoder).name_encoding),
    { unimplemented!() }
}
// RFC 4034 6.3: left-justified unsigned octet sequences, absence of an octet sorts before a zero octet
pub open spec fn lex_cmp(a: Seq<u8>, b: Seq<u8>) -> Ordering
    decreases a.len()
{
    if a.len() == 0 { if b.len() == 0 { Ordering::Equal } else { Ordering::Less } }
    else if b.len() == 0 { Ordering::Greater }
    else if a[0] < b[0] { Ordering::Less } else if a[0] > b[0] { Ordering::Greater }
    else { lex_cmp(a.drop_first(), b.drop_first()) }
}
pub open spec fn canonical_rdata(x: RData) -> Seq<u8> { emitted(x.id, true, NameEncoding::Uncompressed) }
// Ord for Result<Vec<u8>, ProtoError> (core): Ok sorts by the vectors (lexicographic on octets), Ok before Err
#[verifier::external_body]
pub fn vp_result_cmp(a: &ProtoResult<Vec<u8>>, b: &ProtoResult<Vec<u8>>) -> (r: Ordering)
    ensures match (*a, *b) { (Ok(x), Ok(y)) => r == lex_cmp(x@, y@), _ => true }
{ unimplemented!() }

impl<'a> BinEncoder<'a> {
//%fn crates/proto/src/serialize/binary/encoder.rs :: impl<'a> BinEncoder<'a> :: new
//%contract
        requires old(buf)@.len() == 0
        ensures r.wf(), r.tight(), r.offset == 0, r.bytes() == Seq::<u8>::empty(), !r.canonical_form, r.name_encoding is Compressed
//%end
//%fn crates/proto/src/serialize/binary/encoder.rs :: impl<'a> BinEncoder<'a> :: with_offset
//%sub1 "if buf.capacity() < 512 { let reserve = 512 - buf.capacity(); buf.reserve(reserve); }" => "" # R-perf: capacity reservation (no observable effect on contents)
//%sub1 "private::MaximalBuf::new(u16::MAX, buf)" => "MaximalBuf::new(u16::MAX, buf)" # R-sel: `mod private` flattened
//%contract
        requires old(buf)@.len() <= offset, old(buf)@.len() <= 0xFFFF, offset as int <= old(buf)@.len()
        ensures r.wf(), r.offset == offset, r.bytes() == old(buf)@, !r.canonical_form, r.name_encoding is Compressed
//%end
}
impl RData {
    // BinEncodable::to_bytes (trait default method) at Self = RData: `let mut bytes = Vec::new(); { let mut encoder =
    // BinEncoder::new(&mut bytes); self.emit(&mut encoder)?; } Ok(bytes)`. ASSUMED (the hand-over of the vector through the
    // `&mut` the encoder holds is not followed by Verus); the MODE it emits in is not assumed: BinEncoder::new / with_offset
    // are verified above to start with canonical_form == false and name_encoding == Compressed
    #[verifier::external_body]
    pub fn to_bytes(&self) -> (r: ProtoResult<Vec<u8>>)
        ensures r matches Ok(v) ==> v@ == emitted(self.id, false, NameEncoding::Compressed)
    { unimplemented!() }
//%fn crates/proto/src/rr/record_data.rs :: impl Ord for RData :: cmp
//%rename vp_cmp
//%sub1 "self.to_bytes().cmp(&other.to_bytes())" => "vp_result_cmp(&self.to_bytes(), &other.to_bytes())" # R-shim: Ord for Result<Vec<u8>, _>
//%contract
        // RFC 4034 6.3, as quoted in the function's own comment
        ensures r == lex_cmp(canonical_rdata(*self), canonical_rdata(*other))
//%end
}
} // verus!
fn main() {}
