//%unit nsec_server
//%features std __dnssec dnssec-ring
//%dropawait
use vstd::prelude::*;
verus! {
// ---- C08, completeness side ("for every signed zone and every query, the proof the authoritative server attaches is accepted
//      by the validator"): which NSEC records InMemoryZoneHandler::nsec_records attaches to a negative answer (statement range
//      of the async fn, from the lookup of the covering record to the list of proofs). RFC 4035 3.1.3.2: a name error carries
//      an NSEC proving that the name does not exist AND an NSEC proving that no wildcard at the CLOSEST ENCLOSER could have
//      matched. Names are opaque; `covers(r, n)` is "r's interval contains n", `wildcard_at_ce(z, n)` the name
//      *.<closest encloser of n in zone z>, both uninterpreted. ----
#[derive(Clone, Copy)] pub struct LowerName { pub id: u64 }
impl vstd::std_specs::cmp::PartialEqSpecImpl for LowerName { open spec fn obeys_eq_spec() -> bool { true } open spec fn eq_spec(&self, o: &LowerName) -> bool { self.id == o.id } }
impl PartialEq for LowerName { fn eq(&self, o: &LowerName) -> (r: bool) { self.id == o.id } }
pub uninterp spec fn parent_of(n: LowerName) -> LowerName;
pub uninterp spec fn in_zone(origin: LowerName, n: LowerName) -> bool;
impl LowerName {
    #[verifier::external_body] pub fn base_name(&self) -> (r: LowerName) ensures r == parent_of(*self) { unimplemented!() }
    #[verifier::external_body] pub fn zone_of(&self, n: &LowerName) -> (r: bool) ensures r == in_zone(*self, *n) { unimplemented!() }
    pub fn clone(&self) -> (r: LowerName) ensures r == *self { *self }
}
#[derive(Clone, Copy)] pub struct VpRrSet { pub id: u64 }
impl vstd::std_specs::cmp::PartialEqSpecImpl for VpRrSet { open spec fn obeys_eq_spec() -> bool { true } open spec fn eq_spec(&self, o: &VpRrSet) -> bool { self.id == o.id } }
impl PartialEq for VpRrSet { fn eq(&self, o: &VpRrSet) -> (r: bool) { self.id == o.id } }
pub uninterp spec fn covers(z: u64, r: VpRrSet, n: LowerName) -> bool;
pub uninterp spec fn wildcard_at_ce(z: u64, n: LowerName) -> LowerName;
pub struct VpInner { pub z: u64 }
impl VpInner {
    // InnerInMemory::closest_nsec: the NSEC RRset whose interval contains the name, if the zone has one
    #[verifier::external_body]
    pub fn closest_nsec(&self, name: &LowerName) -> (r: Option<VpRrSet>)
        ensures r matches Some(p) ==> covers(self.z, p, *name)
    { unimplemented!() }
}
pub struct VpHandler { pub origin: LowerName }
impl VpHandler { pub fn origin(&self) -> (r: &LowerName) ensures *r == self.origin { &self.origin } }
impl VpHandler {
    fn nsec_proofs(&self, inner: &VpInner, name: &LowerName) -> (proofs: Vec<VpRrSet>)
        ensures
            // every record attached covers the query name, or the name the function asked a second cover for (its parent, or the origin) ...
            forall|i: int| 0 <= i < proofs@.len() ==> (covers(inner.z, #[trigger] proofs@[i], *name) || covers(inner.z, proofs@[i], parent_of(*name)) || covers(inner.z, proofs@[i], self.origin)),
            // ... and when the zone has covering records at all, one of them covers the wildcard at the closest encloser
            proofs@.len() > 0 ==> exists|i: int| 0 <= i < proofs@.len() && covers(inner.z, #[trigger] proofs@[i], wildcard_at_ce(inner.z, *name)),
    {
//%expr crates/server/src/store/in_memory/mod.rs :: impl<P: RuntimeProvider + Send + Sync> ZoneHandler for InMemoryZoneHandler<P> :: nsec_records :: "let closest_proof = inner.closest_nsec(name);" .. "(None, None) => vec![], };"
//%end
        proofs
    }
}
} // verus!
fn main() {}
