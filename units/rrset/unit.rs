//%unit rrset
//%features std
use vstd::prelude::*;
use vstd::std_specs::iter::IteratorSpec;
verus! {
//%include ../common/serial.rs

// ---- stand-ins: plain data with structural equality (derived PartialEq has no Verus spec, so it is
//      written out); a Record is (owner, ttl, rdata) and RData is SOA-with-serial or anything else ----
#[derive(Clone, Copy)] pub struct Name(pub u64);
#[derive(Clone, Copy)] pub enum RecordType { SOA, CNAME, ANAME, NS, ANY, Other(u16) }
#[derive(Clone, Copy)] pub enum DNSClass { IN, NONE, ANY, Other(u16) }
#[derive(Clone, Copy)] pub struct SOA { pub serial: u32, pub vp_rest: u64 }
#[derive(Clone, Copy)] pub enum RData { SOA(SOA), CNAME(u64), NS(u64), Other(u16, u64) }
#[derive(Clone, Copy)] pub struct Record { pub name: Name, pub ttl: u32, pub dns_class: DNSClass, pub data: RData }
impl vstd::std_specs::cmp::PartialEqSpecImpl for Name { open spec fn obeys_eq_spec() -> bool { true } open spec fn eq_spec(&self, o: &Name) -> bool { *self == *o } }
impl PartialEq for Name { fn eq(&self, o: &Name) -> (r: bool) { self.0 == o.0 } }
impl vstd::std_specs::cmp::PartialEqSpecImpl for RecordType { open spec fn obeys_eq_spec() -> bool { true } open spec fn eq_spec(&self, o: &RecordType) -> bool { *self == *o } }
impl PartialEq for RecordType {
    fn eq(&self, o: &RecordType) -> (r: bool) {
        match (*self, *o) { (RecordType::SOA, RecordType::SOA) => true, (RecordType::CNAME, RecordType::CNAME) => true, (RecordType::ANAME, RecordType::ANAME) => true,
            (RecordType::NS, RecordType::NS) => true, (RecordType::ANY, RecordType::ANY) => true, (RecordType::Other(a), RecordType::Other(b)) => a == b, _ => false }
    }
}
impl vstd::std_specs::cmp::PartialEqSpecImpl for DNSClass { open spec fn obeys_eq_spec() -> bool { true } open spec fn eq_spec(&self, o: &DNSClass) -> bool { *self == *o } }
impl PartialEq for DNSClass {
    fn eq(&self, o: &DNSClass) -> (r: bool) {
        match (*self, *o) { (DNSClass::IN, DNSClass::IN) => true, (DNSClass::NONE, DNSClass::NONE) => true, (DNSClass::ANY, DNSClass::ANY) => true, (DNSClass::Other(a), DNSClass::Other(b)) => a == b, _ => false }
    }
}
impl vstd::std_specs::cmp::PartialEqSpecImpl for RData { open spec fn obeys_eq_spec() -> bool { true } open spec fn eq_spec(&self, o: &RData) -> bool { *self == *o } }
impl PartialEq for RData {
    fn eq(&self, o: &RData) -> (r: bool) {
        match (*self, *o) { (RData::SOA(a), RData::SOA(b)) => a.serial == b.serial && a.vp_rest == b.vp_rest, (RData::CNAME(a), RData::CNAME(b)) => a == b,
            (RData::NS(a), RData::NS(b)) => a == b, (RData::Other(t, a), RData::Other(u, b)) => t == u && a == b, _ => false }
    }
}
impl vstd::std_specs::cmp::PartialEqSpecImpl for Record { open spec fn obeys_eq_spec() -> bool { true } open spec fn eq_spec(&self, o: &Record) -> bool { *self == *o } }
impl PartialEq for Record { fn eq(&self, o: &Record) -> (r: bool) { self.name == o.name && self.ttl == o.ttl && self.dns_class == o.dns_class && self.data == o.data } }
pub open spec fn soa_not_newer(nw: RData, ex: RData) -> bool {
    match (nw, ex) { (RData::SOA(n), RData::SOA(e)) => n.serial == e.serial || serial_lt(n.serial, e.serial), _ => false }
}
pub open spec fn soa_newer(nw: RData, ex: RData) -> bool {
    match (nw, ex) { (RData::SOA(n), RData::SOA(e)) => serial_lt(e.serial, n.serial), _ => false }
}
pub open spec fn rtype_of(d: RData) -> RecordType {
    match d { RData::SOA(_) => RecordType::SOA, RData::CNAME(_) => RecordType::CNAME, RData::NS(_) => RecordType::NS,
        RData::Other(t, _) => RecordType::Other(t) }
}
impl Record {
    // assumed: Record::record_type() is the type of its RDATA (record.rs: `self.data.record_type()`)
    #[verifier::external_body]
    pub fn record_type(&self) -> (r: RecordType) ensures r == rtype_of(self.data), (self.data is SOA) == (r == RecordType::SOA) { unimplemented!() }
}

//%struct crates/proto/src/rr/rr_set.rs :: RecordSet
//%end

// R-shim for the iterator pipeline `records.iter().enumerate().filter(|&(_, rr)| rr.data == data).map(|(i, _)| i).collect()`
// (ref-pattern closures are rejected by Verus): the increasing list of exactly the matching indices
#[verifier::external_body]
pub fn vp_matching_indices(records: &Vec<Record>, data: &RData) -> (r: Vec<usize>)
    ensures forall|k: int| 0 <= k < r@.len() ==> (#[trigger] r@[k]) < records@.len() && records@[r@[k] as int].data == *data,
        forall|i: int| 0 <= i < records@.len() && records@[i].data == *data ==> r@.contains(i as usize),
        forall|a: int, b: int| 0 <= a < b < r@.len() ==> r@[a] < r@[b],
{ records.iter().enumerate().filter(|&(_, rr)| rr.data == *data).map(|(i, _)| i).collect() }
// R-shim for `records.retain(|rr| rr.data != data)`
#[verifier::external_body]
pub fn vp_retain_data_ne(records: &mut Vec<Record>, data: &RData)
    ensures final(records)@ =~= old(records)@.filter(|rr: Record| rr.data != *data)
{ records.retain(|rr| rr.data != *data); }

impl RecordSet {
//%fn crates/proto/src/rr/rr_set.rs :: impl RecordSet :: updated
//%contract
        ensures final(self).serial == serial, final(self).records == old(self).records, final(self).name == old(self).name,
            final(self).record_type == old(self).record_type, final(self).ttl == old(self).ttl, final(self).dns_class == old(self).dns_class,
//%end

//%fn crates/proto/src/rr/rr_set.rs :: impl RecordSet :: insert
//%contract
        requires
            record.name == old(self).name, rtype_of(record.data) == old(self).record_type,     // the two assert_eq! become caller obligations
            (old(self).record_type == RecordType::SOA || old(self).record_type == RecordType::CNAME || old(self).record_type == RecordType::ANAME)
                ==> old(self).records@.len() <= 1,                                                // representation invariant of singleton RRsets
            old(self).records@.len() < usize::MAX,
        ensures
            final(self).name == old(self).name, final(self).record_type == old(self).record_type,
            // C12: "exactly one SOA", "no name holds a CNAME together with other data" (at RRset level: never two)
            (old(self).record_type == RecordType::SOA || old(self).record_type == RecordType::CNAME || old(self).record_type == RecordType::ANAME)
                ==> final(self).records@.len() <= 1,
            // an accepted insert leaves the record in the set
            r ==> final(self).records@.contains(record),
            // RFC 2136 3.4.2.2: an SOA whose serial is not greater (RFC 1982) than the zone's is ignored ...
            (old(self).record_type == RecordType::SOA && old(self).records@.len() == 1 && soa_not_newer(record.data, old(self).records@[0].data))
                ==> !r && final(self).records@ == old(self).records@,
            // ... and one whose serial IS greater replaces it
            (old(self).record_type == RecordType::SOA && old(self).records@.len() == 1 && soa_newer(record.data, old(self).records@[0].data))
                ==> r && final(self).records@ =~= seq![record],
//%sub1 "assert_eq!(&record.name, &self.name);" => "assert!(&record.name == &self.name);" # R-shim: assert_eq! -> assert! of the same comparison
//%sub1 "assert_eq!(record.record_type(), self.record_type);" => "assert!(record.record_type() == self.record_type);" # R-shim
//%sub1 "self .records .iter() .enumerate() .filter(|&(_, rr)| rr.data == record.data) .map(|(i, _)| i) .collect::<Vec<usize>>()" => "vp_matching_indices(&self.records, &record.data)" # R-shim: iterator pipeline with ref-pattern closures
//%mutant F6_raw_serial_compare "SerialNumber::new(new_soa.serial) <= SerialNumber::new(existing_soa.serial)" => "new_soa.serial <= existing_soa.serial"
//%mutant cname_not_cleared "RecordType::CNAME | RecordType::ANAME => { assert!(self.records.len() <= 1); self.records.clear(); }" => "RecordType::CNAME | RecordType::ANAME => { assert!(self.records.len() <= 1); }"
//%after "for i in"
            vp_it:
//%after "for i in to_replace"
            invariant
                self.records@.len() == vp_len0, vp_len0 < usize::MAX,
                forall|k: int| 0 <= k < vp_it.snapshot@.remaining().len() ==> (#[trigger] vp_it.snapshot@.remaining()[k]) < vp_len0,
                self.name == old(self).name, self.record_type == old(self).record_type,
                replaced ==> self.records@.contains(record),
                (self.record_type == RecordType::SOA || self.record_type == RecordType::CNAME || self.record_type == RecordType::ANAME) ==> vp_len0 == 0,
//%before "let mut replaced = false;"
        let ghost vp_len0 = self.records@.len();
        let ghost vp_cleared = self.records@;
//%after "self.records.swap_remove(i);"
            proof { assert(self.records@[i as int] == record); }
//%after "self.records.push(record);"
            proof { assert(self.records@[self.records@.len() - 1] == record); }
//%end

//%fn crates/proto/src/rr/rr_set.rs :: impl RecordSet :: remove
//%contract
        requires record.name == old(self).name,
            rtype_of(record.data) == old(self).record_type || rtype_of(record.data) == RecordType::ANY,
        ensures
            final(self).name == old(self).name, final(self).record_type == old(self).record_type,
            // C12: the SOA is never deleted, the last NS is never deleted
            rtype_of(record.data) == RecordType::SOA ==> !r && final(self).records@ == old(self).records@,
            (rtype_of(record.data) == RecordType::NS && old(self).records@.len() <= 1) ==> !r && final(self).records@ == old(self).records@,
            // otherwise exactly the RRs with equal RDATA are removed
            !(rtype_of(record.data) == RecordType::SOA) && !(rtype_of(record.data) == RecordType::NS && old(self).records@.len() <= 1)
                ==> final(self).records@ =~= old(self).records@.filter(|rr: Record| rr.data != record.data),
            r == (final(self).records@.len() < old(self).records@.len()),
//%sub1 "assert_eq!(record.name, self.name);" => "assert!(record.name == self.name);" # R-shim
//%sub1 "self.records.retain(|rr| rr.data != record.data);" => "vp_retain_data_ne(&mut self.records, &record.data);" # R-shim: Vec::retain
//%mutant last_ns_guard_off "RecordType::NS if self.records.len() <= 1" => "RecordType::NS if self.records.len() < 1"
//%mutant soa_deletable "RecordType::SOA => { info!(\"ignored delete of SOA\"); return false; }" => "RecordType::SOA => { }"
//%end
}
} // verus!
fn main() {}
