//%unit recursor_kernels
//%features std recursor
use vstd::prelude::*;
verus! {
// ---- C19 kernels: bailiwick test and recursion bounds ----
// Name stand-in: the two observations is_subzone makes, plus an uninterpreted suffix relation for
// Name::zone_of (ASSUMED here; its foundation, the label comparison, is proved in unit name_order)
#[derive(Clone, Copy)]
pub struct Name { pub is_fqdn: bool, pub vp_id: u64 }
pub uninterp spec fn labels_suffix_ci(parent: Name, child: Name) -> bool;   // parent's labels are a case-insensitive suffix of child's
impl Name {
//%fn crates/proto/src/rr/domain/name.rs :: impl Name :: is_empty
//%contract
        ensures !r
//%end
//%fn crates/proto/src/rr/domain/name.rs :: impl Name :: is_fqdn
//%contract
        ensures r == self.is_fqdn
//%end
    #[verifier::external_body]
    pub fn zone_of(&self, name: &Self) -> (r: bool) ensures r == labels_suffix_ci(*self, *name) { unimplemented!() }
}

//%fn crates/resolver/src/recursor/mod.rs :: fn is_subzone
//%contract
    // C19: "records whose owner lies outside the zone the answering server was delegated are never
    // returned": in bailiwick  <=>  same absolute/relative kind and parent is a label-wise suffix of child
    ensures r == (parent.is_fqdn == child.is_fqdn && labels_suffix_ci(*parent, *child))
//%mutant fqdn_mismatch_allowed "(parent.is_fqdn() && !child.is_fqdn()) || (!parent.is_fqdn() && child.is_fqdn())" => "false"
//%mutant arguments_swapped "parent.zone_of(child)" => "child.zone_of(parent)"
//%end

// ---- the bailiwick filter of RecursorDnsHandle::lookup (statement-range extraction from an async fn):
//      after it, NO section of the response holds a record outside the delegated zone ----
pub struct Record { pub name: Name, pub vp_rest: u64 }
pub struct VpRecords { pub v: Vec<Record> }
impl VpRecords {
    pub fn len(&self) -> (r: usize) ensures r == self.v@.len() { self.v.len() }
    pub fn is_empty(&self) -> (r: bool) ensures r == (self.v@.len() == 0) { self.v.len() == 0 }
    // assumed spec of Vec::retain: every element kept satisfied the predicate, nothing new appears
    #[verifier::external_body]
    pub fn retain<F: Fn(&Record) -> bool>(&mut self, f: F)
        requires forall|r: &Record| f.requires((r,))
        ensures final(self).v@.len() <= old(self).v@.len(),
            forall|i: int| 0 <= i < final(self).v@.len() ==> f.ensures((&#[trigger] final(self).v@[i],), true),
    { unimplemented!() }
}
pub struct VpResponse { pub answers: VpRecords, pub authorities: VpRecords, pub additionals: VpRecords }
pub open spec fn in_bailiwick(zone: Name, owner: Name) -> bool { zone.is_fqdn == owner.is_fqdn && labels_suffix_ci(zone, owner) }
fn lookup_bailiwick_filter(zone: Name, response: &mut VpResponse)
    ensures
        forall|i: int| 0 <= i < final(response).answers.v@.len() ==> in_bailiwick(zone, (#[trigger] final(response).answers.v@[i]).name),
        forall|i: int| 0 <= i < final(response).authorities.v@.len() ==> in_bailiwick(zone, (#[trigger] final(response).authorities.v@[i]).name),
        forall|i: int| 0 <= i < final(response).additionals.v@.len() ==> in_bailiwick(zone, (#[trigger] final(response).additionals.v@[i]).name),
{
//%expr crates/resolver/src/recursor/handle.rs :: impl<P: ConnectionProvider> RecursorDnsHandle<P> :: lookup :: "let answer_filter" ..< "if response.answers.is_empty() && answers_len != 0"
//%closure "|record: &Record|"
|record: &Record| -> (b: bool) ensures b == in_bailiwick(zone, record.name)
//%mutant additionals_not_filtered "response.additionals.retain(answer_filter);" => ""
//%end
}

// ---- the error arm of RecursorDnsHandle::lookup (statement range): an upstream NEGATIVE answer arrives as
//      `Err(NetError::Dns(NoRecordsFound { soa, authorities, ns, .. }))`, i.e. an error CARRYING records of the response's
//      authority section.  C19: "records whose owner lies outside the zone the answering server was delegated are never
//      returned, cached, or used" -- that sentence does not distinguish positive from negative answers. ----
pub struct NetError { pub records: VpRecords }          // the records a NoRecords error carries (none for other errors)
impl NetError { #[verifier::external_body] pub fn clone(&self) -> (r: NetError) ensures r.records.v@ == self.records.v@ { unimplemented!() } }
pub struct VpNegative { pub records: VpRecords }
pub enum VpRecursorError { Negative(VpNegative), Other }
impl VpRecursorError {
    // RecursorError::from(NetError): a NoRecords error becomes RecursorError::Negative with the same soa / authorities
    #[verifier::external_body]
    pub fn from(e: NetError) -> (r: VpRecursorError) ensures r matches VpRecursorError::Negative(n) && n.records.v@ == e.records.v@ { unimplemented!() }
}
pub open spec fn all_in_bailiwick(zone: Name, recs: Seq<Record>) -> bool { forall|i: int| 0 <= i < recs.len() ==> in_bailiwick(zone, (#[trigger] recs[i]).name) }
pub struct Query { pub vp: u64 }
pub struct VpResponseCache { pub zone: Name }
impl VpResponseCache {
    // ResponseCache::insert of an error value; the precondition IS the property: nothing outside the bailiwick is cached
    #[verifier::external_body]
    pub fn insert(&self, query: Query, value: Result<VpResponse, NetError>, now: u64)
        requires value matches Err(e) ==> all_in_bailiwick(self.zone, e.records.v@)
    { unimplemented!() }
}
pub struct VpRecursor { pub response_cache: VpResponseCache }
impl VpRecursor {
    fn lookup_error_arm(&self, zone: Name, query: Query, error: NetError, now: u64) -> (r: Result<VpResponse, VpRecursorError>)
        requires self.response_cache.zone == zone
        ensures r matches Err(VpRecursorError::Negative(n)) ==> all_in_bailiwick(zone, n.records.v@)      // ... nor returned
    {
//%expr crates/resolver/src/recursor/handle.rs :: impl<P: ConnectionProvider> RecursorDnsHandle<P> :: lookup :: "warn!(?query, %error, \"lookup error\");" .. "return Err(RecursorError::from(error));"
//%sub1 "RecursorError::from(error)" => "VpRecursorError::from(error)" # stand-in error type (only the records it carries matter)
//%end
    }
}

pub enum RecursorError { RecursionLimitExceeded { count: usize }, Other }
impl RecursorError {
//%fn crates/resolver/src/recursor/error.rs :: impl RecursorError :: recursion_exceeded
//%contract
        // C19: "after a number of upstream queries bounded by the configured recursion limits":
        // a depth equal to the limit is already refused
        ensures (r is Ok) <==> depth < limit,
            r matches Err(RecursorError::RecursionLimitExceeded { count }) ==> count == depth as usize,
//%mutant off_by_one "depth < limit" => "depth <= limit"
//%end
}

// ---- RecursorDnsHandle::ns_pool_for_name, one step of the walk from the TLD down to the query name (statement range of an
//      async fn): C19 "resolution ... ends ... after a number of upstream queries bounded by the configured recursion limits".
//      The walk recurses through append_ips_from_lookup for glueless delegations; what bounds it is that EVERY NS lookup of a
//      zone without a live cached pool -- whether the response cache answers it or an upstream query does -- is counted
//      against ns_recursion_limit before it is made. ----
pub struct NsQuery { pub vp: u64 }
#[derive(Clone, Copy)] pub struct VpRecordType(pub u16);
impl VpRecordType { pub const NS: VpRecordType = VpRecordType(2); }
impl NsQuery { pub fn new(name: Name, t: VpRecordType) -> (r: NsQuery) { NsQuery { vp: name.vp_id } } }
impl Name {
    #[verifier::external_body] pub fn base_name(&self) -> (r: Name) { unimplemented!() }
    pub fn clone(&self) -> (r: Name) ensures r == *self { *self }
}
pub struct NsNetError { pub vp: u64 }
impl NsNetError { #[verifier::external_body] pub fn into(self) -> (r: RecursorError) { unimplemented!() } }
pub struct NsResponse { pub vp: u64 }
pub struct NsPool { pub vp: u64 }
impl NsPool { #[verifier::external_body] pub fn clone(&self) -> (r: NsPool) { unimplemented!() } }
pub struct NsRespCache { pub vp: u64 }
impl NsRespCache {
    #[verifier::external_body] pub fn get(&self, q: &NsQuery, now: u64) -> (r: Option<Result<NsResponse, NsNetError>>) { unimplemented!() }
}
pub struct NsHandle { pub ns_recursion_limit: u8, pub response_cache: NsRespCache }
impl NsHandle {
    // RecursorDnsHandle::lookup (async): one upstream exchange
    #[verifier::external_body]
    pub fn lookup(&self, q: NsQuery, zone: Name, pool: NsPool, now: u64) -> (r: Result<NsResponse, RecursorError>) { unimplemented!() }
    fn ns_pool_step(&self, zone: Name, depth_in: u8, nameserver_pool: NsPool, request_time: u64) -> (r: Result<(u8, Result<NsResponse, RecursorError>), RecursorError>)
        requires depth_in < 255      // the caller's depth passed the same check one level up (depth < limit <= 255)
        ensures
            // an NS lookup happens (from the cache or upstream) only one level deeper and only below the limit
            r matches Ok((d, _)) ==> d == depth_in + 1 && d < self.ns_recursion_limit,
            r matches Err(RecursorError::RecursionLimitExceeded { count }) ==> depth_in + 1 >= self.ns_recursion_limit,
    {
        let mut depth = depth_in;
//%expr crates/resolver/src/recursor/handle.rs :: impl<P: ConnectionProvider> RecursorDnsHandle<P> :: ns_pool_for_name :: "trace!(depth, ?zone," .. ".await } };"
//%sub1 "Query::new(zone.clone(), RecordType::NS)" => "NsQuery::new(zone.clone(), VpRecordType::NS)" # stand-in types (only the control flow and the depth matter)
//%sub1 ".await" => "" # R-await
//%mutant cached_lookups_not_counted "depth += 1;" => "if self.response_cache.get(&NsQuery::new(zone.clone(), VpRecordType::NS), request_time).is_none() { depth += 1; }"
//%end
        Ok((depth, lookup_res))
    }
}

// stub resolver alias chasing (caching_client.rs): at most MAX_QUERY_DEPTH - 1 nestings
#[derive(Clone, Copy)]
//%struct crates/resolver/src/caching_client.rs :: DepthTracker
//%end
impl DepthTracker {
//%const crates/resolver/src/caching_client.rs :: impl DepthTracker :: MAX_QUERY_DEPTH
//%end
//%fn crates/resolver/src/caching_client.rs :: impl DepthTracker :: is_exhausted
//%contract
        requires self.query_depth < 255
        ensures r == (self.query_depth + 1 >= 8)
//%end
//%fn crates/resolver/src/caching_client.rs :: impl DepthTracker :: nest
//%contract
        // callers nest only after `!is_exhausted()`; under that guard the u8 cannot overflow and the
        // depth stays below MAX_QUERY_DEPTH, so a CNAME chain is followed for at most 8 hops
        requires self.query_depth + 1 < 8
        ensures r.query_depth == self.query_depth + 1, r.query_depth < 8
//%end
}
} // verus!
fn main() {}
