//%unit tcp_frame
//%features std
use vstd::prelude::*;
verus! {
// ---- C17 kernels (crates/net/src/tcp/tcp_stream.rs): the position bookkeeping of TcpStream::poll_next.
//      poll_next is a hand-written state machine over partial socket reads / writes; the socket calls and the `ready!`
//      early returns are outside any contract here.  What is decided is what happens BETWEEN two socket calls: given how
//      many octets the socket just accepted / delivered, the next state, and when a message is handed out.
//      Write side: a frame is the 2-octet big-endian length followed by the message; `sent(state)` is how many octets
//      of the frame have gone out.  Read side: a message is delivered exactly when `length` octets of body have arrived. ----
//%enum crates/net/src/tcp/tcp_stream.rs :: WriteTcpState
//%end
//%enum crates/net/src/tcp/tcp_stream.rs :: ReadTcpState
//%end
pub assume_specification<T> [core::mem::replace] (d: &mut T, s: T) -> (r: T) ensures *final(d) == s, r == *old(d);

// octets of the current frame already accepted by the socket, and the frame's body
spec fn sent(s: Option<WriteTcpState>) -> int {
    match s { Some(WriteTcpState::LenBytes { pos, .. }) => pos as int, Some(WriteTcpState::Bytes { pos, .. }) => 2 + pos, Some(WriteTcpState::Flushing) => -1, None => -2 }
}
spec fn body(s: Option<WriteTcpState>) -> Seq<u8> {
    match s { Some(WriteTcpState::LenBytes { bytes, .. }) => bytes@, Some(WriteTcpState::Bytes { bytes, .. }) => bytes@, _ => Seq::empty() }
}
// the state's position is meaningful: what poll_write(_vectored) can have reported
spec fn write_ok(s: Option<WriteTcpState>) -> bool {
    match s { Some(WriteTcpState::LenBytes { pos, bytes, .. }) => pos <= 2 + bytes@.len(), Some(WriteTcpState::Bytes { pos, bytes }) => pos <= bytes@.len(), _ => true }
}
// the send-side transition after a socket call (statement range: `let current_state = send_state.take();` .. end of the match)
fn write_transition(send_state: &mut Option<WriteTcpState>)
    requires write_ok(*old(send_state)), body(*old(send_state)).len() <= usize::MAX - 2
    ensures
        write_ok(*final(send_state)),
        // while octets of the frame remain, the state still names the same body and the same number of octets sent,
        // and it is the state that writes the NEXT octet: the prefix while fewer than 2 have gone out, the body after
        match *old(send_state) {
            Some(WriteTcpState::LenBytes { pos, length, bytes }) =>
                if pos < 2 { *final(send_state) == (Some(WriteTcpState::LenBytes { pos, length, bytes })) }
                else if pos < 2 + bytes@.len() { *final(send_state) == (Some(WriteTcpState::Bytes { pos: (pos - 2) as usize, bytes })) }
                else { *final(send_state) == Some(WriteTcpState::Flushing) },
            Some(WriteTcpState::Bytes { pos, bytes }) =>
                if pos < bytes@.len() { *final(send_state) == (Some(WriteTcpState::Bytes { pos, bytes })) } else { *final(send_state) == Some(WriteTcpState::Flushing) },
            // the frame is complete and flushed: ready for the next message
            Some(WriteTcpState::Flushing) => *final(send_state) is None,
            None => *final(send_state) is None },
{
//%expr crates/net/src/tcp/tcp_stream.rs :: impl<S: DnsTcpStream> Stream for TcpStream<S> :: poll_next :: "let current_state = send_state.take();" .. "None => (), };"
//%mutant body_position_off_by_one "pos: pos - length.len()," => "pos: pos - length.len() + 1,"
//%mutant flush_skipped "Some(WriteTcpState::Flushing) => { send_state.take(); }" => "Some(WriteTcpState::Flushing) => { *send_state = Some(WriteTcpState::Flushing); }"
//%end
}

// the length prefix written for a message (expression: `u16::to_be_bytes(buffer.len() as u16)`)
#[verifier::external_body] pub fn vp_u16_to_be_bytes(v: u16) -> (r: [u8; 2]) ensures r@[0] as int == v as int / 256, r@[1] as int == v as int % 256 { v.to_be_bytes() }
fn length_prefix(buffer: &Vec<u8>) -> (len: [u8; 2])
    requires buffer@.len() <= 0xFFFF          // a DNS message over TCP is at most 65,535 octets (C03 bounds what the server sends)
    ensures len@[0] as int * 256 + len@[1] as int == buffer@.len()
{
    let len =
//%expr crates/net/src/tcp/tcp_stream.rs :: impl<S: DnsTcpStream> Stream for TcpStream<S> :: poll_next :: "u16::to_be_bytes(buffer.len() as u16)" .. "u16::to_be_bytes(buffer.len() as u16)"
//%sub1 "u16::to_be_bytes(" => "vp_u16_to_be_bytes(" # R-shim: u16::to_be_bytes
//%end
    ;
    len
}

// ---- read side ----
#[verifier::external_body] pub fn vp_u16_from_be_bytes(b: [u8; 2]) -> (r: u16) ensures r as int == b@[0] as int * 256 + b@[1] as int { u16::from_be_bytes(b) }
#[verifier::external_body] pub fn vp_zeroed(n: usize) -> (r: Vec<u8>) ensures r@.len() == n { vec![0; n] }
// after `read` more octets of the length prefix arrived (0 < read <= 2 - pos: what poll_read on `&mut bytes[*pos..]` can report)
fn read_len_transition(pos: &mut usize, bytes: &mut [u8; 2], read: usize) -> (new_state: Option<ReadTcpState>)
    requires *old(pos) < 2, 0 < read <= 2 - *old(pos)
    ensures
        *final(pos) == *old(pos) + read, *final(bytes) == *old(bytes),
        // the prefix is incomplete: stay; complete: expect exactly the announced number of body octets, none read yet
        *final(pos) < 2 ==> new_state is None,
        *final(pos) == 2 ==> (new_state matches Some(ReadTcpState::Bytes { pos: p, bytes: b }) && p == 0
            && b@.len() == old(bytes)@[0] as int * 256 + old(bytes)@[1] as int),
{
//%expr crates/net/src/tcp/tcp_stream.rs :: impl<S: DnsTcpStream> Stream for TcpStream<S> :: poll_next :: "trace!(\"in ReadTcpState::LenBytes: {}\", pos);" .. "Some(ReadTcpState::Bytes { pos: 0, bytes }) }"
//%sub1 "u16::from_be_bytes(*bytes)" => "vp_u16_from_be_bytes(*bytes)" # R-shim: u16::from_be_bytes
//%sub1 "vec![0; length as usize]" => "vp_zeroed(length as usize)" # R-shim: vec![0; n]
//%sub1 "bytes.resize(length as usize, 0);" => "" # R-shim: Vec::resize to the length the Vec already has (no effect)
//%mutant body_starts_at_one "Some(ReadTcpState::Bytes { pos: 0, bytes })" => "Some(ReadTcpState::Bytes { pos: 1, bytes })"
//%end
}
// after `read` more octets of the body arrived (0 < read <= len - pos)
fn read_body_transition(pos: &mut usize, bytes: &mut Vec<u8>, read: usize) -> (new_state: Option<ReadTcpState>)
    requires *old(pos) < old(bytes)@.len(), 0 < read <= old(bytes)@.len() - *old(pos)
    ensures
        *final(pos) == *old(pos) + read, final(bytes)@ == old(bytes)@,
        *final(pos) < final(bytes)@.len() ==> new_state is None,
        *final(pos) == final(bytes)@.len() ==> (new_state matches Some(ReadTcpState::LenBytes { pos: p, .. }) && p == 0),
{
//%expr crates/net/src/tcp/tcp_stream.rs :: impl<S: DnsTcpStream> Stream for TcpStream<S> :: poll_next :: "trace!(\"in ReadTcpState::Bytes: {}\", bytes.len());" .. "bytes: [0u8; 2], }) }"
//%end
}
// handing a message out: only a COMPLETE body leaves the state machine (the source asserts it: assert_eq!(pos, bytes.len()))
pub open spec fn read_ok(s: ReadTcpState) -> bool {
    match s { ReadTcpState::LenBytes { pos, .. } => pos <= 2, ReadTcpState::Bytes { pos, bytes } => pos <= bytes@.len() }
}
fn deliver(read_state: &mut ReadTcpState, new_state: Option<ReadTcpState>) -> (ret_buf: Option<Vec<u8>>)
    requires
        // a new state is produced by the two transitions above only when the current unit is complete
        new_state is Some ==> (match *old(read_state) { ReadTcpState::LenBytes { pos, .. } => pos == 2, ReadTcpState::Bytes { pos, bytes } => pos == bytes@.len() }),
    ensures
        new_state is None ==> ret_buf is None && *final(read_state) == *old(read_state),
        new_state matches Some(s) ==> *final(read_state) == s,
        // exactly the complete body is delivered, and only when a body (not a length prefix) was being read
        match *old(read_state) {
            ReadTcpState::Bytes { pos, bytes } => new_state is Some ==> ret_buf == Some(bytes),
            ReadTcpState::LenBytes { .. } => ret_buf is None },
{
    let mut ret_buf = None;
//%expr crates/net/src/tcp/tcp_stream.rs :: impl<S: DnsTcpStream> Stream for TcpStream<S> :: poll_next :: "if let Some(state) = new_state {" .. "ret_buf = Some(bytes); } }"
//%sub1 "mem::replace(" => "core::mem::replace(" # R-sel: path made explicit (no `use` lines in the unit)
//%sub1 "assert_eq!(pos, bytes.len());" => "assert!(pos == bytes.len());" # R-shim: assert_eq! -> assert! of the same comparison (a proof obligation: it must not panic)
//%end
    ret_buf
}
// ---- close handling: "a connection closed between messages ends the stream cleanly, one closed inside a length prefix or
//      body yields an error" -- the `read == 0` branches of the two receive states (statement ranges; the `return
//      Poll::Ready(..)` of the enclosing poll_next become the wrapper's verdict) ----
pub enum VpClose { NotClosed, CleanEnd, Error }
fn closed_while_reading_prefix(pos: &mut usize, read: usize) -> (r: VpClose)
    ensures *final(pos) == *old(pos),
        read != 0 ==> r is NotClosed,
        // zero octets read = the peer closed: a clean end only at a frame boundary
        read == 0 && *old(pos) == 0 ==> r is CleanEnd,
        read == 0 && *old(pos) != 0 ==> r is Error,
{
//%expr crates/net/src/tcp/tcp_stream.rs :: impl<S: DnsTcpStream> Stream for TcpStream<S> :: poll_next :: "if read == 0 {"@1 .. "\"closed while reading length\", )))); } }"
//%sub1 "return Poll::Ready(None);" => "return VpClose::CleanEnd;" # wrapper: poll_next's `Poll::Ready(None)` = the stream ends cleanly
//%sub1 "return Poll::Ready(Some(Err(io::Error::new( io::ErrorKind::BrokenPipe, \"closed while reading length\", ))));" => "return VpClose::Error;" # wrapper: poll_next yields an error item
//%mutant clean_end_inside_a_prefix "if *pos == 0 {" => "if *pos <= 1 {"
//%end
    VpClose::NotClosed
}
fn closed_while_reading_body(read: usize) -> (r: VpClose)
    ensures read != 0 ==> r is NotClosed, read == 0 ==> r is Error      // a body is never cut short silently
{
//%expr crates/net/src/tcp/tcp_stream.rs :: impl<S: DnsTcpStream> Stream for TcpStream<S> :: poll_next :: "if read == 0 {"@2 .. "\"closed while reading message\", )))); }"
//%sub1 "return Poll::Ready(Some(Err(io::Error::new( io::ErrorKind::BrokenPipe, \"closed while reading message\", ))));" => "return VpClose::Error;" # wrapper: poll_next yields an error item
//%end
    VpClose::NotClosed
}

// ---- the client side wrapper (tcp_client_stream.rs::TcpClientStream::poll_next, whole body): what TcpStream reports is
//      what the caller sees -- in particular "one closed inside a length prefix or body yields an error": the BrokenPipe
//      items produced by the two kernels above must not be turned into a clean end of stream on the way up ----
pub enum Poll<T> { Ready(T), Pending }
pub struct VpSerialMessage { pub vp: u64, pub addr: u64 }
impl VpSerialMessage { pub fn addr(&self) -> (r: u64) ensures r == self.addr { self.addr } }
pub mod io {
    use vstd::prelude::*;
    verus! {
    #[derive(Clone, Copy)] pub enum ErrorKind { BrokenPipe, UnexpectedEof, Other }
    impl vstd::std_specs::cmp::PartialEqSpecImpl for ErrorKind { open spec fn obeys_eq_spec() -> bool { true } open spec fn eq_spec(&self, o: &ErrorKind) -> bool { *self == *o } }
    impl PartialEq for ErrorKind { fn eq(&self, o: &ErrorKind) -> (r: bool) { match (*self, *o) { (ErrorKind::BrokenPipe, ErrorKind::BrokenPipe) => true, (ErrorKind::UnexpectedEof, ErrorKind::UnexpectedEof) => true, (ErrorKind::Other, ErrorKind::Other) => true, _ => false } } }
    }
}
pub struct VpIoError { pub vp: u64, pub kind: io::ErrorKind }
impl VpIoError { pub fn kind(&self) -> (r: io::ErrorKind) ensures r == self.kind { self.kind } }
pub struct NetError { pub vp: u64 }
impl NetError { #[verifier::external_body] pub fn from(e: VpIoError) -> (r: NetError) { unimplemented!() } }
pub struct VpInnerTcp { pub peer: u64 }
impl VpInnerTcp { pub fn peer_addr(&self) -> (r: u64) ensures r == self.peer { self.peer } }
pub struct VpTcpClient { pub tcp_stream: VpInnerTcp }
impl VpTcpClient {
    fn client_poll_next(&self, inner: Poll<Option<Result<VpSerialMessage, VpIoError>>>) -> (r: Poll<Option<Result<VpSerialMessage, NetError>>>)
        ensures match inner {
            Poll::Pending => r is Pending,
            Poll::Ready(None) => r matches Poll::Ready(None),                          // a clean end stays a clean end
            Poll::Ready(Some(Err(_))) => r matches Poll::Ready(Some(Err(_))),          // an error reaches the caller as an error, whatever its kind
            Poll::Ready(Some(Ok(m))) => r matches Poll::Ready(Some(Ok(m2))) && m2 == m,   // a message is handed on whole
        }
    {
//%expr crates/net/src/tcp/tcp_client_stream.rs :: impl<S: DnsTcpStream> Stream for TcpClientStream<S> :: poll_next :: "let message = match ready!(" .. "Poll::Ready(Some(Ok(message)))"
//%sub1 "ready!(self.tcp_stream.poll_next_unpin(cx))" => "(match inner { Poll::Ready(t) => t, Poll::Pending => return Poll::Pending })" # futures::ready! written out; the inner stream's item is the wrapper's parameter
//%sub1 "warn!(\"{} does not match name_server: {}\", message.addr(), peer)" => "()" # R-log: a log line in tail position (arguments: two getters without side effects)
//%mutant broken_pipe_is_a_clean_end "Some(Err(e)) => return Poll::Ready(Some(Err(NetError::from(e))))," => "Some(Err(e)) => return Poll::Ready(None),"
//%end
    }
}

} // verus!
fn main() {}
