//%unit update_kernels
//%features std __dnssec dnssec-ring
use vstd::prelude::*;
verus! {
// RFC 1982 section 3.2, SERIAL_BITS = 32
pub open spec fn serial_lt(i1: u32, i2: u32) -> bool {
    (i1 < i2 && i2 - i1 < 0x8000_0000) || (i1 > i2 && i1 - i2 > 0x8000_0000)
}
// RFC 1982 section 3.1: s' = (s + n) modulo 2^32
pub open spec fn serial_add(s: u32, n: int) -> int { (s as int + n) % 0x1_0000_0000 }

// only the field the kernel touches; mname/rname/refresh/... are not read or written by it
pub struct SOA { pub serial: u32 }

impl SOA {
//%fn crates/proto/src/rr/rdata/soa.rs :: impl SOA :: increment_serial
//%contract
        // C12: "the SOA serial has strictly advanced (RFC 1982)" -- for EVERY current serial,
        // including 4294967295
        ensures final(self).serial as int == serial_add(old(self).serial, 1),
            serial_lt(old(self).serial, final(self).serial),
//%mutant add_two "1" => "2"
//%end
}
} // verus!
fn main() {}
