//%unit update_kernels
//%features std __dnssec dnssec-ring
use vstd::prelude::*;
verus! {
// RFC 1982 section 3.2, SERIAL_BITS = 32
pub open spec fn serial_lt(i1: u32, i2: u32) -> bool {
    (i1 < i2 && i2 - i1 < 0x8000_0000) || (i1 > i2 && i1 - i2 > 0x8000_0000)
}
// RFC 1982 section 3.1: s' = (s + n) modulo 2^32
pub open spec fn serial_add(s: u32, n: int) -> int { (s as int + n) % 0x1_0000_0000 }

// only the field the kernel touches; mname/rname/refresh/... are not read or written by it
pub struct SOA { pub serial: u32 }

impl SOA {
//%fn crates/proto/src/rr/rdata/soa.rs :: impl SOA :: increment_serial
//%contract
        // C12: "the SOA serial has strictly advanced (RFC 1982)" -- for EVERY current serial,
        // including 4294967295
        ensures final(self).serial as int == serial_add(old(self).serial, 1),
            serial_lt(old(self).serial, final(self).serial),
//%mutant add_two "1" => "2"
//%end
}
// ---- RFC 2136 3.4.1: the Update Section prescan (SqliteZoneHandler::pre_scan, an `async fn` without awaits).
//      C12: "a message whose prerequisites or prescan fail changes nothing" -- WHICH messages fail the prescan is
//      RFC 2136 3.4.1.3, written here as a spec predicate per update RR. ----
#[derive(Clone, Copy)] pub enum ResponseCode { NoError, FormErr, NotZone, NXDomain, NXRRSet, YXDomain, YXRRSet, Other(u16) }
#[derive(Clone, Copy)] pub enum DNSClass { IN, CH, HS, NONE, ANY, Other(u16) }
impl vstd::std_specs::cmp::PartialEqSpecImpl for DNSClass { open spec fn obeys_eq_spec() -> bool { true } open spec fn eq_spec(&self, o: &DNSClass) -> bool { *self == *o } }
impl PartialEq for DNSClass {
    fn eq(&self, o: &DNSClass) -> (r: bool) { match (*self, *o) { (DNSClass::IN, DNSClass::IN) => true, (DNSClass::CH, DNSClass::CH) => true, (DNSClass::HS, DNSClass::HS) => true,
        (DNSClass::NONE, DNSClass::NONE) => true, (DNSClass::ANY, DNSClass::ANY) => true, (DNSClass::Other(a), DNSClass::Other(b)) => a == b, _ => false } }
}
#[derive(Clone, Copy)] pub enum RecordType { ANY, AXFR, IXFR, SOA, NS, Other(u16) }
// only what the prescan looks at: an RR without RDATA decodes to Update0, NULL stands for "RDATA of length zero" too
pub enum RData { Update0(RecordType), NULL(u64), Other(u64) }
pub struct Name { pub id: u64 }
pub struct Record { pub name: Name, pub dns_class: DNSClass, pub ttl: u32, pub data: RData, pub rtype: RecordType }
impl Record { pub fn record_type(&self) -> (r: RecordType) ensures r == self.rtype { self.rtype } }
pub struct VpInMemory { pub class: DNSClass }
impl VpInMemory { pub fn class(&self) -> (r: DNSClass) ensures r == self.class { self.class } }
pub struct SqliteZoneHandler { pub in_memory: VpInMemory, pub vp: u64 }
pub uninterp spec fn in_zone(z: u64, n: Name) -> bool;
impl SqliteZoneHandler {
    // `self.origin().zone_of(&(&rr.name).into())`
    #[verifier::external_body] pub fn vp_in_zone(&self, n: &Name) -> (r: bool) ensures r == in_zone(self.vp, *n) { unimplemented!() }
}
pub open spec fn meta_type(t: RecordType) -> bool { t is AXFR || t is IXFR }       // AXFR|MAILA|MAILB of the RFC (IXFR in this code base)
// RFC 2136 3.4.1.3, one RR of the Update Section
pub open spec fn prescan_ok(z: u64, zclass: DNSClass, rr: Record) -> bool {
    in_zone(z, rr.name) && (
        if rr.dns_class == zclass { !(rr.rtype is ANY) && !meta_type(rr.rtype) }
        else if rr.dns_class is ANY { rr.ttl == 0 && (rr.data is Update0 || rr.data is NULL) && !meta_type(rr.rtype) }
        else if rr.dns_class is NONE { rr.ttl == 0 && !(rr.rtype is ANY) && !meta_type(rr.rtype) }
        else { false })
}
impl SqliteZoneHandler {
//%fn crates/server/src/store/sqlite/mod.rs :: impl<P: RuntimeProvider + Send + Sync> SqliteZoneHandler<P> :: pre_scan
//%sub1 "pub async fn" => "pub fn" # R-await: an `async fn` whose body contains no `.await`
//%sub1 "self.origin().zone_of(&(&rr.name).into())" => "self.vp_in_zone(&rr.name)" # R-shim: LowerName conversion + zone_of: the uninterpreted "inside the zone" relation
//%after "for rr in"
            vp_it:
//%after "for rr in records"
            invariant forall|j: int| 0 <= j < vp_it.index@ ==> prescan_ok(self.vp, self.in_memory.class, #[trigger] records@[j])
//%mutant none_class_ttl_not_checked "DNSClass::NONE => { if rr.ttl != 0 { return Err(ResponseCode::FormErr); }" => "DNSClass::NONE => {"
//%mutant any_class_with_rdata_accepted "_ => return Err(ResponseCode::FormErr), }"@1 => "_ => (), }"
//%contract
        // the prescan succeeds only if EVERY update RR passes RFC 2136 3.4.1.3 ...
        ensures r is Ok ==> forall|j: int| 0 <= j < records@.len() ==> prescan_ok(self.vp, self.in_memory.class, #[trigger] records@[j]),
            // ... and fails with NOTZONE / FORMERR, nothing else
            r matches Err(c) ==> c is NotZone || c is FormErr,
//%end
}

// ---- RFC 2136 3.4.2.3, CLASS ANY / TYPE ANY ("delete all RRsets from a name"): the predicate handed to
//      `records.retain(..)` in SqliteZoneHandler::update_records (expression range of an async fn).
//      C12: "an accepted message leaves exactly the RRset contents RFC 2136 section 3.4.2 prescribes. After every
//      message the zone has exactly one SOA and at least one apex NS" ----
impl vstd::std_specs::cmp::PartialEqSpecImpl for RecordType { open spec fn obeys_eq_spec() -> bool { true } open spec fn eq_spec(&self, o: &RecordType) -> bool { *self == *o } }
impl PartialEq for RecordType {
    fn eq(&self, o: &RecordType) -> (r: bool) { match (*self, *o) { (RecordType::ANY, RecordType::ANY) => true, (RecordType::AXFR, RecordType::AXFR) => true, (RecordType::IXFR, RecordType::IXFR) => true,
        (RecordType::SOA, RecordType::SOA) => true, (RecordType::NS, RecordType::NS) => true, (RecordType::Other(a), RecordType::Other(b)) => a == b, _ => false } }
}
#[derive(Clone, Copy)] pub struct LowerName { pub id: u64 }
impl vstd::std_specs::cmp::PartialEqSpecImpl for LowerName { open spec fn obeys_eq_spec() -> bool { true } open spec fn eq_spec(&self, o: &LowerName) -> bool { self.id == o.id } }
impl PartialEq for LowerName { fn eq(&self, o: &LowerName) -> (r: bool) { self.id == o.id } }
pub struct RrKey { pub name: LowerName, pub record_type: RecordType }
// what the zone keeps when an update RR <rr_name, ANY, ANY> is applied, by key
fn any_any_keeps(k: &RrKey, rr_name: LowerName, origin: &LowerName) -> (r: bool)
    ensures
        // "all Zone RRs with the same NAME are deleted, unless the NAME is the same as ZNAME in which case only those
        //  RRs whose TYPE is other than SOA or NS are deleted": other names are untouched, and of the RRsets at
        //  rr_name exactly the apex SOA and apex NS survive
        r == (k.name.id != rr_name.id || (rr_name.id == origin.id && (k.record_type is SOA || k.record_type is NS))),
{
//%expr crates/server/src/store/sqlite/mod.rs :: impl<P: RuntimeProvider + Send + Sync> SqliteZoneHandler<P> :: update_records :: "k.name != rr_name" .. "* origin )"
//%mutant apex_soa_deleted "k.name == *origin" => "k.name != *origin"
//%end
}

// ---- "the SOA serial has strictly advanced if and only if the content changed": update_records returns Ok(updated) and the
//      caller bumps the serial iff it is true, so `updated` must ACCUMULATE over the update RRs of one message: once a
//      record changed the zone, a later record that changes nothing must not reset it. Four statement ranges, one per arm. ----
pub struct VpRecordSet { pub vp: u64 }
impl VpRecordSet {
    pub uninterp spec fn view(&self) -> Set<u64>;
    #[verifier::external_body] pub fn clone(s: &VpRecordSet) -> (r: VpRecordSet) ensures r@ == s@ { unimplemented!() }
    // RecordSet::remove (proved in unit rrset): true iff something was removed
    #[verifier::external_body] pub fn remove(&mut self, rr: &Record, serial: u32) -> (r: bool) ensures r == (final(self)@ != old(self)@) { unimplemented!() }
}
pub struct VpRecords { pub vp: u64 }
impl VpRecords {
    pub uninterp spec fn has(&self, k: RrKey) -> bool;
    // BTreeMap::remove
    #[verifier::external_body] pub fn remove(&mut self, k: &RrKey) -> (r: Option<VpRecordSet>)
        ensures r.is_some() == old(self).has(*k), !final(self).has(*k) { unimplemented!() }
}
// class == zone class: "Add to an RRset"
fn acc_upsert(upserted: bool, updated_in: bool) -> (r: bool)
    ensures r == (updated_in || upserted)
{
    let mut updated = updated_in;
//%expr crates/server/src/store/sqlite/mod.rs :: impl<P: RuntimeProvider + Send + Sync> SqliteZoneHandler<P> :: update_records :: "updated = upserted" .. "|| updated"
//%end
    ;
    updated
}
// class ANY, type ANY: "Delete all RRsets from a name"
fn acc_delete_name(new_size: usize, old_size: usize, updated_in: bool) -> (r: bool)
    ensures r == (updated_in || new_size < old_size)
{
    let mut updated = updated_in;
//%expr crates/server/src/store/sqlite/mod.rs :: impl<P: RuntimeProvider + Send + Sync> SqliteZoneHandler<P> :: update_records :: "if new_size < old_size {" .. "}"
//%end
    updated
}
// class ANY, type T: "Delete an RRset"
fn acc_delete_rrset(vp_records: &mut VpRecords, rr_key: RrKey, updated_in: bool) -> (r: bool)
    ensures r == (updated_in || old(vp_records).has(rr_key)), !final(vp_records).has(rr_key),
{
    let mut updated = updated_in;
//%expr crates/server/src/store/sqlite/mod.rs :: impl<P: RuntimeProvider + Send + Sync> SqliteZoneHandler<P> :: update_records :: "let deleted = self.in_memory.records_mut().await.remove(&rr_key);" .. "deleted.is_some();"
//%sub1 "self.in_memory.records_mut().await.remove(&rr_key)" => "vp_records.remove(&rr_key)" # R-await + R-shim: the write guard of the zone's BTreeMap -> stand-in map
//%end
    updated
}
// class NONE: "Delete an RR from an RRset"
fn acc_delete_rr(rrset: &mut VpRecordSet, rr: &Record, serial: u32, updated_in: bool) -> (r: bool)
    ensures r == (updated_in || final(rrset)@ != old(rrset)@),
{
    let mut updated = updated_in;
//%expr crates/server/src/store/sqlite/mod.rs :: impl<P: RuntimeProvider + Send + Sync> SqliteZoneHandler<P> :: update_records :: "let mut rrset_clone: RecordSet" .. "Arc::new(rrset_clone); }"
//%sub1 "let mut rrset_clone: RecordSet = RecordSet::clone(&*rrset);" => "let mut rrset_clone: VpRecordSet = VpRecordSet::clone(&*rrset);" # R-shim: RecordSet stand-in
//%sub1 "Arc::new(rrset_clone)" => "rrset_clone" # R-shim: the Arc around the stored RRset is dropped (copy-on-write of the node)
//%end
    updated
}

// ---- RFC 2136 3.2: the Prerequisite Section (SqliteZoneHandler::verify_prerequisites, whole function; an async fn whose
//      awaits are zone lookups: R-await). C12: "each message's prerequisites are judged against the zone as left by the earlier
//      messages, a message whose prerequisites ... fail changes nothing": the function only READS the zone (it takes &self and
//      every zone access is a lookup), and WHICH messages pass is 3.2.1-3.2.5, written here as a predicate per prerequisite RR
//      over the zone's current content `zone_rrs(z, name, type)` (type ANY: every RR at the name). ----
pub uninterp spec fn zone_rrs(z: u64, name: Name, t: RecordType) -> Seq<Record>;
pub open spec fn data_eq(a: RData, b: RData) -> bool {
    match (a, b) { (RData::Update0(_), RData::Update0(_)) => true, (RData::NULL(x), RData::NULL(y)) => x == y, (RData::Other(x), RData::Other(y)) => x == y, _ => false }
}
// PartialEq for Record (rr/record.rs): name, class and RDATA; the TTL is not compared
pub open spec fn rec_eq(a: Record, b: Record) -> bool { a.name.id == b.name.id && a.dns_class == b.dns_class && data_eq(a.data, b.data) }
#[verifier::external_body] pub fn vp_rec_eq(a: &Record, b: &Record) -> (r: bool) ensures r == rec_eq(*a, *b) { unimplemented!() }
pub struct VpLookup { pub recs: Vec<Record> }
impl VpLookup {
    pub fn was_empty(&self) -> (r: bool) ensures r == (self.recs@.len() == 0) { self.recs.len() == 0 }
    // `.iter().any(f)` over the records of the lookup, specified through the closure's own contract
    #[verifier::external_body]
    pub fn vp_any<F: Fn(&Record) -> bool>(&self, f: F) -> (r: bool)
        requires forall|i: int| 0 <= i < self.recs@.len() ==> call_requires(f, (&#[trigger] self.recs@[i],))
        ensures r ==> exists|i: int| 0 <= i < self.recs@.len() && call_ensures(f, (&#[trigger] self.recs@[i],), true),
            !r ==> forall|i: int| 0 <= i < self.recs@.len() ==> call_ensures(f, (&#[trigger] self.recs@[i],), false)
    { unimplemented!() }
}
pub struct VpLookupResult { pub l: VpLookup }
impl VpLookupResult { pub fn unwrap_or_default(self) -> (r: VpLookup) ensures r == self.l { self.l } }
pub struct LookupOptions { pub vp: u64 }
impl LookupOptions { pub fn default() -> (r: LookupOptions) { LookupOptions { vp: 0 } } }
impl SqliteZoneHandler {
    // ZoneHandler::lookup on the zone as it is now (an Err or NXDOMAIN becomes the empty lookup through unwrap_or_default)
    #[verifier::external_body]
    pub fn lookup(&self, name: &Name, t: RecordType, x: Option<u64>, o: LookupOptions) -> (r: VpLookupResult)
        ensures r.l.recs@ == zone_rrs(self.vp, *name, t)
    { unimplemented!() }
}
// RFC 2136 3.2, one RR of the Prerequisite Section against the zone z
pub open spec fn prereq_verdict(z: u64, zclass: DNSClass, rr: Record) -> ResponseCode {
    if rr.ttl != 0 { ResponseCode::FormErr }
    else if !in_zone(z, rr.name) { ResponseCode::NotZone }
    else if rr.dns_class is ANY {
        if !(rr.data is Update0 || rr.data is NULL) { ResponseCode::FormErr }
        else if rr.rtype is ANY { if zone_rrs(z, rr.name, RecordType::ANY).len() == 0 { ResponseCode::NXDomain } else { ResponseCode::NoError } }     // 3.2.2 name is in use
        else { if zone_rrs(z, rr.name, rr.rtype).len() == 0 { ResponseCode::NXRRSet } else { ResponseCode::NoError } }                              // 3.2.1 RRset exists (value independent)
    } else if rr.dns_class is NONE {
        if !(rr.data is Update0 || rr.data is NULL) { ResponseCode::FormErr }
        else if rr.rtype is ANY { if zone_rrs(z, rr.name, RecordType::ANY).len() != 0 { ResponseCode::YXDomain } else { ResponseCode::NoError } }     // 3.2.4 name is not in use
        else { if zone_rrs(z, rr.name, rr.rtype).len() != 0 { ResponseCode::YXRRSet } else { ResponseCode::NoError } }                              // 3.2.3 RRset does not exist
    } else if rr.dns_class == zclass {
        // 3.2.5 RRset exists (value dependent) -- as far as this function goes: the RR is a member of the zone's RRset
        if exists|i: int| 0 <= i < zone_rrs(z, rr.name, rr.rtype).len() && rec_eq(#[trigger] zone_rrs(z, rr.name, rr.rtype)[i], rr) { ResponseCode::NoError } else { ResponseCode::NXRRSet }
    } else { ResponseCode::FormErr }
}
impl SqliteZoneHandler {
//%fn crates/server/src/store/sqlite/mod.rs :: impl<P: RuntimeProvider + Send + Sync> SqliteZoneHandler<P> :: verify_prerequisites
//%sub1 "pub async fn" => "pub fn" # R-await: the awaits are zone lookups, modelled as plain calls
//%sub ".await" => "" # R-await
//%sub1 "let required_name = LowerName::from(&require.name);" => "let required_name = Name { id: require.name.id };" # R-shim: LowerName conversion (same name, lower-cased): the stand-in name is its identity
//%sub1 "let origin = self.origin();" => "" # R-shim: folded into vp_in_zone below
//%sub1 "!origin.zone_of(&(&require.name).into())" => "!self.vp_in_zone(&require.name)" # R-shim: LowerName conversion + zone_of: the uninterpreted inside-the-zone relation (as in pre_scan)
//%sub "} else { continue; }" => "}" # R-cont: a `continue` that is the last statement of the loop body (every arm ends the body)
//%sub1 ".iter() .any(" => ".vp_any(" # R-iter: slice::iter().any(f) -> contract-specified shim
//%closure "|rr|"
|rr: &Record| -> (b: bool) ensures b == rec_eq(*rr, *require)
//%sub1 "rr == require" => "vp_rec_eq(rr, require)" # R-shim: PartialEq for Record
//%after "for require in"
            vp_it:
//%after "for require in pre_requisites"
            invariant forall|j: int| 0 <= j < vp_it.index@ ==> prereq_verdict(self.vp, self.in_memory.class, #[trigger] pre_requisites@[j]) is NoError
//%contract
        // succeeds only if EVERY prerequisite holds in the zone as it is now ...
        ensures r is Ok ==> forall|j: int| 0 <= j < pre_requisites@.len() ==> prereq_verdict(self.vp, self.in_memory.class, #[trigger] pre_requisites@[j]) is NoError,
            // ... and fails with the RCODE RFC 2136 3.2 assigns to some prerequisite that does not hold
            r matches Err(c) ==> exists|j: int| 0 <= j < pre_requisites@.len() && prereq_verdict(self.vp, self.in_memory.class, #[trigger] pre_requisites@[j]) == c && !(c is NoError),
//%mutant name_not_in_use_check_inverted "return Err(ResponseCode::YXDomain);" => "return Err(ResponseCode::NXDomain);"
//%mutant ttl_not_checked "if require.ttl != 0 {" => "if false && require.ttl != 0 {"
//%end
}

} // verus!
fn main() {}
