//%unit ad_summary
//%features std __dnssec dnssec-ring
use vstd::prelude::*;
use vstd::std_specs::iter::IteratorSpec;
verus! {
// ---- C07 kernel: "a record is returned as Secure (and the server sets AD) only if ...": how the per-record verdicts of a response
//      are summarised into the one verdict that decides the AD bit / SERVFAIL (proto/src/dnssec/mod.rs::DnssecSummary::
//      from_records, whole function): Secure only if there is at least one record and EVERY record is Secure; Bogus as soon as
//      ANY record is Bogus; the order of the records does not matter. ----
#[derive(Clone, Copy)]
//%enum crates/proto/src/dnssec/proof.rs :: Proof
//%sub1 "#[default]" => "" # R-attr: derive(Default) marker
//%end
//%enum crates/proto/src/dnssec/mod.rs :: DnssecSummary
//%end
pub struct Record { pub proof: Proof, pub vp: u64 }
pub fn vp_get_or_insert(o: &mut Option<bool>, v: bool) ensures *final(o) == (match *old(o) { Some(x) => Some(x), None => Some(v) }) { if o.is_none() { *o = Some(v); } }
pub fn vp_unwrap_or(o: Option<bool>, d: bool) -> (r: bool) ensures r == (match o { Some(x) => x, None => d }) { match o { Some(x) => x, None => d } }
impl DnssecSummary {
//%fn crates/proto/src/dnssec/mod.rs :: impl DnssecSummary :: from_records
//%sub1 "records: impl Iterator<Item = &'a Record>" => "records: &'a Vec<Record>" # R-mono: the iterator argument instantiated as the iterator of a slice of records (what the callers pass)
//%sub1 "for record in records" => "for record in vp_it: records.iter()" # R-mono (same instantiation); R-ann: ghost iterator name
//%sub1 "all_secure.get_or_insert(true);" => "vp_get_or_insert(&mut all_secure, true);" # R-shim: Option::get_or_insert
//%sub1 "all_secure.unwrap_or(false)" => "vp_unwrap_or(all_secure, false)" # R-shim: Option::unwrap_or
//%before "{ match &record.proof"
            invariant
                vp_it.snapshot@.remaining().len() == records@.len(), 0 <= vp_it.index@ <= records@.len(),
                forall|j: int| 0 <= j < records@.len() ==> *(#[trigger] vp_it.snapshot@.remaining()[j]) == records@[j],
                forall|i: int| 0 <= i < vp_it.index@ ==> !((#[trigger] records@[i]).proof is Bogus),
                all_secure is None ==> vp_it.index@ == 0,
                all_secure == Some(true) ==> vp_it.index@ > 0 && forall|i: int| 0 <= i < vp_it.index@ ==> (#[trigger] records@[i]).proof is Secure,
                all_secure == Some(false) ==> exists|i: int| 0 <= i < vp_it.index@ && !((#[trigger] records@[i]).proof is Secure),
//%before "match &record.proof"
            assert(*record == records@[vp_it.index@ as int]);
//%mutant first_record_decides "_ => all_secure = Some(false)," => "_ => { vp_get_or_insert(&mut all_secure, false); }"
//%mutant bogus_not_reported "Proof::Bogus => return Self::Bogus," => "Proof::Bogus => all_secure = Some(false),"
//%contract
        ensures
            r is Secure <==> (records@.len() > 0 && forall|i: int| 0 <= i < records@.len() ==> (#[trigger] records@[i]).proof is Secure),
            r is Bogus <==> exists|i: int| 0 <= i < records@.len() && (#[trigger] records@[i]).proof is Bogus,
//%end
}
} // verus!
fn main() {}
