//%unit serial
//%features std __dnssec dnssec-ring
use vstd::prelude::*;
use core::cmp::Ordering;
verus! {
// ---- RFC 1982 section 3.2 (SERIAL_BITS = 32), written from the RFC text ----
pub open spec fn serial_lt(i1: u32, i2: u32) -> bool {
    (i1 < i2 && i2 - i1 < 0x8000_0000) || (i1 > i2 && i1 - i2 > 0x8000_0000)
}
pub open spec fn serial_gt(i1: u32, i2: u32) -> bool {
    (i1 < i2 && i2 - i1 > 0x8000_0000) || (i1 > i2 && i1 - i2 < 0x8000_0000)
}
// "<=" as used by RFC 4034 3.1.5 / RFC 4035 5.3.1 time comparisons
pub open spec fn serial_le(i1: u32, i2: u32) -> bool { i1 == i2 || serial_lt(i1, i2) }
pub open spec fn serial_ge(i1: u32, i2: u32) -> bool { i1 == i2 || serial_gt(i1, i2) }

#[derive(Clone, Copy)]
//%struct crates/proto/src/rr/serial_number.rs :: SerialNumber
//%end

impl SerialNumber {
//%fn crates/proto/src/rr/serial_number.rs :: impl SerialNumber :: new
//%contract
        ensures r.0 == value
//%end
//%fn crates/proto/src/rr/serial_number.rs :: impl SerialNumber :: get
//%contract
        ensures r == self.0
//%end
//%fn crates/proto/src/rr/serial_number.rs :: impl Add for SerialNumber :: add
//%rename vp_add
//%sub1 "Self::Output" => "Self" # R-sel: trait-impl method pulled out as an inherent fn (associated type written out)
//%contract
        // RFC 1982 3.1: addition is modulo 2^32
        ensures r.0 as int == (self.0 as int + rhs.0 as int) % 0x1_0000_0000
//%end
//%fn crates/proto/src/rr/serial_number.rs :: impl PartialOrd for SerialNumber :: partial_cmp
//%rename vp_partial_cmp
//%contract
        // C06: "the validator's clock is within [inception, expiration] in serial-number arithmetic"
        ensures
            (r == Some(Ordering::Equal)) <==> self.0 == other.0,
            (r == Some(Ordering::Less)) <==> serial_lt(self.0, other.0),
            (r == Some(Ordering::Greater)) <==> serial_gt(self.0, other.0),
            (r is None) <==> (self.0 != other.0 && !serial_lt(self.0, other.0) && !serial_gt(self.0, other.0)),
//%before "let i1 = self.0;"
        assert(SERIAL_BITS_HALF == 0x8000_0000u32) by (compute);
//%mutant half_off_by_one "(i2 - i1) < SERIAL_BITS_HALF" => "(i2 - i1) <= SERIAL_BITS_HALF"
//%mutant plain_compare "(i1 > i2 && (i1 - i2) > SERIAL_BITS_HALF)" => "false"
//%end
}

// consequences used by callers (derived PartialOrd operators): a <= b  <=>  partial_cmp is Less or Equal
pub proof fn lemma_serial_facts(a: u32, b: u32)
    ensures
        !(serial_lt(a, b) && serial_gt(a, b)),
        serial_lt(a, b) <==> serial_gt(b, a),
        // the undefined case of RFC 1982 is exactly distance 2^31
        (a != b && !serial_lt(a, b) && !serial_gt(a, b)) <==> (a as int - b as int == 0x8000_0000 || b as int - a as int == 0x8000_0000),
        // the successor is always strictly greater
        serial_lt(a, ((a as int + 1) % 0x1_0000_0000) as u32),
{}
} // verus!
fn main() {}
