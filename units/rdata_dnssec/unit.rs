//%unit rdata_dnssec
//%features std __dnssec dnssec-ring
use vstd::prelude::*;
verus! {
//%include ../common/decoder.rs

// ---- C01, DNSSEC RDATA decoders ("not even compiled in the baseline build"): straight-line readers over
//      the checked decoder primitives; totality = every length taken from the wire is checked first ----
#[derive(Clone, Copy)] pub struct Algorithm(pub u8);
#[derive(Clone, Copy)] pub struct RecordType(pub u16);
#[derive(Clone, Copy)] pub struct DigestType(pub u8);
#[derive(Clone, Copy)] pub struct Nsec3HashAlgorithm(pub u8);
#[derive(Clone, Copy)] pub struct SerialNumber(pub u32);
pub struct Name { pub vp: u64 }
pub struct RecordTypeSet { pub vp: u64 }
// 2-octet / 1-octet enum readers: `read_u16/read_u8` followed by a total conversion
impl Algorithm {
    #[verifier::external_body] pub fn from_u8(v: u8) -> Algorithm { unimplemented!() }
//%fn crates/proto/src/dnssec/algorithm.rs :: impl<'r> BinDecodable<'r> for Algorithm :: read
//%novis
//%sub1 "fn read(" => "pub fn read<'r>(" # R-vis: trait-impl method placed in an inherent impl (the impl's lifetime parameter moves to the fn)
//%contract
        requires old(decoder).wf()
        ensures final(decoder).wf(), final(decoder).buf() == old(decoder).buf(), final(decoder).idx() >= old(decoder).idx()
//%end
}
impl RecordType {
    #[verifier::external_body] pub fn from(v: u16) -> RecordType { unimplemented!() }
//%fn crates/proto/src/rr/record_type.rs :: impl BinDecodable<'_> for RecordType :: read
//%novis
//%sub1 "fn read" => "pub fn read" # R-vis
//%sub1 ".map( Restrict::unverified, )" => ".map(|v: Restrict<u16>| -> (o: u16) ensures o == v.0 { v.unverified() })" # R-shim: method path used as a function value is eta-expanded
//%sub1 ".map(Self::from)" => ".map(|v: u16| -> (o: RecordType) { RecordType::from(v) })" # R-shim: eta-expanded
//%contract
        requires old(decoder).wf()
        ensures final(decoder).wf(), final(decoder).buf() == old(decoder).buf(), final(decoder).idx() >= old(decoder).idx()
//%end
}
impl DigestType { #[verifier::external_body] pub fn from(v: u8) -> DigestType { unimplemented!() } }
impl Nsec3HashAlgorithm {
    // nsec3.rs: TryFrom<u8>: 1 => SHA1, anything else => Err(UnknownNsec3HashAlgorithm)
    #[verifier::external_body] pub fn try_from(v: u8) -> (r: Result<Nsec3HashAlgorithm, DecodeError>) { unimplemented!() }
}
// contracts proved for the real functions in units name_read / rdata_bitmap
#[verifier::external_body]
pub fn name_read<'r>(decoder: &mut BinDecoder<'r>) -> (r: Result<Name, DecodeError>)
    requires old(decoder).wf()
    ensures final(decoder).wf(), final(decoder).buf() == old(decoder).buf(), final(decoder).idx() >= old(decoder).idx()
{ unimplemented!() }
#[verifier::external_body]
pub fn record_type_set_read_data(decoder: &mut BinDecoder<'_>) -> (r: Result<RecordTypeSet, DecodeError>)
    requires old(decoder).wf()
    ensures final(decoder).wf(), final(decoder).buf() == old(decoder).buf(), final(decoder).idx() >= old(decoder).idx()
{ unimplemented!() }

pub struct NSEC3 { pub vp: u64 }
impl NSEC3 {
    #[verifier::external_body]
    pub fn with_record_type_set(a: Nsec3HashAlgorithm, opt_out: bool, iterations: u16, salt: Vec<u8>, next: Vec<u8>, types: RecordTypeSet) -> NSEC3 { unimplemented!() }
}
//%fn crates/proto/src/dnssec/rdata/nsec3.rs :: impl<'r> RecordDataDecodable<'r> for NSEC3 :: read_data
//%rename nsec3_read_data<'r>
//%sub1 "Result<Self, DecodeError>" => "Result<NSEC3, DecodeError>" # R-sel: trait-impl method pulled out as a free fn
//%sub1 "Ok(Self::with_record_type_set(" => "Ok(NSEC3::with_record_type_set(" # R-sel
//%sub1 "RecordTypeSet::read_data(decoder)" => "record_type_set_read_data(decoder)" # R-sel: call of the pulled-out method (proved in unit rdata_bitmap)
//%sub1 ".map_err(DecodeError::UnrecognizedNsec3Flags)" => ".map_err(|f: u8| -> (e: DecodeError) { DecodeError::UnrecognizedNsec3Flags(f) })" # R-shim: enum constructor used as a function value is eta-expanded
//%closure "|flags|"
|flags: &u8| -> (b: bool)
//%sub1 "flags & 0b1111_1110" => "*flags & 0b1111_1110" # R-shim: BitAnd on a &u8 operand (Verus panics on it) written with an explicit deref
//%closure "|u|"@1
|u: u8| -> (o: usize) ensures o == u as usize
//%closure "|salt_len|"@1
|salt_len: &usize| -> (b: bool) ensures b == (*salt_len <= salt_len_max)
//%closure "|salt_len|"@2
|salt_len: usize| -> (e: DecodeError)
//%closure "|u|"@2
|u: u8| -> (o: usize) ensures o == u as usize
//%closure "|hash_len|"@1
|hash_len: &usize| -> (b: bool) ensures b == (*hash_len <= hash_len_max)
//%closure "|hash_len|"@2
|hash_len: usize| -> (e: DecodeError)
//%contract
    requires old(decoder).wf()
    ensures final(decoder).wf(), final(decoder).buf() == old(decoder).buf(), final(decoder).idx() >= old(decoder).idx()
//%end

pub struct PublicKeyBuf { pub vp: u64 }
impl PublicKeyBuf { #[verifier::external_body] pub fn new(k: Vec<u8>, a: Algorithm) -> PublicKeyBuf { unimplemented!() } }
pub struct DNSKEY { pub vp: u64 }
impl DNSKEY { #[verifier::external_body] pub fn with_flags(flags: u16, k: PublicKeyBuf) -> DNSKEY { unimplemented!() } }
//%fn crates/proto/src/dnssec/rdata/dnskey.rs :: impl<'r> RecordDataDecodable<'r> for DNSKEY :: read_data
//%rename dnskey_read_data<'r>
//%sub1 "Result<Self, DecodeError>" => "Result<DNSKEY, DecodeError>" # R-sel
//%sub1 "Ok(Self::with_flags(" => "Ok(DNSKEY::with_flags(" # R-sel
//%sub1 ".map_err(DecodeError::DnsKeyProtocolNot3)" => ".map_err(|p: u8| -> (e: DecodeError) { DecodeError::DnsKeyProtocolNot3(p) })" # R-shim: eta-expanded constructor
//%closure "|protocol|"
|protocol: &u8| -> (b: bool)
//%contract
    requires old(decoder).wf()
    ensures final(decoder).wf(), final(decoder).buf() == old(decoder).buf(), final(decoder).idx() >= old(decoder).idx()
//%end

pub struct DS { pub vp: u64 }
impl DS { #[verifier::external_body] pub fn new(key_tag: u16, a: Algorithm, d: DigestType, digest: Vec<u8>) -> DS { unimplemented!() } }
//%fn crates/proto/src/dnssec/rdata/ds.rs :: impl<'r> RecordDataDecodable<'r> for DS :: read_data
//%rename ds_read_data<'r>
//%sub1 "Result<Self, DecodeError>" => "Result<DS, DecodeError>" # R-sel
//%sub1 "Ok(Self::new(" => "Ok(DS::new(" # R-sel
//%contract
    requires old(decoder).wf()
    ensures final(decoder).wf(), final(decoder).buf() == old(decoder).buf(), final(decoder).idx() >= old(decoder).idx()
//%end

//%struct crates/proto/src/dnssec/rdata/sig.rs :: SigInput
//%end
//%struct crates/proto/src/dnssec/rdata/sig.rs :: SIG
//%end
//%fn crates/proto/src/dnssec/rdata/sig.rs :: impl<'r> RecordDataDecodable<'r> for SIG :: read_data
//%rename sig_read_data<'r>
//%sub1 "Result<Self, DecodeError>" => "Result<SIG, DecodeError>" # R-sel
//%sub1 "Ok(Self { input, sig })" => "Ok(SIG { input, sig })" # R-sel
//%sub1 "Name::read(decoder)" => "name_read(decoder)" # R-sel: proved in unit name_read
//%contract
    requires old(decoder).wf()
    ensures final(decoder).wf(), final(decoder).buf() == old(decoder).buf(), final(decoder).idx() >= old(decoder).idx()
//%end

pub struct NSEC { pub next_domain_name: Name, pub type_bit_maps: RecordTypeSet }
//%fn crates/proto/src/dnssec/rdata/nsec.rs :: impl<'r> RecordDataDecodable<'r> for NSEC :: read_data
//%rename nsec_read_data<'r>
//%sub1 "Result<Self, DecodeError>" => "Result<NSEC, DecodeError>" # R-sel
//%sub1 "Ok(Self {" => "Ok(NSEC {" # R-sel
//%sub1 "Name::read(decoder)" => "name_read(decoder)" # R-sel
//%sub1 "RecordTypeSet::read_data(decoder)" => "record_type_set_read_data(decoder)" # R-sel
//%contract
    requires old(decoder).wf()
    ensures final(decoder).wf(), final(decoder).buf() == old(decoder).buf(), final(decoder).idx() >= old(decoder).idx()
//%end

pub struct CSYNC { pub soa_serial: u32, pub immediate: bool, pub soa_minimum: bool, pub reserved_flags: u16, pub type_bit_maps: RecordTypeSet }
//%fn crates/proto/src/rr/rdata/csync.rs :: impl<'r> RecordDataDecodable<'r> for CSYNC :: read_data
//%rename csync_read_data<'r>
//%sub1 "Result<Self, DecodeError>" => "Result<CSYNC, DecodeError>" # R-sel
//%sub1 "Ok(Self {" => "Ok(CSYNC {" # R-sel
//%sub1 "RecordTypeSet::read_data(decoder)" => "record_type_set_read_data(decoder)" # R-sel
//%sub1 ".map_err(DecodeError::UnrecognizedCsyncFlags)" => ".map_err(|f: u16| -> (e: DecodeError) { DecodeError::UnrecognizedCsyncFlags(f) })" # R-shim: eta-expanded constructor
//%sub1 "|flags| flags & 0b1111_1100 == 0" => "|flags: &u16| -> (b: bool) { *flags & 0b1111_1100 == 0 }" # R-clo + R-shim: typed closure, BitAnd on a &u16 operand written with an explicit deref
//%contract
    requires old(decoder).wf()
    ensures final(decoder).wf(), final(decoder).buf() == old(decoder).buf(), final(decoder).idx() >= old(decoder).idx()
//%end
} // verus!
fn main() {}
