//%unit name_order
//%features std
use vstd::prelude::*;
use vstd::std_specs::iter::IteratorSpec;
use core::cmp::Ordering;
verus! {
//%include ../common/decoder.rs
//%include ../common/name.rs
//%include ../common/label_iter.rs

// ---- RFC 4034 section 6.1 canonical order, written from the RFC text ----
pub open spec fn lower(b: u8) -> u8 { if 0x41 <= b <= 0x5A { (b + 32) as u8 } else { b } }
pub open spec fn upper(b: u8) -> u8 { if 0x61 <= b <= 0x7A { (b - 32) as u8 } else { b } }
pub open spec fn key(fold: bool, b: u8) -> int { if fold { lower(b) as int } else { b as int } }
pub open spec fn ord_int(a: int, b: int) -> Ordering {
    if a < b { Ordering::Less } else if a > b { Ordering::Greater } else { Ordering::Equal }
}
// labels compare as left-justified octet strings (upper case folded when `fold`); the absence of an
// octet sorts before a zero octet
pub open spec fn label_cmp(fold: bool, a: Seq<u8>, b: Seq<u8>) -> Ordering
    decreases a.len()
{
    if a.len() == 0 || b.len() == 0 { ord_int(a.len() as int, b.len() as int) }
    else if key(fold, a[0]) != key(fold, b[0]) { ord_int(key(fold, a[0]), key(fold, b[0])) }
    else { label_cmp(fold, a.drop_first(), b.drop_first()) }
}
// names sort by their most significant (rightmost) label first
pub open spec fn canon_cmp(fold: bool, x: Seq<Seq<u8>>, y: Seq<Seq<u8>>) -> Ordering
    decreases x.len()
{
    if x.len() == 0 || y.len() == 0 { ord_int(x.len() as int, y.len() as int) }
    else if label_cmp(fold, x.last(), y.last()) != Ordering::Equal { label_cmp(fold, x.last(), y.last()) }
    else { canon_cmp(fold, x.drop_last(), y.drop_last()) }
}

// assumed specs of core (u8 ASCII case mapping)
pub assume_specification [u8::to_ascii_lowercase] (b: &u8) -> (r: u8) ensures r == lower(*b);
pub assume_specification [<Ordering as PartialEq>::eq] (a: &Ordering, b: &Ordering) -> (r: bool) ensures r == (*a == *b);
pub assume_specification [<[u8]>::eq_ignore_ascii_case] (a: &[u8], b: &[u8]) -> (r: bool)
    ensures r == (a@.len() == b@.len() && forall|i: int| 0 <= i < a@.len() ==> lower(a@[i]) == lower(b@[i]));
pub assume_specification [u8::to_ascii_uppercase] (b: &u8) -> (r: u8) ensures r == upper(*b);

#[verifier::external_body]
pub fn vp_is_star(l: &[u8]) -> (r: bool) ensures r == (l@ =~= seq![42u8]) { l == b"*" }

// interface of label.rs::LabelCmp with its contract: cmp_u8 orders octets by key(folds(), .)
pub trait LabelCmp {
    spec fn folds() -> bool;
    fn cmp_u8(l: u8, r: u8) -> (o: Ordering)
        ensures o == ord_int(key(Self::folds(), l), key(Self::folds(), r));
}
//%struct crates/proto/src/rr/domain/label.rs :: CaseSensitive
//%end
//%struct crates/proto/src/rr/domain/label.rs :: CaseInsensitive
//%end
impl LabelCmp for CaseSensitive {
    open spec fn folds() -> bool { false }
//%fn crates/proto/src/rr/domain/label.rs :: impl LabelCmp for CaseSensitive :: cmp_u8
//%end
}
impl LabelCmp for CaseInsensitive {
    // "Name equality ... ignore ASCII case and nothing else" (C04)
    open spec fn folds() -> bool { true }
//%fn crates/proto/src/rr/domain/label.rs :: impl LabelCmp for CaseInsensitive :: cmp_u8
//%end
}

// ---- lemmas about the spec (induction the solver will not do unprompted) ----
pub proof fn lemma_label_cmp_skip(fold: bool, a: Seq<u8>, b: Seq<u8>, i: int)
    requires 0 <= i <= a.len(), i <= b.len(), forall|t: int| 0 <= t < i ==> key(fold, a[t]) == key(fold, b[t])
    ensures label_cmp(fold, a, b) == label_cmp(fold, a.skip(i), b.skip(i))
    decreases i
{
    if i > 0 {
        assert(a.drop_first().skip(i - 1) =~= a.skip(i));
        assert(b.drop_first().skip(i - 1) =~= b.skip(i));
        assert forall|t: int| 0 <= t < i - 1 implies key(fold, a.drop_first()[t]) == key(fold, b.drop_first()[t]) by {
            assert(a.drop_first()[t] == a[t + 1]);
            assert(b.drop_first()[t] == b[t + 1]);
        }
        lemma_label_cmp_skip(fold, a.drop_first(), b.drop_first(), i - 1);
    } else {
        assert(a.skip(0) =~= a);
        assert(b.skip(0) =~= b);
    }
}
// the j-th labels from the right compare Equal
pub open spec fn rl_eq(fold: bool, x: Seq<Seq<u8>>, y: Seq<Seq<u8>>, j: int) -> bool {
    label_cmp(fold, x[x.len() - 1 - j], y[y.len() - 1 - j]) == Ordering::Equal
}
pub proof fn lemma_canon_cmp_take(fold: bool, x: Seq<Seq<u8>>, y: Seq<Seq<u8>>, k: int)
    requires 0 <= k <= x.len(), k <= y.len(),
        forall|j: int| 0 <= j < k ==> #[trigger] rl_eq(fold, x, y, j)
    ensures canon_cmp(fold, x, y) == canon_cmp(fold, x.take(x.len() - k), y.take(y.len() - k))
    decreases k
{
    if k > 0 {
        assert(x.drop_last().take(x.len() - k) =~= x.take(x.len() - k));
        assert(y.drop_last().take(y.len() - k) =~= y.take(y.len() - k));
        assert(rl_eq(fold, x, y, 0));
        assert forall|j: int| 0 <= j < k - 1 implies #[trigger] rl_eq(fold, x.drop_last(), y.drop_last(), j) by {
            assert(rl_eq(fold, x, y, j + 1));
        }
        lemma_canon_cmp_take(fold, x.drop_last(), y.drop_last(), k - 1);
    } else {
        assert(x.take(x.len() as int) =~= x);
        assert(y.take(y.len() as int) =~= y);
    }
}

// ---- order laws of the spec (C04: "a total order consistent with equality") ----
pub open spec fn rev_ord(o: Ordering) -> Ordering {
    match o { Ordering::Less => Ordering::Greater, Ordering::Greater => Ordering::Less, Ordering::Equal => Ordering::Equal }
}
pub open spec fn label_eq(fold: bool, a: Seq<u8>, b: Seq<u8>) -> bool {
    a.len() == b.len() && forall|t: int| 0 <= t < a.len() ==> key(fold, a[t]) == key(fold, b[t])
}
pub open spec fn labels_eq(fold: bool, x: Seq<Seq<u8>>, y: Seq<Seq<u8>>) -> bool {
    x.len() == y.len() && forall|i: int| 0 <= i < x.len() ==> label_eq(fold, #[trigger] x[i], y[i])
}
pub proof fn lemma_label_cmp_antisym(fold: bool, a: Seq<u8>, b: Seq<u8>)
    ensures label_cmp(fold, b, a) == rev_ord(label_cmp(fold, a, b))
    decreases a.len()
{
    if a.len() == 0 || b.len() == 0 {} else if key(fold, a[0]) != key(fold, b[0]) {} else {
        lemma_label_cmp_antisym(fold, a.drop_first(), b.drop_first());
    }
}
pub proof fn lemma_label_cmp_equal(fold: bool, a: Seq<u8>, b: Seq<u8>)
    ensures (label_cmp(fold, a, b) == Ordering::Equal) <==> label_eq(fold, a, b)
    decreases a.len()
{
    if a.len() == 0 || b.len() == 0 {} else if key(fold, a[0]) != key(fold, b[0]) {} else {
        lemma_label_cmp_equal(fold, a.drop_first(), b.drop_first());
        if label_eq(fold, a.drop_first(), b.drop_first()) {
            assert forall|t: int| 0 <= t < a.len() implies key(fold, a[t]) == key(fold, b[t]) by {
                if t > 0 { assert(a.drop_first()[t - 1] == a[t]); assert(b.drop_first()[t - 1] == b[t]); }
            }
        }
        if label_eq(fold, a, b) {
            assert forall|t: int| 0 <= t < a.drop_first().len() implies key(fold, a.drop_first()[t]) == key(fold, b.drop_first()[t]) by {
                assert(a.drop_first()[t] == a[t + 1]); assert(b.drop_first()[t] == b[t + 1]);
            }
        }
    }
}
pub proof fn lemma_label_cmp_trans(fold: bool, a: Seq<u8>, b: Seq<u8>, c: Seq<u8>)
    requires label_cmp(fold, a, b) != Ordering::Greater, label_cmp(fold, b, c) != Ordering::Greater
    ensures label_cmp(fold, a, c) != Ordering::Greater,
        (label_cmp(fold, a, b) == Ordering::Less || label_cmp(fold, b, c) == Ordering::Less) ==> label_cmp(fold, a, c) == Ordering::Less
    decreases a.len()
{
    if a.len() == 0 || b.len() == 0 || c.len() == 0 {
    } else if key(fold, a[0]) != key(fold, b[0]) || key(fold, b[0]) != key(fold, c[0]) {
    } else {
        lemma_label_cmp_trans(fold, a.drop_first(), b.drop_first(), c.drop_first());
    }
}
pub proof fn lemma_canon_cmp_antisym(fold: bool, x: Seq<Seq<u8>>, y: Seq<Seq<u8>>)
    ensures canon_cmp(fold, y, x) == rev_ord(canon_cmp(fold, x, y))
    decreases x.len()
{
    if x.len() == 0 || y.len() == 0 {} else {
        lemma_label_cmp_antisym(fold, x.last(), y.last());
        if label_cmp(fold, x.last(), y.last()) == Ordering::Equal { lemma_canon_cmp_antisym(fold, x.drop_last(), y.drop_last()); }
    }
}
pub proof fn lemma_canon_cmp_equal(fold: bool, x: Seq<Seq<u8>>, y: Seq<Seq<u8>>)
    ensures (canon_cmp(fold, x, y) == Ordering::Equal) <==> labels_eq(fold, x, y)
    decreases x.len()
{
    if x.len() == 0 || y.len() == 0 {} else {
        lemma_label_cmp_equal(fold, x.last(), y.last());
        lemma_canon_cmp_equal(fold, x.drop_last(), y.drop_last());
        if labels_eq(fold, x.drop_last(), y.drop_last()) && label_eq(fold, x.last(), y.last()) {
            assert forall|i: int| 0 <= i < x.len() implies label_eq(fold, #[trigger] x[i], y[i]) by {
                if i < x.len() - 1 { assert(x.drop_last()[i] == x[i]); assert(y.drop_last()[i] == y[i]); }
            }
        }
        if labels_eq(fold, x, y) {
            assert(label_eq(fold, x[x.len() - 1], y[x.len() - 1]));
            assert forall|i: int| 0 <= i < x.drop_last().len() implies label_eq(fold, #[trigger] x.drop_last()[i], y.drop_last()[i]) by {
                assert(x.drop_last()[i] == x[i]); assert(y.drop_last()[i] == y[i]);
                assert(label_eq(fold, x[i], y[i]));
            }
        }
    }
}
pub proof fn lemma_canon_cmp_trans(fold: bool, x: Seq<Seq<u8>>, y: Seq<Seq<u8>>, z: Seq<Seq<u8>>)
    requires canon_cmp(fold, x, y) != Ordering::Greater, canon_cmp(fold, y, z) != Ordering::Greater
    ensures canon_cmp(fold, x, z) != Ordering::Greater,
        (canon_cmp(fold, x, y) == Ordering::Less || canon_cmp(fold, y, z) == Ordering::Less) ==> canon_cmp(fold, x, z) == Ordering::Less
    decreases x.len()
{
    if x.len() == 0 || y.len() == 0 || z.len() == 0 {
    } else {
        let (a, b, c) = (x.last(), y.last(), z.last());
        lemma_label_cmp_trans(fold, a, b, c);
        if label_cmp(fold, a, b) == Ordering::Equal && label_cmp(fold, b, c) == Ordering::Equal {
            lemma_label_cmp_equal(fold, a, b); lemma_label_cmp_equal(fold, b, c); lemma_label_cmp_equal(fold, a, c);
            lemma_canon_cmp_trans(fold, x.drop_last(), y.drop_last(), z.drop_last());
        }
    }
}
// the order Name::cmp / Name::eq are specified against: the fqdn flag first (a hickory extension:
// relative < absolute), then RFC 4034 canonical order of the labels
pub open spec fn name_cmp(fold: bool, a: Name, b: Name) -> Ordering {
    if !a.is_fqdn && b.is_fqdn { Ordering::Less }
    else if a.is_fqdn && !b.is_fqdn { Ordering::Greater }
    else { canon_cmp(fold, a.labels(), b.labels()) }
}
// "equality ... ignores ASCII case and nothing else": same fqdn flag, same number of labels, each
// label the same length with octets equal after folding A-Z to a-z
pub open spec fn name_eq(a: Name, b: Name) -> bool {
    a.is_fqdn == b.is_fqdn && labels_eq(true, a.labels(), b.labels())
}
pub proof fn lemma_name_order_laws(a: Name, b: Name, c: Name)
    ensures
        name_cmp(true, a, a) == Ordering::Equal,                                   // reflexive
        name_cmp(true, b, a) == rev_ord(name_cmp(true, a, b)),                     // antisymmetric / total
        (name_cmp(true, a, b) == Ordering::Equal) <==> name_eq(a, b),              // consistent with equality
        name_cmp(true, a, b) != Ordering::Greater && name_cmp(true, b, c) != Ordering::Greater
            ==> name_cmp(true, a, c) != Ordering::Greater,                         // transitive
{
    lemma_canon_cmp_equal(true, a.labels(), a.labels());
    assert(labels_eq(true, a.labels(), a.labels()));
    lemma_canon_cmp_antisym(true, a.labels(), b.labels());
    lemma_canon_cmp_equal(true, a.labels(), b.labels());
    if name_cmp(true, a, b) != Ordering::Greater && name_cmp(true, b, c) != Ordering::Greater {
        if a.is_fqdn == b.is_fqdn && b.is_fqdn == c.is_fqdn {
            lemma_canon_cmp_trans(true, a.labels(), b.labels(), c.labels());
        }
    }
}

impl Name {
//%fn crates/proto/src/rr/domain/name.rs :: impl Name :: cmp_labels
//%contract
        requires self.wf(), other.wf()
        // C04: "ordering is ... equal to RFC 4034 section 6.1 canonical order"
        ensures r == canon_cmp(F::folds(), self.labels(), other.labels())
//%entry
        let ghost fold = F::folds();
        let ghost xs = self.labels();
        let ghost ys = other.labels();
        proof {
            reveal(Name::labels);
            assert forall|i: int| label_slice(self, i)@ == self.label(i) by { lemma_label_slice_view(self, i); }
            assert forall|i: int| label_slice(other, i)@ == other.label(i) by { lemma_label_slice_view(other, i); }
        }
//%after "for (l, r) in"
            vp_it:
//%after "for (l, r) in self.iter().rev().zip(other.iter().rev())"
            invariant
                fold == F::folds(), xs == self.labels(), ys == other.labels(),
                0 <= vp_it.index@ <= xs.len(), vp_it.index@ <= ys.len(),
                forall|j: int| 0 <= j < vp_it.index@ ==> #[trigger] rl_eq(fold, xs, ys, j),
                vp_it.snapshot@.remaining().len() == (if xs.len() < ys.len() { xs.len() } else { ys.len() }),
                forall|j: int| 0 <= j < vp_it.snapshot@.remaining().len() ==>
                    (#[trigger] vp_it.snapshot@.remaining()[j]).0@ == xs[xs.len() - 1 - j] && vp_it.snapshot@.remaining()[j].1@ == ys[ys.len() - 1 - j],
//%after "for (l, r) in self.iter().rev().zip(other.iter().rev()) {"
            let ghost k = vp_it.index@;
            assert(vp_it.snapshot@.remaining()[k] == (l, r));
            assert(l@ == xs[xs.len() - 1 - k]);
            assert(r@ == ys[ys.len() - 1 - k]);
//%sub1 "(&a, &b)" => "(vp_a, vp_b)" # R-ref: ref patterns in `for` are not supported by Verus; bound as references and dereferenced on the next line (u8 is Copy)
//%after "for (&a, &b) in"
                vp_it2:
//%after "for (&a, &b) in l.iter().zip(r.iter())"
                invariant
                    fold == F::folds(), xs == self.labels(), ys == other.labels(),
                    0 <= k < xs.len(), k < ys.len(), l@ == xs[xs.len() - 1 - k], r@ == ys[ys.len() - 1 - k],
                    forall|j: int| 0 <= j < k ==> #[trigger] rl_eq(fold, xs, ys, j),
                    0 <= vp_it2.index@ <= l@.len(), vp_it2.index@ <= r@.len(),
                    forall|t: int| 0 <= t < vp_it2.index@ ==> key(fold, l@[t]) == key(fold, r@[t]),
//%after "for (&a, &b) in l.iter().zip(r.iter()) {"
                let a = *vp_a; let b = *vp_b;
                let ghost i = vp_it2.index@;
                assert(a == l@[i] && b == r@[i]);
                proof {
                    lemma_label_cmp_skip(fold, l@, r@, i);
                    lemma_canon_cmp_take(fold, xs, ys, k);
                    assert(xs.take(xs.len() - k).last() == l@);
                    assert(ys.take(ys.len() - k).last() == r@);
                }
//%before "match l.len().cmp(&r.len())"
            proof {
                let i = if l@.len() < r@.len() { l@.len() as int } else { r@.len() as int };
                lemma_label_cmp_skip(fold, l@, r@, i);
                lemma_canon_cmp_take(fold, xs, ys, k);
                assert(xs.take(xs.len() - k).last() == l@);
                assert(ys.take(ys.len() - k).last() == r@);
            }
//%before "self.label_ends.len().cmp(&other.label_ends.len())"
        proof {
            let k = if xs.len() < ys.len() { xs.len() as int } else { ys.len() as int };
            lemma_canon_cmp_take(fold, xs, ys, k);
        }
//%mutant no_length_tiebreak "match l.len().cmp(&r.len()) { Ordering::Equal => {} ord => return ord, }" => ""
//%mutant left_to_right "self.iter().rev().zip(other.iter().rev())" => "self.iter().zip(other.iter())"
//%mutant label_count_swapped "self.label_ends.len().cmp(&other.label_ends.len())" => "other.label_ends.len().cmp(&self.label_ends.len())"
//%end

//%fn crates/proto/src/rr/domain/name.rs :: impl Name :: num_labels
//%contract
        requires self.wf()
        // RFC 4034 3.1.3: the Labels count excludes a leading "*" label (and the root)
        ensures r as int == (if self.nlabels() > 0 && self.label(0) =~= seq![42u8] { self.nlabels() - 1 } else { self.nlabels() }),
//%entry
        proof { lemma_label_slice_view(self, 0); }
//%closure "|l|"
|l: &[u8]| -> (o: u8) requires num >= 1 ensures o == (if l@ =~= seq![42u8] { (num - 1) as u8 } else { num })
//%sub1 "l == b\"*\"" => "vp_is_star(l)" # R-shim: comparison of a slice with a byte-string literal
//%mutant star_not_discounted "num - 1" => "num"
//%end

//%fn crates/proto/src/rr/domain/name.rs :: impl Name :: cmp_with_f
//%contract
        requires self.wf(), other.wf()
        ensures r == name_cmp(F::folds(), *self, *other)
//%mutant fqdn_flipped "(false, true) => Ordering::Less" => "(false, true) => Ordering::Greater"
//%end

//%fn crates/proto/src/rr/domain/name.rs :: impl PartialEq<Self> for Name :: eq
//%rename vp_eq
//%contract
        requires self.wf(), other.wf()
        // C04: equality ignores ASCII case and nothing else
        ensures r == name_eq(*self, *other)
//%entry
        proof { lemma_canon_cmp_equal(true, self.labels(), other.labels()); }
//%end

//%fn crates/proto/src/rr/domain/name.rs :: impl Ord for Name :: cmp
//%rename vp_cmp
//%contract
        requires self.wf(), other.wf()
        // C04: Ord is the canonical order (case folded)
        ensures r == name_cmp(true, *self, *other)
//%end

//%fn crates/proto/src/rr/domain/name.rs :: impl Name :: cmp_case
//%contract
        requires self.wf(), other.wf()
        ensures r == name_cmp(false, *self, *other)
//%end

//%fn crates/proto/src/rr/domain/name.rs :: impl Name :: eq_case
//%contract
        requires self.wf(), other.wf()
        ensures r == (name_cmp(false, *self, *other) == Ordering::Equal)
//%end

//%fn crates/proto/src/rr/domain/name.rs :: impl Name :: eq_ignore_root
//%contract
        requires self.wf(), other.wf()
        ensures r == labels_eq(true, self.labels(), other.labels())
//%entry
        proof { lemma_canon_cmp_equal(true, self.labels(), other.labels()); }
//%end
}

// ---- Hash for Name (name.rs). C04: "Name equality and hashing ignore ASCII case and nothing else": what is fed to the
//      hasher is a function of (is_fqdn, the labels' octets folded to lower case), so names that are equal hash equal.
//      core::hash::Hasher gives no guarantee that write(&[a, b]) and write_u8(a); write_u8(b) hash alike, so the hasher is
//      modelled by the LOG of calls it received (one event per call), not by a byte stream. ----
pub enum HEv { Bool(bool), U8(u8), Bytes(Seq<u8>) }
pub struct VpHasher { pub log: Ghost<Seq<HEv>> }
impl VpHasher {
    pub fn write_u8(&mut self, b: u8) ensures final(self).log@ == old(self).log@.push(HEv::U8(b)) { self.log = Ghost(self.log@.push(HEv::U8(b))); }
    pub fn write(&mut self, bytes: &[u8]) ensures final(self).log@ == old(self).log@.push(HEv::Bytes(bytes@)) { self.log = Ghost(self.log@.push(HEv::Bytes(bytes@))); }
}
// <bool as Hash>::hash: one call on the hasher carrying the flag
pub fn vp_bool_hash(b: &bool, state: &mut VpHasher) ensures final(state).log@ == old(state).log@.push(HEv::Bool(*b)) { state.log = Ghost(state.log@.push(HEv::Bool(*b))); }
pub open spec fn ev_lower(l: Seq<u8>) -> Seq<HEv> { Seq::new(l.len(), |i: int| HEv::U8(lower(l[i]))) }
pub open spec fn flat_lower(ls: Seq<Seq<u8>>) -> Seq<HEv>
    decreases ls.len()
{ if ls.len() == 0 { Seq::empty() } else { flat_lower(ls.drop_last()) + ev_lower(ls.last()) } }
pub open spec fn hash_feed(n: Name) -> Seq<HEv> { seq![HEv::Bool(n.is_fqdn)] + flat_lower(n.labels()) }
pub proof fn lemma_flat_lower_push(ls: Seq<Seq<u8>>, l: Seq<u8>)
    ensures flat_lower(ls.push(l)) == flat_lower(ls) + ev_lower(l)
{ assert(ls.push(l).drop_last() =~= ls); }
// names that are equal (8-bit clean except for the ASCII case of letters) feed the hasher the same calls
pub proof fn lemma_flat_lower_eq(x: Seq<Seq<u8>>, y: Seq<Seq<u8>>)
    requires labels_eq(true, x, y)
    ensures flat_lower(x) == flat_lower(y)
    decreases x.len()
{
    if x.len() > 0 {
        assert(labels_eq(true, x.drop_last(), y.drop_last())) by {
            assert forall|i: int| 0 <= i < x.drop_last().len() implies label_eq(true, #[trigger] x.drop_last()[i], y.drop_last()[i]) by {
                assert(label_eq(true, x[i], y[i]));
            }
        }
        lemma_flat_lower_eq(x.drop_last(), y.drop_last());
        assert(label_eq(true, x[x.len() - 1], y[y.len() - 1]));
        assert(ev_lower(x.last()) =~= ev_lower(y.last()));
    }
}
pub proof fn lemma_hash_consistent_with_eq(a: Name, b: Name)
    requires name_eq(a, b)
    ensures hash_feed(a) == hash_feed(b)
{ lemma_flat_lower_eq(a.labels(), b.labels()); }
pub proof fn lemma_labels_prefix_push(n: &Name, k: int)
    requires 0 <= k < n.nlabels()
    ensures n.labels().subrange(0, k + 1) == n.labels().subrange(0, k).push(n.label(k)), n.labels().len() == n.nlabels(),
        n.labels().subrange(0, 0) == Seq::<Seq<u8>>::empty(), n.labels().subrange(0, n.nlabels()) == n.labels(),
{
    reveal(Name::labels);
    assert(n.labels().subrange(0, k + 1) =~= n.labels().subrange(0, k).push(n.label(k)));
    assert(n.labels().subrange(0, 0) =~= Seq::<Seq<u8>>::empty());
    assert(n.labels().subrange(0, n.nlabels()) =~= n.labels());
}
impl Name {
//%fn crates/proto/src/rr/domain/name.rs :: impl Hash for Name :: hash
//%rename vp_hash
//%sub1 "<H: Hasher>" => "" # R-mono: the generic hasher is the call-log model
//%sub1 "&mut H" => "&mut VpHasher" # R-mono
//%sub1 "self.is_fqdn.hash(state);" => "vp_bool_hash(&self.is_fqdn, state);" # R-shim: <bool as Hash>::hash
//%mutant hash_is_case_sensitive "b.to_ascii_lowercase()" => "b"
//%sub1 "self.iter() .flatten() .for_each(|&b|" => "for vp_label in vp_o: self.iter() invariant self.wf(), vp_o.snapshot@.remaining().len() == self.nlabels(), 0 <= vp_o.index@ <= self.nlabels(), (forall|j: int| 0 <= j < self.nlabels() ==> (#[trigger] vp_o.snapshot@.remaining()[j])@ == self.label(j)), state.log@ == vp_log0 + seq![HEv::Bool(self.is_fqdn)] + flat_lower(self.labels().subrange(0, vp_o.index@ as int)) { let ghost vp_log1 = state.log@; let ghost vp_k = vp_o.index@ as int; proof { assert(vp_label@ == self.label(vp_k)); } for vp_b in vp_i: vp_label.iter() invariant vp_i.snapshot@.remaining().len() == vp_label@.len(), 0 <= vp_i.index@ <= vp_label@.len(), (forall|j: int| 0 <= j < vp_label@.len() ==> *(#[trigger] vp_i.snapshot@.remaining()[j]) == vp_label@[j]), state.log@ =~= vp_log1 + ev_lower(vp_label@.subrange(0, vp_i.index@ as int)) { let b = *vp_b; let ghost vp_j = vp_i.index@ as int; let ghost vp_log2 = state.log@; (" # R-iter: `X.iter().flatten().for_each(|&b| BODY)` -> the two nested loops it denotes (labels, then octets), BODY verbatim; R-ann: loop invariants
//%sub1 "));" => ")); proof { assert(ev_lower(vp_label@.subrange(0, vp_j + 1)) =~= ev_lower(vp_label@.subrange(0, vp_j)).push(HEv::U8(lower(b)))); } } proof { assert(vp_label@.subrange(0, vp_label@.len() as int) =~= vp_label@); lemma_labels_prefix_push(self, vp_k); lemma_flat_lower_push(self.labels().subrange(0, vp_k), self.label(vp_k)); assert(state.log@ =~= vp_log0 + seq![HEv::Bool(self.is_fqdn)] + flat_lower(self.labels().subrange(0, vp_k + 1))); } } proof { reveal(Name::labels); assert(self.labels().subrange(0, self.nlabels()) =~= self.labels()); assert(state.log@ =~= vp_log0 + hash_feed(*self)); }" # R-iter (same rewrite): closes the closure call, the two loop bodies; R-ann: ghost steps
//%after "self.is_fqdn.hash(state);"
        proof { assert(state.log@ =~= vp_log0 + seq![HEv::Bool(self.is_fqdn)] + flat_lower(self.labels().subrange(0, 0))); }
//%entry
        let ghost vp_log0 = state.log@;
        proof {
            lemma_label_slices(self);
            if self.nlabels() > 0 { lemma_labels_prefix_push(self, 0); } else { reveal(Name::labels); assert(self.labels().subrange(0, 0) =~= Seq::<Seq<u8>>::empty()); }
        }
//%contract
        requires self.wf()
        ensures final(state).log@ == old(state).log@ + hash_feed(*self)
//%end
}
pub proof fn lemma_label_slices(n: &Name)
    ensures forall|i: int| label_slice(n, i)@ == n.label(i)
{
    assert forall|i: int| label_slice(n, i)@ == n.label(i) by { lemma_label_slice_view(n, i); }
}
} // verus!
fn main() {}
