//%unit name_read
//%features std
use vstd::prelude::*;
verus! {
//%include ../common/decoder.rs
//%include ../common/name.rs

//%enum crates/proto/src/rr/domain/name.rs :: LabelParseState
//%end

//%fn crates/proto/src/rr/domain/name.rs :: impl<'r> BinDecodable<'r> for Name :: read
//%rename name_read<'r>
//%sub1 "Self::default()" => "Name::vp_default()" # R-shim: derived Default -> verified model vp_default
//%sub1 "Result<Self, DecodeError>" => "Result<Name, DecodeError>" # R-sel: trait-impl method pulled out as a free fn
//%contract
    requires old(decoder).wf()
    ensures final(decoder).wf(), final(decoder).buf() == old(decoder).buf(), final(decoder).idx() >= old(decoder).idx(),
        match r { Ok(n) => n.wf() && n.labels_bounded() && n.is_fqdn && final(decoder).idx() > old(decoder).idx(), Err(_) => true }
//%end

//%fn crates/proto/src/rr/domain/name.rs :: fn read_inner
//%attr #[verifier::loop_isolation(false)]
//%contract
    requires old(decoder).wf(), old(name).wf(), old(name).labels_bounded()
    ensures final(name).wf(), final(name).labels_bounded(),
        final(decoder).wf(), final(decoder).buf() == old(decoder).buf(), final(decoder).idx() >= old(decoder).idx(),
        r is Ok ==> final(name).is_fqdn && final(decoder).idx() > old(decoder).idx(),
//%before "loop"
    let ghost outer_buf = decoder.buf();
    let ghost outer_idx0 = decoder.idx();
    let ghost outer_fin = *final(decoder);
    let ghost mut chased = false;
    // linear-time argument: `steps` counts loop iterations; the potential
    //   2*(lim - idx + name_start) + rank(state)   (lim = overlap limit, or the packet length before any pointer)
    // drops by >= 1 per iteration, starting from 2*|packet| + 1
    let ghost mut steps = 0int;
//%after "loop"
        invariant
            decoder.wf(), name.wf(), name.labels_bounded(),
            decoder.buf() == outer_buf,
            name_start <= decoder.buf().len(),
            !chased ==> decoder.idx() >= outer_idx0 && *final(decoder) == outer_fin,
            chased ==> outer_fin.wf() && outer_fin.buf() == outer_buf && outer_fin.idx() > outer_idx0,
            state is Root ==> name.is_fqdn && decoder.idx() < decoder.buf().len(),
            state is Pointer ==> decoder.idx() < decoder.buf().len(),
            ptr_max_idx matches Some(m) ==> name_start < m <= decoder.buf().len() && chased,
            ptr_max_idx is None ==> !chased,
            decoder.idx() <= (match ptr_max_idx { Some(m) => m as int, None => decoder.buf().len() as int }) + 64,
            0 <= steps,
            steps + 2 * ((match ptr_max_idx { Some(m) => m as int, None => decoder.buf().len() as int }) - decoder.idx() + name_start)
                  + (if state is LabelLengthOrPointer { 1int } else { 0int }) <= 2 * decoder.buf().len() + 1,
            steps <= 2 * decoder.buf().len() + 130,
            state is Label ==> decoder.idx() < decoder.buf().len() && decoder.buf()[decoder.idx()] != 0,
        decreases name_start, decoder.buf().len() - decoder.idx(), (if state is LabelLengthOrPointer { 1int } else { 0int }),
//%before "if let Some(max_idx) = ptr_max_idx"
        proof { steps = steps + 1; }
//%closure "|l|"@1
|l: &&[u8]| -> (b: bool) ensures b ==> l@.len() <= 63
//%closure "|l|"@2
|l: &[u8]| -> (e: DecodeError)
//%closure "|_|"
|_vp0: DecodeError| -> (e: DecodeError)
//%before "name.extend_name(label)"
                let ghost name_before = *name;
//%before "LabelParseState::LabelLengthOrPointer }"@1
                proof {
                    lemma_extend_labels(name_before, *name, label@);
                }
//%before "ptr_max_idx = Some(name_start);"
                proof { chased = true; }
//%closure "|u|"
|u: u16| -> (o: u16) ensures o == u & 0x3FFF
//%closure "|ptr|"
|ptr: &u16| -> (b: bool) ensures b ==> (*ptr as usize) < name_start
//%closure "|e|"
|e: u16| -> (e2: DecodeError)
//%mutant ptr_le "(*ptr as usize) < name_start" => "(*ptr as usize) <= name_start"
//%mutant label_64 "l.len() <= 63" => "l.len() <= 64"
//%mutant no_overlap_guard "decoder.index() >= max_idx" => "false && decoder.index() >= max_idx"
//%mutant no_root_pop "decoder.pop()?;" => ""
//%end
} // verus!
fn main() {}
