//%unit name_read
//%features std
use vstd::prelude::*;
verus! {
//%include ../common/decoder.rs
//%include ../common/name.rs

//%enum crates/proto/src/rr/domain/name.rs :: LabelParseState
//%end

// ---- what a name on the wire DENOTES (RFC 1035 3.1 and 4.1.4), written from the RFC, not from the code ----
// The label sequence denoted by the octets at idx: a length octet 1..63 and that many octets is a label, 0 ends
// the name, 11xxxxxx + one octet is a pointer to where the rest of the name is. `start` is where the (part of
// the) name being read began: a pointer must point strictly before it ("a prior occurrence"); `lim` is where the
// name that pointed here began: labels reached through a pointer must end before it (the |packet| before any
// pointer). Anything else -- 10/01 length codes, a truncated label, a forward pointer -- denotes no name.
#[verifier::opaque]
pub open spec fn dec(buf: Seq<u8>, idx: int, start: int, lim: int) -> Option<Seq<Seq<u8>>>
    decreases start, buf.len() - idx
{
    if !(0 <= idx < buf.len()) || idx >= lim || start < 0 { None }
    else {
        let b = buf[idx] as int;
        if b == 0 { Some(Seq::empty()) }
        else if b >= 0xC0 {
            if idx + 2 > buf.len() { None } else {
                let p = (b - 0xC0) * 256 + buf[idx + 1] as int;
                if p < start { dec(buf, p, p, start) } else { None }
            }
        } else if b < 0x40 {
            if idx + 1 + b > buf.len() { None } else {
                match dec(buf, idx + 1 + b, start, lim) {
                    Some(rest) => Some(seq![buf.subrange(idx + 1, idx + 1 + b)] + rest),
                    None => None,
                }
            }
        } else { None }
    }
}
// where the field ends in the message: after the zero octet or after the first pointer
#[verifier::opaque]
pub open spec fn dec_end(buf: Seq<u8>, idx: int) -> int
    decreases buf.len() - idx
{
    if !(0 <= idx < buf.len()) { idx }
    else {
        let b = buf[idx] as int;
        if b == 0 { idx + 1 } else if b >= 0xC0 { idx + 2 }
        else if b < 0x40 { if idx + 1 + b > buf.len() { idx } else { dec_end(buf, idx + 1 + b) } }
        else { idx }
    }
}
// one unfolding of the two definitions (they are opaque so that the solver never unfolds them on its own)
pub proof fn lemma_dec_unfold(buf: Seq<u8>, idx: int, start: int, lim: int)
    ensures dec(buf, idx, start, lim) == (
        if !(0 <= idx < buf.len()) || idx >= lim || start < 0 { None }
        else {
            let b = buf[idx] as int;
            if b == 0 { Some(Seq::empty()) }
            else if b >= 0xC0 {
                if idx + 2 > buf.len() { None } else {
                    let p = (b - 0xC0) * 256 + buf[idx + 1] as int;
                    if p < start { dec(buf, p, p, start) } else { None }
                }
            } else if b < 0x40 {
                if idx + 1 + b > buf.len() { None } else {
                    match dec(buf, idx + 1 + b, start, lim) {
                        Some(rest) => Some(seq![buf.subrange(idx + 1, idx + 1 + b)] + rest),
                        None => None,
                    }
                }
            } else { None }
        }),
        dec_end(buf, idx) == (
        if !(0 <= idx < buf.len()) { idx }
        else {
            let b = buf[idx] as int;
            if b == 0 { idx + 1 } else if b >= 0xC0 { idx + 2 }
            else if b < 0x40 { if idx + 1 + b > buf.len() { idx } else { dec_end(buf, idx + 1 + b) } }
            else { idx }
        }),
{
    reveal_with_fuel(dec, 1);
    reveal_with_fuel(dec_end, 1);
}
pub open spec fn dec_from(acc: Seq<Seq<u8>>, d: Option<Seq<Seq<u8>>>) -> Option<Seq<Seq<u8>>> {
    match d { Some(rest) => Some(acc + rest), None => None }
}
// octets a label sequence takes on the wire, without the root octet
pub open spec fn wl(ls: Seq<Seq<u8>>) -> int
    decreases ls.len()
{ if ls.len() == 0 { 0 } else { wl(ls.drop_last()) + 1 + ls.last().len() } }
pub proof fn lemma_wl_concat(a: Seq<Seq<u8>>, b: Seq<Seq<u8>>)
    ensures wl(a + b) == wl(a) + wl(b), wl(b) >= 0
    decreases b.len()
{
    if b.len() == 0 { assert(a + b =~= a); }
    else {
        assert((a + b).drop_last() =~= a + b.drop_last());
        assert((a + b).last() == b.last());
        lemma_wl_concat(a, b.drop_last());
    }
}
pub proof fn lemma_wl_push(a: Seq<Seq<u8>>, l: Seq<u8>)
    ensures wl(a.push(l)) == wl(a) + 1 + l.len()
{ assert(a.push(l).drop_last() =~= a); }
pub open spec fn appended(n: &Name, n0: int) -> Seq<Seq<u8>> { n.labels().subrange(n0, n.labels().len() as int) }
// one label consumed: what the whole name denotes, seen from before and from after the label
pub proof fn lemma_dec_step(top: Option<Seq<Seq<u8>>>, acc: Seq<Seq<u8>>, lbl: Seq<u8>, d_after: Option<Seq<Seq<u8>>>)
    requires top == dec_from(acc, match d_after { Some(rest) => Some(seq![lbl] + rest), None => None })
    ensures top == dec_from(acc.push(lbl), d_after)
{
    if let Some(rest) = d_after { assert(acc + (seq![lbl] + rest) =~= acc.push(lbl) + rest); }
}
pub proof fn lemma_appended_push(old_n: Name, new_n: Name, n0: int, lbl: Seq<u8>)
    requires 0 <= n0 <= old_n.labels().len(), new_n.labels() == old_n.labels().push(lbl)
    ensures appended(&new_n, n0) == appended(&old_n, n0).push(lbl),
        new_n.labels().subrange(0, n0) == old_n.labels().subrange(0, n0),
{
    assert(appended(&new_n, n0) =~= appended(&old_n, n0).push(lbl));
    assert(new_n.labels().subrange(0, n0) =~= old_n.labels().subrange(0, n0));
}
pub proof fn lemma_ptr_bits(u: u16, hi: u8, lo: u8)
    requires u as int == be16(hi, lo), hi >= 0xC0
    ensures (u & 0x3FFF) as int == (hi as int - 0xC0) * 256 + lo as int
{
    assert(u >= 0xC000);
    assert(u & 0x3FFF == u - 0xC000) by (bit_vector) requires u >= 0xC000;
}
pub proof fn lemma_len_bits(b: u8)
    ensures (b & 0b1100_0000 == 0b1100_0000) == (b >= 0xC0), (b & 0b1100_0000 == 0b0000_0000) == (b < 0x40)
{
    assert((b & 0b1100_0000 == 0b1100_0000) == (b >= 0xC0)) by (bit_vector);
    assert((b & 0b1100_0000 == 0b0000_0000) == (b < 0x40)) by (bit_vector);
}

// ---- C02/C04, decoder half of the wire round trip: the uncompressed wire form of n denotes n's labels ----
pub proof fn lemma_labels_cons(n: &Name, k: int)
    requires 0 <= k <= n.nlabels()
    ensures n.labels().len() == n.nlabels(),
        k == n.nlabels() ==> n.labels().subrange(k, n.nlabels()) == Seq::<Seq<u8>>::empty(),
        k < n.nlabels() ==> seq![n.label(k)] + n.labels().subrange(k + 1, n.nlabels()) == n.labels().subrange(k, n.nlabels()),
{
    reveal(Name::labels);
    if k == n.nlabels() { assert(n.labels().subrange(k, n.nlabels()) =~= Seq::<Seq<u8>>::empty()); }
    else { assert(seq![n.label(k)] + n.labels().subrange(k + 1, n.nlabels()) =~= n.labels().subrange(k, n.nlabels())); }
}
// the facts wire_at gives about label k, in arithmetic form
pub proof fn lemma_wire_label_facts(n: &Name, buf: Seq<u8>, off: int, k: int)
    requires n.wf(), n.labels_bounded(), n.wire_at(buf, off), 0 <= k < n.nlabels()
    ensures ({
        let p = off + k + n.lstart(k);
        let l = n.lend(k) - n.lstart(k);
        &&& 0 <= p && 1 <= l <= 63 && p + 1 + l < buf.len()
        &&& buf[p] as int == l && buf.subrange(p + 1, p + 1 + l) == n.label(k)
        &&& p + 1 + l == off + (k + 1) + n.lstart(k + 1)
    })
{
    reveal(Name::wire_label_ok);
    assert(n.wire_label_ok(buf, off, k));
    assert(1 <= n.label_ends@[k] as int - n.lstart(k) <= 63);
    assert(n.lstart(k) <= n.label_ends@[k] as int <= n.label_data@.len());
    assert(n.lstart(k + 1) == n.lend(k));
    if k + 1 < n.nlabels() { lemma_lstart_le(n, k + 1); } else { assert(n.lend(k) == n.label_data@.len()); }
}
pub proof fn lemma_wire_dec(n: &Name, buf: Seq<u8>, off: int, k: int, start: int)
    requires n.wf(), n.labels_bounded(), n.wire_at(buf, off), 0 <= k <= n.nlabels(), 0 <= start
    ensures dec(buf, off + k + n.lstart(k), start, buf.len() as int) == Some(n.labels().subrange(k, n.nlabels())),
        dec_end(buf, off + k + n.lstart(k)) == off + n.enc_len(),
    decreases n.nlabels() - k
{
    let nl = n.nlabels();
    let p = off + k + n.lstart(k);
    lemma_dec_unfold(buf, p, start, buf.len() as int);
    lemma_labels_cons(n, k);
    if k == nl {
        if nl > 0 { assert(n.lstart(nl) == n.label_data@.len()); }
        assert(p == off + nl + n.label_data@.len());
        assert(buf[p] == 0);
    } else {
        lemma_wire_label_facts(n, buf, off, k);
        lemma_wire_dec(n, buf, off, k + 1, start);
        let l = n.lend(k) - n.lstart(k);
        let rest = n.labels().subrange(k + 1, nl);
        assert(dec(buf, p + 1 + l, start, buf.len() as int) == Some(rest));
        assert(dec(buf, p, start, buf.len() as int) == Some(seq![n.label(k)] + rest));
        assert(dec_end(buf, p) == dec_end(buf, p + 1 + l));
    }
}
pub proof fn lemma_lstart_le(n: &Name, k: int)
    requires n.wf(), 0 <= k < n.nlabels()
    ensures k + n.lstart(k) < n.nlabels() + n.label_data@.len()
    decreases n.nlabels() - k
{
    assert(n.lstart(k) <= n.label_ends@[k] as int <= n.label_data@.len());
    if k + 1 < n.nlabels() { lemma_lstart_le(n, k + 1); assert(n.lstart(k + 1) == n.label_ends@[k] as int); }
}
pub proof fn lemma_wl_labels(n: &Name, k: int)
    requires n.wf(), 0 <= k <= n.nlabels()
    ensures wl(n.labels().subrange(0, k)) == k + n.lstart(k)
    decreases k
{
    reveal(Name::labels);
    if k > 0 {
        lemma_wl_labels(n, k - 1);
        assert(n.labels().subrange(0, k).drop_last() =~= n.labels().subrange(0, k - 1));
        assert(n.lstart(k - 1) <= n.label_ends@[k - 1] as int <= n.label_data@.len());
    }
}
// THE ROUND TRIP (uncompressed): wherever the wire form of a name of 1..63-octet labels lies in a packet, it
// denotes exactly that name's labels (octets unchanged, so letter case is kept), it fits the 255-octet limit, and
// the field ends right after its root octet. With read_inner's contract below: Name::read returns Ok with
// these labels and leaves the decoder at off + enc_len.
pub proof fn lemma_wire_roundtrip(n: &Name, buf: Seq<u8>, off: int)
    requires n.wf(), n.labels_bounded(), n.wire_at(buf, off)
    ensures dec(buf, off, off, buf.len() as int) == Some(n.labels()),
        dec_end(buf, off) == off + n.enc_len(),
        1 + wl(n.labels()) == n.enc_len() <= 255,
{
    reveal(Name::labels);
    lemma_wire_dec(n, buf, off, 0, off);
    assert(n.labels().subrange(0, n.nlabels()) =~= n.labels());
    lemma_wl_labels(n, n.nlabels());
    if n.nlabels() > 0 { assert(n.lstart(n.nlabels()) == n.label_data@.len()); }
}

//%fn crates/proto/src/rr/domain/name.rs :: impl<'r> BinDecodable<'r> for Name :: read
//%rename name_read<'r>
//%sub1 "Self::default()" => "Name::vp_default()" # R-shim: derived Default -> verified model vp_default
//%sub1 "Result<Self, DecodeError>" => "Result<Name, DecodeError>" # R-sel: trait-impl method pulled out as a free fn
//%contract
    requires old(decoder).wf()
    ensures final(decoder).wf(), final(decoder).buf() == old(decoder).buf(), final(decoder).idx() >= old(decoder).idx(),
        match r { Ok(n) => n.wf() && n.labels_bounded() && n.is_fqdn && final(decoder).idx() > old(decoder).idx(), Err(_) => true },
        // C02/C04: Name::read returns exactly the labels the octets denote (RFC 1035 3.1/4.1.4) and stops where the field ends;
        // it fails only where the octets denote no name, or a name longer than 255 octets
        match r {
            Ok(n) => dec(old(decoder).buf(), old(decoder).idx(), old(decoder).idx(), old(decoder).buf().len() as int) == Some(n.labels())
                  && final(decoder).idx() == dec_end(old(decoder).buf(), old(decoder).idx()),
            Err(_) => match dec(old(decoder).buf(), old(decoder).idx(), old(decoder).idx(), old(decoder).buf().len() as int) {
                  Some(ls) => 1 + wl(ls) > 255, None => true },
        }
//%before "Ok(name)"
    proof {
        reveal(Name::labels);
        assert(appended(&name, 0) =~= name.labels());
    }
//%end

//%fn crates/proto/src/rr/domain/name.rs :: fn read_inner
//%attr #[verifier::loop_isolation(false)]
//%attr #[verifier::rlimit(60)]
//%attr #[verifier::spinoff_prover]
//%contract
    requires old(decoder).wf(), old(name).wf(), old(name).labels_bounded()
    ensures final(name).wf(), final(name).labels_bounded(),
        final(decoder).wf(), final(decoder).buf() == old(decoder).buf(), final(decoder).idx() >= old(decoder).idx(),
        r is Ok ==> final(name).is_fqdn && final(decoder).idx() > old(decoder).idx(),
        final(name).nlabels() >= old(name).nlabels(),
        final(name).labels().subrange(0, old(name).nlabels()) == old(name).labels(),
        match r {
            Ok(_) => dec(old(decoder).buf(), old(decoder).idx(), old(decoder).idx(), old(decoder).buf().len() as int) == Some(appended(final(name), old(name).nlabels()))
                  && final(decoder).idx() == dec_end(old(decoder).buf(), old(decoder).idx()),
            Err(_) => match dec(old(decoder).buf(), old(decoder).idx(), old(decoder).idx(), old(decoder).buf().len() as int) {
                  Some(ls) => old(name).enc_len() + wl(ls) > 255, None => true },
        }
//%before "loop"
    let ghost n0 = old(name).nlabels();
    let ghost enc_0 = old(name).enc_len();
    let ghost top = dec(decoder.buf(), decoder.idx(), decoder.idx(), decoder.buf().len() as int);
    proof {
        reveal(Name::labels);
        assert(name.labels().subrange(0, n0) =~= old(name).labels());
        assert(appended(name, n0) =~= Seq::<Seq<u8>>::empty());
        assert(Seq::<Seq<u8>>::empty() + dec(decoder.buf(), decoder.idx(), decoder.idx(), decoder.buf().len() as int).unwrap_or(Seq::empty()) =~= dec(decoder.buf(), decoder.idx(), decoder.idx(), decoder.buf().len() as int).unwrap_or(Seq::empty()));
    }
    let ghost outer_buf = decoder.buf();
    let ghost outer_idx0 = decoder.idx();
    let ghost outer_fin = *final(decoder);
    let ghost mut chased = false;
    // linear-time argument: `steps` counts loop iterations; the potential
    //   2*(lim - idx + name_start) + rank(state)   (lim = overlap limit, or the packet length before any pointer)
    // drops by >= 1 per iteration, starting from 2*|packet| + 1
    let ghost mut steps = 0int;
//%after "loop"
        invariant
            decoder.wf(), name.wf(), name.labels_bounded(),
            decoder.buf() == outer_buf,
            name_start <= decoder.buf().len(),
            !chased ==> decoder.idx() >= outer_idx0 && *final(decoder) == outer_fin,
            chased ==> outer_fin.wf() && outer_fin.buf() == outer_buf && outer_fin.idx() > outer_idx0,
            state is Root ==> name.is_fqdn && decoder.idx() < decoder.buf().len(),
            state is Pointer ==> decoder.idx() < decoder.buf().len(),
            ptr_max_idx matches Some(m) ==> name_start < m <= decoder.buf().len() && chased,
            ptr_max_idx is None ==> !chased,
            decoder.idx() <= (match ptr_max_idx { Some(m) => m as int, None => decoder.buf().len() as int }) + 64,
            0 <= steps,
            steps + 2 * ((match ptr_max_idx { Some(m) => m as int, None => decoder.buf().len() as int }) - decoder.idx() + name_start)
                  + (if state is LabelLengthOrPointer { 1int } else { 0int }) <= 2 * decoder.buf().len() + 1,
            steps <= 2 * decoder.buf().len() + 130,
            state is Label ==> decoder.idx() < decoder.buf().len() && decoder.buf()[decoder.idx()] != 0,
            // functional part: what is in `name` so far, followed by what the octets at the read position denote, is what the field denotes
            state is Label ==> decoder.buf()[decoder.idx()] < 0x40,
            state is Pointer ==> decoder.buf()[decoder.idx()] >= 0xC0,
            state is Root ==> decoder.buf()[decoder.idx()] == 0,
            name.labels().len() == name.nlabels() >= n0, name.labels().subrange(0, n0) == old(name).labels(),
            top == dec_from(appended(name, n0), dec(outer_buf, decoder.idx(), name_start as int,
                        match ptr_max_idx { Some(m) => m as int, None => outer_buf.len() as int })),
            name.enc_len() == enc_0 + wl(appended(name, n0)),
            !chased ==> dec_end(outer_buf, outer_idx0) == dec_end(outer_buf, decoder.idx()),
            chased ==> outer_fin.idx() == dec_end(outer_buf, outer_idx0),
        decreases name_start, decoder.buf().len() - decoder.idx(), (if state is LabelLengthOrPointer { 1int } else { 0int }),
//%before "if let Some(max_idx) = ptr_max_idx"
        proof {
            steps = steps + 1;
            lemma_dec_unfold(outer_buf, decoder.idx(), name_start as int, match ptr_max_idx { Some(m) => m as int, None => outer_buf.len() as int });
        }
//%before "match decoder . peek ( )"
                proof { if decoder.idx() < decoder.buf().len() { lemma_len_bits(decoder.buf()[decoder.idx()]); } }
//%closure "|l|"@1
|l: &&[u8]| -> (b: bool) ensures b == (l@.len() <= 63)
//%closure "|l|"@2
|l: &[u8]| -> (e: DecodeError)
//%closure "|_|"
|_vp0: DecodeError| -> (e: DecodeError)
//%before "name.extend_name(label)"
                let ghost name_before = *name;
//%before "let label = decoder"
                let ghost idx_l = decoder.idx();
                let ghost lim_g = match ptr_max_idx { Some(m) => m as int, None => outer_buf.len() as int };
//%before "name.extend_name(label)"
                let ghost idx_a = idx_l + 1 + label@.len();
                proof {
                    // the name cannot take this label: whatever follows, the field denotes more than 255 octets
                    if name_before.enc_len() + label@.len() + 1 > 255 {
                        if let Some(rest) = dec(outer_buf, idx_a, name_start as int, lim_g) {
                            lemma_wl_concat(appended(&name_before, n0), seq![label@] + rest);
                            lemma_wl_concat(seq![label@], rest);
                            lemma_wl_push(Seq::<Seq<u8>>::empty(), label@);
                            assert(Seq::<Seq<u8>>::empty().push(label@) =~= seq![label@]);
                        }
                    }
                }
//%before "LabelParseState::LabelLengthOrPointer }"@1
                proof {
                    lemma_extend_labels(name_before, *name, label@);
                    lemma_appended_push(name_before, *name, n0, label@);
                    lemma_wl_push(appended(&name_before, n0), label@);
                    lemma_dec_step(top, appended(&name_before, n0), label@, dec(outer_buf, idx_a, name_start as int, lim_g));
                }
//%before "let location = decoder"
                let ghost ptr_hi = decoder.buf()[decoder.idx()];
                let ghost ptr_lo = if decoder.idx() + 1 < decoder.buf().len() { decoder.buf()[decoder.idx() + 1] } else { 0u8 };
                proof {
                    if decoder.idx() + 2 <= decoder.buf().len() { lemma_ptr_bits((be16(ptr_hi, ptr_lo)) as u16, ptr_hi, ptr_lo); }
                }
//%before "ptr_max_idx = Some(name_start);"
                proof { chased = true; }
//%closure "|u|"
|u: u16| -> (o: u16) ensures o == u & 0x3FFF
//%closure "|ptr|"
|ptr: &u16| -> (b: bool) ensures b == ((*ptr as usize) < name_start)
//%closure "|e|"
|e: u16| -> (e2: DecodeError)
//%mutant ptr_le "(*ptr as usize) < name_start" => "(*ptr as usize) <= name_start"
//%mutant label_64 "l.len() <= 63" => "l.len() <= 64"
//%mutant no_overlap_guard "decoder.index() >= max_idx" => "false && decoder.index() >= max_idx"
//%mutant ptr_hop_off_by_one "decoder.clone(location)" => "decoder.clone(if location > 0 { location - 1 } else { location })"
//%mutant label_not_stored "name.extend_name(label)" => "(if label.len() == 7 { Ok(()) } else { name.extend_name(label) })"
//%mutant no_root_pop "decoder.pop()?;" => ""
//%end
} // verus!
fn main() {}
