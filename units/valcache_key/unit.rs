//%unit valcache_key
//%features std __dnssec dnssec-ring
use vstd::prelude::*;
use vstd::std_specs::iter::IteratorSpec;
verus! {
// ---- C06 kernel: the key under which a validation verdict is cached (net/src/dnssec/mod.rs::RrsetVerificationContext::key,
//      whole function). "Altering any signed bit of the records or RRSIG, presenting a different key ... never yields Secure --
//      also not via a previously cached verdict": a cached verdict may only be reused for the SAME query, RRset key, records
//      and signatures, so everything that identifies them must reach the hasher, record by record, in order. The hasher is
//      modelled by the log of values fed to it (one event per `x.hash(&mut hasher)`; every field type's own Hash impl is
//      assumed to be a function of its value); `finish()` is an uninterpreted function of that log. Collision resistance
//      of the 64-bit hash itself is outside the model. ----
pub enum KEv { Name(u64), Class(u64), Type(u64), Data(u64), Other(u64) }
pub uninterp spec fn finish_of(log: Seq<KEv>) -> u64;
pub struct DefaultHasher { pub log: Ghost<Seq<KEv>> }
impl DefaultHasher {
    pub fn new() -> (r: DefaultHasher) ensures r.log@ == Seq::<KEv>::empty() { DefaultHasher { log: Ghost(Seq::empty()) } }
    #[verifier::external_body] pub fn finish(&self) -> (r: u64) ensures r == finish_of(self.log@) { unimplemented!() }
}
// stand-ins: a value is identified by an opaque id (equal values <=> equal ids); `hash` feeds exactly that value
pub struct Name { pub id: u64 }
impl Name { pub fn hash(&self, state: &mut DefaultHasher) ensures final(state).log@ == old(state).log@.push(KEv::Name(self.id)) { state.log = Ghost(state.log@.push(KEv::Name(self.id))); } }
pub struct DNSClass { pub id: u64 }
impl DNSClass { pub fn hash(&self, state: &mut DefaultHasher) ensures final(state).log@ == old(state).log@.push(KEv::Class(self.id)) { state.log = Ghost(state.log@.push(KEv::Class(self.id))); } }
pub struct RecordType { pub id: u64 }
impl RecordType { pub fn hash(&self, state: &mut DefaultHasher) ensures final(state).log@ == old(state).log@.push(KEv::Type(self.id)) { state.log = Ghost(state.log@.push(KEv::Type(self.id))); } }
pub struct RData { pub id: u64 }
impl RData { pub fn hash(&self, state: &mut DefaultHasher) ensures final(state).log@ == old(state).log@.push(KEv::Data(self.id)) { state.log = Ghost(state.log@.push(KEv::Data(self.id))); } }
pub struct Record { pub name: Name, pub dns_class: DNSClass, pub data: RData, pub ttl: u32 }
pub struct Query { pub name: Name, pub query_class: DNSClass, pub query_type: RecordType }
pub struct RrKey { pub name: Name, pub record_type: RecordType }
pub struct Rrset { pub records: Vec<Record>, pub signatures: Vec<Record> }
pub struct RrsetVerificationContext { pub query: Query, pub key: RrKey, pub rrset: Rrset }
pub struct ValidationCacheKey(pub u64);

pub open spec fn rec_feed(r: Record) -> Seq<KEv> { seq![KEv::Name(r.name.id), KEv::Class(r.dns_class.id), KEv::Data(r.data.id)] }
pub open spec fn recs_feed(rs: Seq<Record>) -> Seq<KEv>
    decreases rs.len()
{ if rs.len() == 0 { Seq::empty() } else { recs_feed(rs.drop_last()) + rec_feed(rs.last()) } }
pub open spec fn key_feed(c: RrsetVerificationContext) -> Seq<KEv> {
    seq![KEv::Name(c.query.name.id), KEv::Class(c.query.query_class.id), KEv::Type(c.query.query_type.id), KEv::Name(c.key.name.id), KEv::Type(c.key.record_type.id)]
        + recs_feed(c.rrset.records@) + recs_feed(c.rrset.signatures@)
}
pub proof fn lemma_recs_feed_step(rs: Seq<Record>, k: int)
    requires 0 <= k < rs.len()
    ensures recs_feed(rs.subrange(0, k + 1)) == recs_feed(rs.subrange(0, k)) + rec_feed(rs[k])
{
    assert(rs.subrange(0, k + 1).drop_last() =~= rs.subrange(0, k));
}
// the feed determines the records: different record sequences (in any field that is fed) give different feeds
pub proof fn lemma_recs_feed_injective(a: Seq<Record>, b: Seq<Record>)
    requires recs_feed(a) == recs_feed(b)
    ensures a.len() == b.len(),
        forall|i: int| 0 <= i < a.len() ==> (#[trigger] a[i]).name.id == b[i].name.id && a[i].dns_class.id == b[i].dns_class.id && a[i].data.id == b[i].data.id,
    decreases a.len()
{
    lemma_recs_feed_len(a); lemma_recs_feed_len(b);
    if a.len() > 0 {
        let fa = recs_feed(a.drop_last()); let fb = recs_feed(b.drop_last());
        lemma_recs_feed_len(a.drop_last()); lemma_recs_feed_len(b.drop_last());
        assert(recs_feed(a) == fa + rec_feed(a.last()));
        assert(recs_feed(b) == fb + rec_feed(b.last()));
        assert(fa =~= recs_feed(a).subrange(0, fa.len() as int));
        assert(fb =~= recs_feed(b).subrange(0, fb.len() as int));
        assert(rec_feed(a.last()) =~= recs_feed(a).subrange(fa.len() as int, recs_feed(a).len() as int));
        assert(rec_feed(b.last()) =~= recs_feed(b).subrange(fb.len() as int, recs_feed(b).len() as int));
        assert(rec_feed(a.last())[0] == rec_feed(b.last())[0] && rec_feed(a.last())[1] == rec_feed(b.last())[1] && rec_feed(a.last())[2] == rec_feed(b.last())[2]);
        lemma_recs_feed_injective(a.drop_last(), b.drop_last());
        assert forall|i: int| 0 <= i < a.len() implies (#[trigger] a[i]).name.id == b[i].name.id && a[i].dns_class.id == b[i].dns_class.id && a[i].data.id == b[i].data.id by {
            if i < a.len() - 1 { assert(a.drop_last()[i] == a[i] && b.drop_last()[i] == b[i]); }
        }
    }
}
pub proof fn lemma_recs_feed_len(a: Seq<Record>)
    ensures recs_feed(a).len() == 3 * a.len()
    decreases a.len()
{ if a.len() > 0 { lemma_recs_feed_len(a.drop_last()); } }

impl RrsetVerificationContext {
//%fn crates/net/src/dnssec/mod.rs :: impl<'a> RrsetVerificationContext<'a> :: key
//%after "for rec in"@1
            vp_a:
//%after "for rec in self.rrset.records.iter()"
            invariant
                vp_a.snapshot@.remaining().len() == self.rrset.records@.len(), 0 <= vp_a.index@ <= self.rrset.records@.len(),
                forall|j: int| 0 <= j < self.rrset.records@.len() ==> *(#[trigger] vp_a.snapshot@.remaining()[j]) == self.rrset.records@[j],
                hasher.log@ == vp_head + recs_feed(self.rrset.records@.subrange(0, vp_a.index@ as int)),
//%after "for rec in self.rrset.records.iter() {"
            let ghost vp_k = vp_a.index@ as int;
            let ghost vp_l0 = hasher.log@;
            proof { assert(*rec == self.rrset.records@[vp_k]); }
//%before "} for rec in self.rrset.signatures.iter()"
            proof {
                lemma_recs_feed_step(self.rrset.records@, vp_k);
                assert(hasher.log@ =~= vp_l0 + rec_feed(*rec));
                assert(hasher.log@ =~= vp_head + recs_feed(self.rrset.records@.subrange(0, vp_k + 1)));
            }
//%after "for rec in"@2
            vp_b:
//%after "for rec in self.rrset.signatures.iter()"
            invariant
                vp_b.snapshot@.remaining().len() == self.rrset.signatures@.len(), 0 <= vp_b.index@ <= self.rrset.signatures@.len(),
                forall|j: int| 0 <= j < self.rrset.signatures@.len() ==> *(#[trigger] vp_b.snapshot@.remaining()[j]) == self.rrset.signatures@[j],
                hasher.log@ == vp_head + recs_feed(self.rrset.records@) + recs_feed(self.rrset.signatures@.subrange(0, vp_b.index@ as int)),
//%after "for rec in self.rrset.signatures.iter() {"
            let ghost vp_k2 = vp_b.index@ as int;
            let ghost vp_l1 = hasher.log@;
            proof { assert(*rec == self.rrset.signatures@[vp_k2]); }
//%before "} ValidationCacheKey(hasher.finish())"
            proof {
                lemma_recs_feed_step(self.rrset.signatures@, vp_k2);
                assert(hasher.log@ =~= vp_l1 + rec_feed(*rec));
                assert(hasher.log@ =~= vp_head + recs_feed(self.rrset.records@) + recs_feed(self.rrset.signatures@.subrange(0, vp_k2 + 1)));
            }
//%before "for rec in self.rrset.records.iter()"
        let ghost vp_head = hasher.log@;
        proof {
            assert(self.rrset.records@.subrange(0, 0) =~= Seq::<Record>::empty());
            assert(hasher.log@ =~= vp_head + recs_feed(self.rrset.records@.subrange(0, 0)));
        }
//%before "for rec in self.rrset.signatures.iter()"
        proof {
            assert(self.rrset.records@.subrange(0, self.rrset.records@.len() as int) =~= self.rrset.records@);
            assert(self.rrset.signatures@.subrange(0, 0) =~= Seq::<Record>::empty());
            assert(hasher.log@ =~= vp_head + recs_feed(self.rrset.records@) + recs_feed(self.rrset.signatures@.subrange(0, 0)));
        }
//%before "ValidationCacheKey(hasher.finish())"
        proof {
            assert(self.rrset.signatures@.subrange(0, self.rrset.signatures@.len() as int) =~= self.rrset.signatures@);
            assert(vp_head =~= seq![KEv::Name(self.query.name.id), KEv::Class(self.query.query_class.id), KEv::Type(self.query.query_type.id), KEv::Name(self.key.name.id), KEv::Type(self.key.record_type.id)]);
            assert(hasher.log@ =~= key_feed(*self));
        }
//%mutant records_not_hashed "rec.data.hash(&mut hasher);"@1 => ""
//%mutant signature_owner_not_hashed "rec.name.hash(&mut hasher);"@2 => ""
//%contract
        // the key is the hash of: the query, the RRset key, then name / class / RDATA of every record and of every signature, in order
        ensures r.0 == finish_of(key_feed(*self))
//%end
}
} // verus!
fn main() {}
