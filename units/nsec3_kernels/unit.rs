//%unit nsec3_kernels
//%features std __dnssec dnssec-ring
//%dropfmt
use vstd::prelude::*;
verus! {

// ---- C09 kernels (crates/net/src/dnssec/nsec3.rs): the decisions that turn a set of NSEC3 records into a verdict.
//      Hashing, base32 and names are opaque: a hashed owner name is an abstract point of ONE total order (base32hex
//      preserves the order of the raw hash, which is why the source may compare labels on one side and raw bytes on
//      the other).  The RFC 5155 notions are written as spec predicates over that order, independently of the code:
//        matches(rec, t) : owner(rec) == t
//        covers(rec, t)  : owner < t < next, or -- for the last record of the chain, owner >= next -- t > owner or t < next
//      and the postconditions say: Secure only if the records entail the claim (RFC 5155 section 8.4-8.7). ----

// -- opaque stand-ins: a hashed name is a point `h`; Label (base32 form) and Vec<u8> (raw form) carry the same point --
pub struct Label { pub h: u64 }
impl vstd::std_specs::cmp::PartialEqSpecImpl for Label { open spec fn obeys_eq_spec() -> bool { true } open spec fn eq_spec(&self, o: &Label) -> bool { self.h == o.h } }
impl PartialEq for Label { fn eq(&self, o: &Label) -> (r: bool) { self.h == o.h } }
impl vstd::std_specs::cmp::PartialOrdSpecImpl for Label {
    open spec fn obeys_partial_cmp_spec() -> bool { true }
    open spec fn partial_cmp_spec(&self, o: &Label) -> Option<core::cmp::Ordering> {
        if self.h < o.h { Some(core::cmp::Ordering::Less) } else if self.h == o.h { Some(core::cmp::Ordering::Equal) } else { Some(core::cmp::Ordering::Greater) } }
}
impl PartialOrd for Label {
    fn partial_cmp(&self, o: &Label) -> (r: Option<core::cmp::Ordering>) {
        if self.h < o.h { Some(core::cmp::Ordering::Less) } else if self.h == o.h { Some(core::cmp::Ordering::Equal) } else { Some(core::cmp::Ordering::Greater) } }
}
pub uninterp spec fn raw_point(b: Seq<u8>) -> u64;          // the point a raw hash denotes
// `a < b` / `a > b` on raw hashes (PartialOrd for [u8], lexicographic) is the order of the points
#[verifier::external_body] pub fn vp_bytes_lt(a: &[u8], b: &[u8]) -> (r: bool) ensures r == (raw_point(a@) < raw_point(b@)) { unimplemented!() }
#[verifier::external_body] pub fn vp_bytes_gt(a: &[u8], b: &[u8]) -> (r: bool) ensures r == (raw_point(a@) > raw_point(b@)) { unimplemented!() }

#[derive(Clone, Copy)] pub enum RecordType { CNAME, DS, NS, SOA, Unknown(u16) }
impl vstd::std_specs::cmp::PartialEqSpecImpl for RecordType { open spec fn obeys_eq_spec() -> bool { true } open spec fn eq_spec(&self, o: &RecordType) -> bool { *self == *o } }
impl PartialEq for RecordType {
    fn eq(&self, o: &RecordType) -> (r: bool) { match (*self, *o) { (RecordType::CNAME, RecordType::CNAME) => true, (RecordType::DS, RecordType::DS) => true, (RecordType::NS, RecordType::NS) => true, (RecordType::SOA, RecordType::SOA) => true, (RecordType::Unknown(a), RecordType::Unknown(b)) => a == b, _ => false } }
}
pub struct RecordTypeSet { pub vp: u64 }
pub uninterp spec fn type_in(s: RecordTypeSet, t: RecordType) -> bool;
impl RecordTypeSet { #[verifier::external_body] pub fn contains(&self, t: RecordType) -> (r: bool) ensures r == type_in(*self, t) { unimplemented!() } }

#[derive(Clone, Copy)] pub struct Nsec3HashAlgorithm(pub u8);
impl vstd::std_specs::cmp::PartialEqSpecImpl for Nsec3HashAlgorithm { open spec fn obeys_eq_spec() -> bool { true } open spec fn eq_spec(&self, o: &Nsec3HashAlgorithm) -> bool { self.0 == o.0 } }
impl PartialEq for Nsec3HashAlgorithm { fn eq(&self, o: &Nsec3HashAlgorithm) -> (r: bool) { self.0 == o.0 } }
pub struct NSEC3 { pub next: Vec<u8>, pub next_label_ok: bool, pub opt_out: bool, pub types: RecordTypeSet, pub hash_algorithm: Nsec3HashAlgorithm, pub salt: Vec<u8>, pub iterations: u16 }
impl NSEC3 {
    // nsec3.rs (proto): accessors.  next_hashed_owner_name_base32() is None when the raw hash does not form a label.
    pub fn next_hashed_owner_name(&self) -> (r: &[u8]) ensures r@ == self.next@ { self.next.as_slice() }
    #[verifier::external_body]
    pub fn next_hashed_owner_name_base32(&self) -> (r: Option<&Label>)
        ensures r is Some == self.next_label_ok, r matches Some(l) ==> l.h == raw_point(self.next@)
    { unimplemented!() }
    pub fn opt_out(&self) -> (r: bool) ensures r == self.opt_out { self.opt_out }
    pub fn hash_algorithm(&self) -> (r: Nsec3HashAlgorithm) ensures r == self.hash_algorithm { self.hash_algorithm }
    pub fn salt(&self) -> (r: &[u8]) ensures r@ == self.salt@ { self.salt.as_slice() }
    pub fn iterations(&self) -> (r: u16) ensures r == self.iterations { self.iterations }
    pub fn type_set(&self) -> (r: &RecordTypeSet) ensures *r == self.types { &self.types }
}
//%struct crates/net/src/dnssec/nsec3.rs :: Nsec3RecordPair
//%end

// -- RFC 5155 predicates --
// RFC 5155 8.3: "the NSEC3 RR that has the closest encloser as the original owner name [must be] from the proper zone.
// The DNAME type bit must not be set and the NS type bit may only be set if the SOA type bit is set."
pub open spec fn improper_encloser(n: NSEC3) -> bool {
    type_in(n.types, RecordType::Unknown(39)) || (type_in(n.types, RecordType::NS) && !type_in(n.types, RecordType::SOA))
}
spec fn matches(rec: Nsec3RecordPair, t: u64) -> bool { rec.base32_hashed_name.h == t }
spec fn covers(rec: Nsec3RecordPair, t: u64) -> bool {
    let owner = rec.base32_hashed_name.h;
    let next = raw_point(rec.nsec3_data.next@);
    rec.nsec3_data.next_label_ok && owner != t
    && (if owner < next { owner < t && t < next } else { t > owner || t < next })
}

// -- iterator shims: <[T]>::iter().find(f) / .any(f) over a slice, specified through the closure's own contract --
#[verifier::external_body]
pub fn vp_find<'s, T, F: Fn(&&'s T) -> bool>(s: &'s [T], f: F) -> (r: Option<&'s T>)
    requires forall|i: int| 0 <= i < s@.len() ==> call_requires(f, (&&#[trigger] s@[i],))
    ensures match r {
        Some(x) => exists|i: int| 0 <= i < s@.len() && *x == #[trigger] s@[i] && call_ensures(f, (&&s@[i],), true)
            && (forall|j: int| 0 <= j < i ==> call_ensures(f, (&&#[trigger] s@[j],), false)),
        None => forall|i: int| 0 <= i < s@.len() ==> call_ensures(f, (&&#[trigger] s@[i],), false) }
{ s.iter().find(f) }
#[verifier::external_body]
pub fn vp_any<'s, T, F: Fn(&'s T) -> bool>(s: &'s [T], f: F) -> (r: bool)
    requires forall|i: int| 0 <= i < s@.len() ==> call_requires(f, (&#[trigger] s@[i],))
    ensures r ==> exists|i: int| 0 <= i < s@.len() && call_ensures(f, (&#[trigger] s@[i],), true),
        !r ==> forall|i: int| 0 <= i < s@.len() ==> call_ensures(f, (&#[trigger] s@[i],), false)
{ s.iter().any(f) }

#[verifier::external_body]
pub fn vp_find_map<'s, T, U, F: Fn(&'s T) -> Option<U>>(s: &'s [T], f: F) -> (r: Option<U>)
    requires forall|i: int| 0 <= i < s@.len() ==> call_requires(f, (&#[trigger] s@[i],))
    ensures match r {
        Some(u) => exists|i: int| 0 <= i < s@.len() && call_ensures(f, (&#[trigger] s@[i],), Some(u)),
        None => forall|i: int| 0 <= i < s@.len() ==> call_ensures(f, (&#[trigger] s@[i],), None::<U>) }
{ s.iter().find_map(f) }
// `s.iter().enumerate().skip(from).find(|(_, x)| p(x)).map(|(i, _)| i)`: the first index >= from whose element satisfies p
#[verifier::external_body]
pub fn vp_position_from<'s, T, F: Fn(&'s T) -> bool>(s: &'s [T], from: usize, f: F) -> (r: Option<usize>)
    requires forall|i: int| 0 <= i < s@.len() ==> call_requires(f, (&#[trigger] s@[i],))
    ensures match r {
        Some(i) => from <= i < s@.len() && call_ensures(f, (&s@[i as int],), true),
        None => forall|i: int| from <= i < s@.len() ==> call_ensures(f, (&#[trigger] s@[i],), false) }
{ s.iter().enumerate().skip(from).find(|(_, x)| f(x)).map(|(i, _)| i) }
//%fn crates/net/src/dnssec/nsec3.rs :: find_covering_record
//%sub1 "nsec3s.iter().find(" => "vp_find(nsec3s, " # R-shim: slice iterator `find` -> shim specified through the closure's contract
//%sub? "target_hashed_name < record.nsec3_data.next_hashed_owner_name()" => "vp_bytes_lt(target_hashed_name, record.nsec3_data.next_hashed_owner_name())" # R-shim: PartialOrd on [u8] (order of the raw hashes)
//%sub? "target_hashed_name <= record.nsec3_data.next_hashed_owner_name()" => "!vp_bytes_gt(target_hashed_name, record.nsec3_data.next_hashed_owner_name())" # R-shim (`<=`: not present in the current source; kept so that a changed operator is judged, not lost)
//%sub? "target_hashed_name > record.nsec3_data.next_hashed_owner_name()" => "vp_bytes_gt(target_hashed_name, record.nsec3_data.next_hashed_owner_name())" # R-shim: PartialOrd on [u8] (the wraparound comparison of the current source)
//%sub? "target_hashed_name >= record.nsec3_data.next_hashed_owner_name()" => "!vp_bytes_lt(target_hashed_name, record.nsec3_data.next_hashed_owner_name())" # R-shim (`>=`)
//%mutant normal_case_upper_bound_dropped "record.base32_hashed_name < *target_base32_hashed_name && target_hashed_name < record.nsec3_data.next_hashed_owner_name()" => "record.base32_hashed_name < *target_base32_hashed_name"
//%closure "|record|"
|record: &&'a Nsec3RecordPair<'a>| -> (b: bool)
    ensures
        !record.nsec3_data.next_label_ok ==> !b,
        // ordinary record of the chain (owner < next): covers exactly the targets strictly between
        record.nsec3_data.next_label_ok && record.base32_hashed_name.h < raw_point(record.nsec3_data.next@) ==> b == covers(**record, target_base32_hashed_name.h),
        // last record of the chain (owner >= next, "wraparound"): covers exactly the targets beyond either end
        record.nsec3_data.next_label_ok && record.base32_hashed_name.h >= raw_point(record.nsec3_data.next@) ==> b == covers(**record, target_base32_hashed_name.h),
//%contract
    requires target_base32_hashed_name.h == raw_point(target_hashed_name@)
    // C09 (RFC 5155 section 7.2.1/8.3): the record returned COVERS the target: it does not match it, and the target
    // lies strictly between its owner hash and its next hash (for the last record of the chain: beyond either end)
    ensures match r {
        Some(rec) => covers(*rec, target_base32_hashed_name.h) && exists|i: int| 0 <= i < nsec3s@.len() && *rec == nsec3s@[i],
        None => forall|i: int| 0 <= i < nsec3s@.len() ==> !covers(nsec3s@[i], target_base32_hashed_name.h) }
//%end

// ---------------- the response validators ----------------
pub struct Name { pub id: u64 }
impl vstd::std_specs::cmp::PartialEqSpecImpl for Name { open spec fn obeys_eq_spec() -> bool { true } open spec fn eq_spec(&self, o: &Name) -> bool { self.id == o.id } }
impl PartialEq for Name { fn eq(&self, o: &Name) -> (r: bool) { self.id == o.id } }
pub uninterp spec fn parent_of(n: Name) -> Name;                 // the name without its first label
pub uninterp spec fn nlabels(n: Name) -> u8;
pub uninterp spec fn last_labels(n: Name, k: int) -> Name;       // the ancestor of n made of its last k labels
pub uninterp spec fn wildcard_at(n: Name) -> Name;               // *.n
impl Name {
    #[verifier::external_body] pub fn base_name(&self) -> (r: Name) ensures r == parent_of(*self) { unimplemented!() }
    #[verifier::external_body] pub fn num_labels(&self) -> (r: u8) ensures r == nlabels(*self) { unimplemented!() }
    #[verifier::external_body] pub fn clone(&self) -> (r: Name) ensures r == *self { unimplemented!() }
    // Name::prepend_label("*") (proved in unit name_build): the wildcard at the name, or an error if it would be too long
    #[verifier::external_body] pub fn prepend_label(&self, l: &str) -> (r: Result<Name, ProtoError>) ensures r matches Ok(w) ==> w == wildcard_at(*self) { unimplemented!() }
}
// the iterator pipeline `name.into_iter().rev().take(n + 1).rev().collect()` + Name::from_labels(..).expect(..):
// the ancestor made of the last n + 1 labels (ASSUMED; from_labels on labels of a valid name does not fail)
#[verifier::external_body]
pub fn vp_last_labels(name: &Name, n: u8) -> (r: Name) ensures r == last_labels(*name, n as int + 1) { unimplemented!() }
#[verifier::external_body]
pub fn vp_opt_name_eq(a: Option<&Name>, b: Option<&Name>) -> (r: bool)
    ensures r == (match (a, b) { (Some(x), Some(y)) => x.id == y.id, (None, None) => true, _ => false })
{ unimplemented!() }
pub struct Query { pub name: Name, pub query_type: RecordType }
//%enum crates/proto/src/dnssec/proof.rs :: Proof
//%end
pub trait VpDisplay {}
pub struct VpFmtArgs;
impl VpDisplay for &'static str {}
impl VpDisplay for VpFmtArgs {}
pub fn vp_fmt_args() -> VpFmtArgs { VpFmtArgs }
// nsec3.rs::nsec3_yield -> dnssec/mod.rs::proof_log_yield: logs and returns its first argument
pub fn nsec3_yield<M: VpDisplay>(p: Proof, query: &Query, msg: M) -> (r: Proof) ensures r == p { p }

//%struct crates/net/src/dnssec/nsec3.rs :: HashedNameInfo
//%end
//%struct crates/net/src/dnssec/nsec3.rs :: ClosestEncloserProofInfo
//%end
//%struct crates/net/src/dnssec/nsec3.rs :: Context
//%end
// #[derive(Default)] on ClosestEncloserProofInfo: both fields None
impl<'a> ClosestEncloserProofInfo<'a> { fn default() -> (r: Self) ensures r.closest_encloser is None && r.next_closer is None { ClosestEncloserProofInfo { closest_encloser: None, next_closer: None } } }
// the point a name hashes to under the context's parameters (hash algorithm, salt, iterations)
pub uninterp spec fn hp(alg: Nsec3HashAlgorithm, salt: Seq<u8>, iterations: u16, n: Name) -> u64;
impl<'a> Context<'a> {
    spec fn pt(&self, n: Name) -> u64 { hp(self.hash_algorithm, self.salt@, self.iterations, n) }
    spec fn some_proper_match(&self, t: u64) -> bool { exists|i: int| 0 <= i < self.nsec3s@.len() && matches(self.nsec3s@[i], t) && !improper_encloser(*self.nsec3s@[i].nsec3_data) }
    spec fn some_matches(&self, t: u64) -> bool { exists|i: int| 0 <= i < self.nsec3s@.len() && matches(self.nsec3s@[i], t) }
    spec fn some_covers(&self, t: u64) -> bool { exists|i: int| 0 <= i < self.nsec3s@.len() && covers(self.nsec3s@[i], t) }
    // ancestors of the query name inside the zone (query name .. soa), as enumerated by encloser_candidates()
    uninterp spec fn is_candidate(&self, n: Name) -> bool;

    // hash_and_label: SHA-1 iterated + base32hex; opaque.  Both results denote the same point.
    #[verifier::external_body]
    fn hash_and_label(&self, name: &Name) -> (r: (Vec<u8>, Label))
        ensures r.1.h == self.pt(*name), raw_point(r.0@) == self.pt(*name)
    { unimplemented!() }

    // `self.encloser_candidates().map(|name| HashedNameInfo::new(name, self)).collect::<Vec<_>>()`: the query name and its
    // ancestors up to the SOA name, longest first, each hashed (EncloserCandidates::next walks base_name(); empty when the
    // query name is not inside the zone).  ASSUMED: the enumeration itself (iterator impl + map + collect).
    #[verifier::external_body]
    fn vp_candidates(&'a self) -> (r: Vec<HashedNameInfo>)
        ensures
            r@.len() > 0 ==> r@[0].name == self.query.name,
            forall|i: int| 0 <= i < r@.len() ==> self.is_candidate((#[trigger] r@[i]).name) && r@[i].base32_hashed_name.h == self.pt(r@[i].name)
                && raw_point(r@[i].hashed_name@) == self.pt(r@[i].name),
            forall|i: int| 0 <= i < r@.len() - 1 ==> (#[trigger] r@[i + 1]).name == parent_of(r@[i].name),
            // a name occurs once in its own ancestor chain
            forall|i: int, j: int| 0 <= i < j < r@.len() ==> (#[trigger] r@[i]).name != (#[trigger] r@[j]).name,
    { unimplemented!() }

//%fn crates/net/src/dnssec/nsec3.rs :: impl<'a> Context<'a> :: closest_encloser_proof
//%sub1 "self .encloser_candidates() .map(|name| HashedNameInfo::new(name, self)) .collect::<Vec<_>>()" => "self.vp_candidates()" # R-shim: iterator map + collect over the ancestor enumeration (assumed, see vp_candidates)
//%sub1 "closest_encloser_candidates.iter().find_map(" => "vp_find_map(closest_encloser_candidates.as_slice(), " # R-shim: slice iterator `find_map`, specified through the closure's contract
//%sub1 "self.nsec3s .iter() .find(" => "vp_find(self.nsec3s, " # R-shim: slice iterator `find`
//%sub1 "closest_encloser_candidates .iter() .enumerate() .skip(1) .find(|(_, candidate)| { candidate.base32_hashed_name == closest_encloser_matching_record.base32_hashed_name }) .map(|(i, _)| i)" => "vp_position_from(closest_encloser_candidates.as_slice(), 1, |candidate: &HashedNameInfo| -> (b: bool) ensures b == (candidate.base32_hashed_name.h == closest_encloser_matching_record.base32_hashed_name.h) { candidate.base32_hashed_name == closest_encloser_matching_record.base32_hashed_name })" # R-shim + R-clo: enumerate().skip(1).find(p).map(index) -> first index >= 1 satisfying p (the predicate is the source's)
//%sub1 "next_closer_covering_record.map(|record| (next_closer_name_info, record))" => "match next_closer_covering_record { Some(record) => Some((next_closer_name_info, record)), None => None }" # R-shim: Option::map with an FnOnce closure that moves a captured value
//%mutant next_closer_is_not_one_label_longer "closest_encloser_candidates.swap_remove(closest_encloser_index - 1)" => "closest_encloser_candidates.swap_remove(0)"
//%before "let closest_encloser_name_info"
        let ghost vp_c0 = closest_encloser_candidates@;
        let ghost vp_i = closest_encloser_index as int;
//%before "let next_closer_covering_record"
        proof {
            assert(closest_encloser_name_info == vp_c0[vp_i]);
            assert(next_closer_name_info == vp_c0[vp_i - 1]);
            assert(vp_c0[(vp_i - 1) + 1].name == parent_of(vp_c0[vp_i - 1].name));
        }
//%closure "|candidate|"
|candidate: &HashedNameInfo| -> (o: Option<&'a Nsec3RecordPair<'a>>)
    ensures match o { Some(rec) => matches(*rec, candidate.base32_hashed_name.h) && (exists|i: int| 0 <= i < self.nsec3s@.len() && *rec == self.nsec3s@[i]),
                      None => !self.some_matches(candidate.base32_hashed_name.h) }
//%closure "|nsec|"
|nsec: &&'a Nsec3RecordPair<'a>| -> (b: bool) ensures b == matches(**nsec, candidate.base32_hashed_name.h)
//%contract
        // RFC 5155 7.2.1: closest encloser = a PROPER ancestor of the query name (inside the zone) with a matching record;
        // next closer = the name one label longer, with a covering record; no next closer without a closest encloser
        ensures
            r.closest_encloser is None ==> r.next_closer is None,
            r.closest_encloser matches Some((ce, rec)) ==> self.is_candidate(ce.name) && ce.name != self.query.name
                && matches(*rec, self.pt(ce.name)) && (exists|i: int| 0 <= i < self.nsec3s@.len() && *rec == self.nsec3s@[i]),
            r.next_closer matches Some((nc, rec)) ==> r.closest_encloser is Some && self.is_candidate(nc.name)
                && parent_of(nc.name) == r.closest_encloser.unwrap().0.name
                && covers(*rec, self.pt(nc.name)) && (exists|i: int| 0 <= i < self.nsec3s@.len() && *rec == self.nsec3s@[i]),
//%end

//%fn crates/net/src/dnssec/nsec3.rs :: impl<'a> Context<'a> :: closest_encloser_proof_with_wildcard
//%sub1 "self.nsec3s .iter() .find(" => "vp_find(self.nsec3s, " # R-shim: slice iterator `find`, specified through the closure's contract
//%sub1 "wildcard_record.map(|record| (wildcard_name_info, record))" => "match wildcard_record { Some(record) => Some((wildcard_name_info, record)), None => None }" # R-shim: Option::map with an FnOnce closure that moves a captured value -> the match it denotes
//%closure "|record|"@1
|record: &&'a Nsec3RecordPair<'a>| -> (b: bool) ensures b == matches(**record, wildcard_name_info.base32_hashed_name.h)
//%contract
        // the wildcard of the closest-encloser proof: `*.closest_encloser`, with a MATCHING (matching = true) or COVERING
        // (false) record; none without a closest encloser; the closest-encloser part is what closest_encloser_proof returned
        ensures
            r.0.closest_encloser is None ==> r.0.next_closer is None && r.1 is None,
            r.0.closest_encloser matches Some((ce, rec)) ==> self.is_candidate(ce.name) && ce.name != self.query.name
                && matches(*rec, self.pt(ce.name)) && (exists|i: int| 0 <= i < self.nsec3s@.len() && *rec == self.nsec3s@[i]),
            r.0.next_closer matches Some((nc, rec)) ==> r.0.closest_encloser is Some && self.is_candidate(nc.name)
                && parent_of(nc.name) == r.0.closest_encloser.unwrap().0.name
                && covers(*rec, self.pt(nc.name)) && (exists|i: int| 0 <= i < self.nsec3s@.len() && *rec == self.nsec3s@[i]),
            r.1 matches Some((wc, rec)) ==> r.0.closest_encloser is Some && wc.name == wildcard_at(r.0.closest_encloser.unwrap().0.name)
                && (if matching { matches(*rec, self.pt(wc.name)) } else { covers(*rec, self.pt(wc.name)) })
                && (exists|i: int| 0 <= i < self.nsec3s@.len() && *rec == self.nsec3s@[i]),
//%end

//%fn crates/net/src/dnssec/nsec3.rs :: impl<'a> Context<'a> :: proof
//%sub1 "msg: impl Display" => "msg: impl VpDisplay" # R-fmt: Display is only used for the log line
//%contract
        ensures (r == proof)
//%end
}
impl HashedNameInfo {
//%fn crates/net/src/dnssec/nsec3.rs :: impl HashedNameInfo :: new
//%contract
        ensures r.name == name, r.base32_hashed_name.h == cx.pt(name), raw_point(r.hashed_name@) == cx.pt(name)
//%end
}

//%fn crates/net/src/dnssec/nsec3.rs :: from_proper_zone
//%contract
    ensures r == !improper_encloser(*closest_encloser.nsec3_data)
//%end

// RFC 5155 section 8.4 (name error): the closest-encloser proof: a matching record for an ancestor `ce` of QNAME, a
// covering record for the next closer name and a covering record for the wildcard `*.ce`
spec fn nx_witness(cx: &Context<'_>, ce: Name, nc: Name) -> bool {
    cx.is_candidate(ce) && ce != cx.query.name && cx.is_candidate(nc) && parent_of(nc) == ce
        && cx.some_proper_match(cx.pt(ce)) && cx.some_covers(cx.pt(nc)) && cx.some_covers(cx.pt(wildcard_at(ce)))
}
spec fn nx_proof(cx: &Context<'_>) -> bool { exists|ce: Name, nc: Name| #[trigger] nx_witness(cx, ce, nc) }
//%fn crates/net/src/dnssec/nsec3.rs :: validate_nxdomain_response
//%sub1 "cx .nsec3s .iter() .any(|r| r.base32_hashed_name == base32_hashed_query_name)" => "vp_any(cx.nsec3s, |r: &Nsec3RecordPair| -> (b: bool) ensures b == matches(*r, base32_hashed_query_name.h) { r.base32_hashed_name == base32_hashed_query_name })" # R-shim + R-clo: slice iterator `any` -> shim specified through the (typed) closure's contract
//%sub1 "Some(&cx.query.name.base_name()) == cx.soa" => "vp_opt_name_eq(Some(&cx.query.name.base_name()), cx.soa)" # R-shim: PartialEq on Option<&Name>
//%mutant wildcard_not_required "(Some((_, closest_encloser)), Some(_), Some(_)) if" => "(Some((_, closest_encloser)), Some(_), _) if"
//%mutant F11_closest_encloser_zone_not_checked "if from_proper_zone(closest_encloser) =>" => "if true =>"
//%mutant matching_record_for_qname_ignored "return cx.proof(Proof::Bogus, \"NXDomain response with record for query name\");" => ""
//%before "match (closest_encloser, next_closer, closest_encloser_wildcard)"
    proof {
        if closest_encloser is Some && next_closer is Some && closest_encloser_wildcard is Some && !improper_encloser(*closest_encloser.unwrap().1.nsec3_data) {
            assert(nx_witness(cx, closest_encloser.unwrap().0.name, next_closer.unwrap().0.name));
        }
    }
//%contract
    // C09: NXDOMAIN is Secure only if no record matches QNAME and the records form the closest-encloser proof
    ensures r is Secure ==> !cx.some_matches(cx.pt(cx.query.name)) && nx_proof(cx)
//%end

// RFC 5155 sections 8.5-8.7 (no data / wildcard no data / wildcard answer)
spec fn wild_nodata_witness(query_type: RecordType, cx: &Context<'_>, ce: Name, nc: Name, w: int) -> bool {
    cx.is_candidate(ce) && ce != cx.query.name && cx.is_candidate(nc) && parent_of(nc) == ce
        && cx.some_proper_match(cx.pt(ce)) && cx.some_covers(cx.pt(nc))
        && 0 <= w < cx.nsec3s@.len() && matches(cx.nsec3s@[w], cx.pt(wildcard_at(ce)))
        && !type_in(cx.nsec3s@[w].nsec3_data.types, query_type) && !type_in(cx.nsec3s@[w].nsec3_data.types, RecordType::CNAME)
}
spec fn nodata_proof(query_type: RecordType, wild: Option<u8>, cx: &Context<'_>) -> bool {
    // 8.5 / 8.6: a record matches QNAME and has neither QTYPE nor CNAME
    (exists|i: int| 0 <= i < cx.nsec3s@.len() && #[trigger] matches(cx.nsec3s@[i], cx.pt(cx.query.name))
        && !type_in(cx.nsec3s@[i].nsec3_data.types, query_type) && !type_in(cx.nsec3s@[i].nsec3_data.types, RecordType::CNAME))
    // 8.6: QTYPE DS, no matching record: a covering record with Opt-Out
    || (query_type is DS && exists|i: int| 0 <= i < cx.nsec3s@.len() && #[trigger] covers(cx.nsec3s@[i], cx.pt(cx.query.name)) && cx.nsec3s@[i].nsec3_data.opt_out)
    // 8.8: wildcard answer: the next closer name (one label below the wildcard's encloser) is covered
    || (wild matches Some(n) && nlabels(cx.query.name) > n && cx.some_covers(cx.pt(last_labels(cx.query.name, n as int + 1))))
    // 8.7: wildcard no data: closest-encloser proof with a record MATCHING `*.ce` that has neither QTYPE nor CNAME
    || (wild is None && exists|ce: Name, nc: Name, w: int| #[trigger] wild_nodata_witness(query_type, cx, ce, nc, w))
}
#[verifier::external_body]
pub fn vp_is_some_and<T, F: FnOnce(T) -> bool>(o: Option<T>, f: F) -> (r: bool)
    requires o matches Some(x) ==> call_requires(f, (x,))
    ensures match o { Some(x) => call_ensures(f, (x,), r), None => !r }
{ o.is_some_and(f) }
//%fn crates/net/src/dnssec/nsec3.rs :: validate_nodata_response
//%sub1 "cx .nsec3s .iter() .find(|record| record.base32_hashed_name == base32_hashed_query_name)" => "vp_find(cx.nsec3s, |record: &&Nsec3RecordPair| -> (b: bool) ensures b == matches(**record, base32_hashed_query_name.h) { record.base32_hashed_name == base32_hashed_query_name })" # R-shim + R-clo
//%sub1 "find_covering_record(cx.nsec3s, &hashed_query_name, &base32_hashed_query_name) .is_some_and(|x| x.nsec3_data.opt_out())" => "vp_is_some_and(find_covering_record(cx.nsec3s, &hashed_query_name, &base32_hashed_query_name), |x: &Nsec3RecordPair| -> (b: bool) ensures b == x.nsec3_data.opt_out { x.nsec3_data.opt_out() })" # R-shim + R-clo: Option::is_some_and
//%sub1 "let next_closer_labels = cx .query .name .into_iter() .rev() .take(wildcard_encloser_num_labels as usize + 1) .rev() .collect::<Vec<_>>(); let next_closer_name = Name::from_labels(next_closer_labels) .expect(\"next closer is `query_name` or its ancestor\");" => "let next_closer_name = vp_last_labels(&cx.query.name, wildcard_encloser_num_labels);" # R-shim: iterator pipeline over the labels (last n + 1 labels) + Name::from_labels
//%sub "Some(&cx.query.name.base_name()) == cx.soa" => "vp_opt_name_eq(Some(&cx.query.name.base_name()), cx.soa)" # R-shim: PartialEq on Option<&Name>
//%sub? "Some(&cx.query.name) == cx.soa" => "vp_opt_name_eq(Some(&cx.query.name), cx.soa)" # R-shim: PartialEq on Option<&Name> (present only in the unrepaired source)
//%mutant F8_apex_nodata_without_proof "_ => (Proof::Bogus, \"no valid servicing wildcard proof\")," => "(None, None, None) if vp_opt_name_eq(Some(&cx.query.name), cx.soa) => (Proof::Secure, \"no servicing wildcard, but query name == SOA\"), _ => (Proof::Bogus, \"no valid servicing wildcard proof\"),"
//%mutant F11_wildcard_nodata_encloser_zone_not_checked "if from_proper_zone(closest_encloser) &&" => "if true &&"
//%mutant optout_for_any_type "query_type == RecordType::DS &&" => "true &&"
//%mutant cname_bit_ignored "|| query_record .nsec3_data .type_set() .contains(RecordType::CNAME)" => ""
//%before "match (closest_encloser, next_closer, closest_encloser_wildcard)"
            proof {
                if closest_encloser is Some && next_closer is Some && closest_encloser_wildcard is Some {
                    let w_rec = closest_encloser_wildcard.unwrap().1;
                    let w = choose|i: int| 0 <= i < cx.nsec3s@.len() && *w_rec == cx.nsec3s@[i];
                    if !type_in(w_rec.nsec3_data.types, query_type) && !type_in(w_rec.nsec3_data.types, RecordType::CNAME) && !improper_encloser(*closest_encloser.unwrap().1.nsec3_data) {
                        assert(wild_nodata_witness(query_type, cx, closest_encloser.unwrap().0.name, next_closer.unwrap().0.name, w));
                    }
                }
            }
//%before "match next_closer_record"
            proof {
                if next_closer_record is Some {
                    assert(cx.some_covers(cx.pt(last_labels(cx.query.name, wildcard_encloser_num_labels as int + 1))));
                }
            }
//%contract
    // C09: a NOERROR/no-data (or wildcard) response is Secure only if the records form one of the RFC 5155 proofs
    ensures r is Secure ==> nodata_proof(query_type, wildcard_encloser_num_labels, cx)
//%end

// ---------------- verify_nsec3: sanity gate (zone, shared parameters, iteration limits) and dispatch ----------------
#[derive(Clone, Copy)] pub enum ResponseCode { NoError, NXDomain, Other(u16) }
pub struct Record { pub vp: u64 }
pub struct ProtoError { pub vp: u64 }
pub uninterp spec fn label_point(b: Seq<u8>) -> u64;
impl Label {
    // label.rs: Label::from_raw_bytes fails on empty / over-long labels; opaque here
    #[verifier::external_body] pub fn from_raw_bytes(b: &[u8]) -> (r: Result<Label, ProtoError>) ensures r matches Ok(l) ==> l.h == label_point(b@) { unimplemented!() }
}
// nsec3.rs::split_first_label: `(name.iter().next()?, name.base_name())`
#[verifier::external_body]
fn split_first_label(name: &Name) -> (r: Option<(&[u8], Name)>) ensures r matches Some((_, base)) ==> base == parent_of(*name) { unimplemented!() }
#[verifier::external_body]
pub fn vp_slice_ne(a: &[u8], b: &[u8]) -> (r: bool) ensures r == (a@ != b@) { unimplemented!() }
// `answers.iter().find_map(|record| match &record.data { RData::DNSSEC(DNSSECRData::RRSIG(data)) => Some(data.input().num_labels), _ => None })`
#[verifier::external_body]
pub fn vp_wildcard_num_labels(answers: &[Record]) -> (r: Option<u8>) { unimplemented!() }
pub open spec fn same_params(a: &NSEC3, b: &NSEC3) -> bool { a.hash_algorithm.0 == b.hash_algorithm.0 && a.salt@ == b.salt@ && a.iterations == b.iterations }

//%fn crates/net/src/dnssec/nsec3.rs :: verify_nsec3
//%sub1 "let mut pairs = Vec::with_capacity(nsec3s.len());" => "let mut pairs: Vec<Nsec3RecordPair> = Vec::with_capacity(nsec3s.len());" # R-ann: type ascription
//%sub1 "soa.is_some_and(|soa| &base != soa)" => "vp_is_some_and(soa, |soa: &Name| -> (b: bool) ensures b == (base.id != soa.id) { base != *soa })" # R-shim + R-clo: Option::is_some_and; `&base != soa` compares the names
//%sub1 "pairs.iter().any(" => "vp_any(pairs.as_slice(), " # R-shim: slice iterator `any`, specified through the closure's contract
//%sub1 "r.nsec3_data.salt() != salt" => "vp_slice_ne(r.nsec3_data.salt(), salt)" # R-shim: `!=` on [u8]
//%closure "|r|"
|r: &Nsec3RecordPair| -> (b: bool) ensures b == !same_params(r.nsec3_data, first.nsec3_data)
//%sub1 "answers.iter().find_map(|record| match &record.data { RData::DNSSEC(DNSSECRData::RRSIG(data)) => Some(data.input().num_labels), _ => None, })" => "vp_wildcard_num_labels(answers)" # R-shim: iterator find_map over the answer records (labels field of the first RRSIG), opaque
//%mutant soft_limit_gives_secure "Proof::Insecure" => "Proof::Secure"
//%mutant hard_limit_not_checked "if iterations > nsec3_hard_iteration_limit" => "if false"
//%mutant zone_check_dropped "return nsec3_yield(Proof::Bogus, query, \"record name is not in the zone\");" => ""
//%mutant parameter_mismatch_ignored "return nsec3_yield(Proof::Bogus, query, \"parameter mismatch\");" => ""
//%after "for (name, data) in"
        vp_it:
//%after "for (name, data) in nsec3s"
        invariant
            pairs@.len() == vp_it.index@, vp_it.index@ <= nsec3s@.len(),
            forall|j: int| 0 <= j < pairs@.len() ==> #[trigger] pairs@[j].nsec3_data == nsec3s@[j].1,
            soa matches Some(z) ==> forall|j: int| 0 <= j < pairs@.len() ==> parent_of(*(#[trigger] nsec3s@[j]).0) == *z,
//%before "let cx = Context"
    assert(iterations == nsec3s@[0].1.iterations && iterations <= nsec3_soft_iteration_limit);
    assert forall|j: int| 0 <= j < nsec3s@.len() implies same_params(#[trigger] nsec3s@[j].1, nsec3s@[0].1) by { let x = pairs@[j]; }
//%contract
    requires nsec3s@.len() > 0        // "checked in the caller" (debug_assert! in the source; `pairs[0]` relies on it)
    ensures
        // C09: iteration counts above the hard limit give Bogus, above the soft limit never Secure
        nsec3s@[0].1.iterations > nsec3_hard_iteration_limit ==> r is Bogus,
        nsec3s@[0].1.iterations > nsec3_soft_iteration_limit ==> !(r is Secure),
        // all records share the hash parameters ...
        (exists|j: int| 0 <= j < nsec3s@.len() && !same_params(#[trigger] nsec3s@[j].1, nsec3s@[0].1)) ==> !(r is Secure),
        // ... and belong to the zone named by the SOA
        (soa matches Some(z) && exists|j: int| 0 <= j < nsec3s@.len() && parent_of(*(#[trigger] nsec3s@[j]).0) != *z) ==> !(r is Secure),
        // only NXDOMAIN and NOERROR responses can be proved
        !(response_code is NXDomain || response_code is NoError) ==> !(r is Secure),
//%end

} // verus!
fn main() {}
