//%unit rdata_plain
//%features std __dnssec dnssec-ring
use vstd::prelude::*;
use vstd::std_specs::iter::IteratorSpec;
verus! {
//%include ../common/decoder.rs
//%include ../common/forloop.rs

// ---- C01, the remaining RDATA decoders and the two dispatchers (RData::read, DNSSECRData::read).
//      The two decoding traits carry ONE contract for every per-type decoder: given a well-formed decoder it
//      RETURNS (no panic, no overflow, terminates), leaves the decoder well-formed over the same buffer and never
//      moves the index backwards.  Each real `read` / `read_data` body below is verified against that trait
//      contract in its real `impl ... for T` position (so `Self`, `T::read(..)`, `?` are the source's own).
//      The dispatchers are then verified verbatim against the trait contract: `decoder.index() - start_idx`
//      cannot underflow, the `panic!` arm of DNSSECRData::read is unreachable for every record type RData::read
//      can pass, and Ok(_) is returned only when the RDATA was consumed exactly (decoder empty). ----
// serialize/binary/mod.rs::BinDecodable (only `read`; the provided `from_bytes` is not extracted) and rr/mod.rs::RecordDataDecodable
pub trait BinDecodable<'r>: Sized {
    fn read(decoder: &mut BinDecoder<'r>) -> (r: Result<Self, DecodeError>)
        requires old(decoder).wf()
        ensures final(decoder).wf(), final(decoder).buf() == old(decoder).buf(), final(decoder).idx() >= old(decoder).idx();
}
pub trait RecordDataDecodable<'r>: Sized {
    fn read_data(decoder: &mut BinDecoder<'r>) -> (r: Result<Self, DecodeError>)
        requires old(decoder).wf()
        ensures final(decoder).wf(), final(decoder).buf() == old(decoder).buf(), final(decoder).idx() >= old(decoder).idx();
}
// the blanket impl (rr/mod.rs): every BinDecodable is RecordDataDecodable
impl<'r, T> RecordDataDecodable<'r> for T where T: 'r + BinDecodable<'r> + Sized {
//%fn crates/proto/src/rr/mod.rs :: impl<'r, T> RecordDataDecodable<'r> for T where T: 'r + BinDecodable<'r> + Sized, :: read_data
//%end
}

pub struct Name { pub vp: u64 }
impl Name { #[verifier::external_body] pub fn set_fqdn(&mut self, v: bool) { unimplemented!() } }
// contract proved for the real Name::read in unit name_read
impl<'r> BinDecodable<'r> for Name { #[verifier::external_body] fn read(decoder: &mut BinDecoder<'r>) -> (r: Result<Self, DecodeError>) { unimplemented!() } }
pub struct VpBoxedBytes { pub v: Vec<u8> }
pub trait VpToBoxed { fn vp_to_boxed(&self) -> VpBoxedBytes; }
impl VpToBoxed for &[u8] { #[verifier::external_body] fn vp_to_boxed(&self) -> (r: VpBoxedBytes) { unimplemented!() } }
// trusted fact about Rust slices (allocation size limit; same axiom as in the encoder fragment)
#[verifier::external_body]
pub proof fn axiom_slice_len_isize(s: &[u8])
    ensures s@.len() <= isize::MAX
{}

// ---------- A / AAAA ----------
pub struct Ipv4Addr { pub vp: u32 }
impl Ipv4Addr { #[verifier::external_body] pub fn new(a: u8, b: u8, c: u8, d: u8) -> Ipv4Addr { unimplemented!() } }
pub struct Ipv6Addr { pub vp: u128 }
impl Ipv6Addr { #[verifier::external_body] pub fn new(a: u16, b: u16, c: u16, d: u16, e: u16, f: u16, g: u16, h: u16) -> Ipv6Addr { unimplemented!() } }
pub struct A(pub Ipv4Addr);
pub struct AAAA(pub Ipv6Addr);
impl<'r> BinDecodable<'r> for A {
//%fn crates/proto/src/rr/rdata/a.rs :: impl<'r> BinDecodable<'r> for A :: read
//%sub1 ".into())" => "; Ok(A(vp_ip)) }" # R-shim: Into::into -> the From impl it resolves to (`Self(a)`)
//%sub1 "Ok(Ipv4Addr::new(" => "{ let vp_ip = Ipv4Addr::new(" # R-shim (same rewrite, opening half)
//%contract
        ensures r is Ok ==> final(decoder).idx() == old(decoder).idx() + 4      // used by IpHint<A>::read (unit rdata_loops): progress
//%end
}
impl<'r> BinDecodable<'r> for AAAA {
//%fn crates/proto/src/rr/rdata/aaaa.rs :: impl<'r> BinDecodable<'r> for AAAA :: read
//%sub1 "Ok(Ipv6Addr::new(a, b, c, d, e, f, g, h).into())" => "Ok(AAAA(Ipv6Addr::new(a, b, c, d, e, f, g, h)))" # R-shim: Into::into -> the From impl it resolves to (`Self(aaaa)`)
//%contract
        ensures r is Ok ==> final(decoder).idx() == old(decoder).idx() + 16     // used by IpHint<AAAA>::read (unit rdata_loops): progress
//%end
}

// ---------- MX / SRV / SOA / NAPTR / HINFO ----------
pub struct MX { pub vp: u64 }
impl MX { #[verifier::external_body] pub fn new(p: u16, n: Name) -> MX { unimplemented!() } }
impl<'r> BinDecodable<'r> for MX {
//%fn crates/proto/src/rr/rdata/mx.rs :: impl<'r> BinDecodable<'r> for MX :: read
//%end
}
pub struct SRV { pub vp: u64 }
impl SRV { #[verifier::external_body] pub fn new(p: u16, w: u16, port: u16, n: Name) -> SRV { unimplemented!() } }
impl<'r> BinDecodable<'r> for SRV {
//%fn crates/proto/src/rr/rdata/srv.rs :: impl<'r> BinDecodable<'r> for SRV :: read
//%end
}
//%struct crates/proto/src/rr/rdata/soa.rs :: SOA
//%end
impl<'r> BinDecodable<'r> for SOA {
//%fn crates/proto/src/rr/rdata/soa.rs :: impl<'r> BinDecodable<'r> for SOA :: read
//%end
}
pub struct NAPTR { pub vp: u64 }
impl NAPTR { #[verifier::external_body] pub fn new(o: u16, p: u16, f: VpBoxedBytes, s: VpBoxedBytes, r: VpBoxedBytes, n: Name) -> NAPTR { unimplemented!() } }
// naptr.rs::verify_flags: `flags.iter().all(|c| matches!(c, b'0'..=b'9' | b'a'..=b'z' | b'A'..=b'Z'))` -- a total predicate
#[verifier::external_body] pub fn verify_flags(flags: &[u8]) -> bool { unimplemented!() }
impl<'r> BinDecodable<'r> for NAPTR {
//%fn crates/proto/src/rr/rdata/naptr.rs :: impl<'r> BinDecodable<'r> for NAPTR :: read
//%sub ".to_vec().into_boxed_slice()" => ".vp_to_boxed()" # R-shim: copy of the bytes into a Box<[u8]>
//%sub1 "|s| verify_flags(s)" => "|s: &&[u8]| -> (b: bool) { verify_flags(*s) }" # R-clo: typed closure
//%sub1 "|_| DecodeError::NaptrFlagsInvalid" => "|vp_s: &[u8]| -> (e: DecodeError) { DecodeError::NaptrFlagsInvalid }" # R-clo: `_` closure parameter named
//%end
}
pub struct HINFO { pub cpu: VpBoxedBytes, pub os: VpBoxedBytes }
impl<'r> BinDecodable<'r> for HINFO {
//%fn crates/proto/src/rr/rdata/hinfo.rs :: impl<'r> BinDecodable<'r> for HINFO :: read
//%sub ".to_vec() .into_boxed_slice()" => ".vp_to_boxed()" # R-shim: copy of the bytes into a Box<[u8]>
//%end
}

// ---------- NULL / OPENPGPKEY / SSHFP / TLSA / SMIMEA / CERT ----------
pub struct NULL { pub anything: Vec<u8> }
impl NULL {
    pub fn new() -> NULL { NULL { anything: Vec::new() } }
    pub fn with(anything: Vec<u8>) -> NULL { NULL { anything } }
}
impl<'r> RecordDataDecodable<'r> for NULL {
//%fn crates/proto/src/rr/rdata/null.rs :: impl<'r> RecordDataDecodable<'r> for NULL :: read_data
//%contract
        ensures r is Ok && final(decoder).idx() == old(decoder).buf().len(),     // NULL / Unknown consume the whole RDATA
//%end
}
pub struct OPENPGPKEY { pub public_key: Vec<u8> }
impl OPENPGPKEY { pub fn new(public_key: Vec<u8>) -> OPENPGPKEY { OPENPGPKEY { public_key } } }
impl<'r> RecordDataDecodable<'r> for OPENPGPKEY {
//%fn crates/proto/src/rr/rdata/openpgpkey.rs :: impl<'r> RecordDataDecodable<'r> for OPENPGPKEY :: read_data
//%end
}
// one-octet code enums (sshfp.rs / tlsa.rs): `impl From<u8>` is a total match with catch-all variants; ASSUMED total
pub struct SshfpAlgorithm(pub u8);
pub struct FingerprintType(pub u8);
pub struct CertUsage(pub u8);
pub struct Selector(pub u8);
pub struct Matching(pub u8);
pub trait VpFromU8: Sized { fn vp_from(v: u8) -> Self; }
impl VpFromU8 for SshfpAlgorithm { #[verifier::external_body] fn vp_from(v: u8) -> Self { unimplemented!() } }
impl VpFromU8 for FingerprintType { #[verifier::external_body] fn vp_from(v: u8) -> Self { unimplemented!() } }
impl VpFromU8 for CertUsage { #[verifier::external_body] fn vp_from(v: u8) -> Self { unimplemented!() } }
impl VpFromU8 for Selector { #[verifier::external_body] fn vp_from(v: u8) -> Self { unimplemented!() } }
impl VpFromU8 for Matching { #[verifier::external_body] fn vp_from(v: u8) -> Self { unimplemented!() } }
pub fn vp_into<T: VpFromU8>(v: u8) -> T { T::vp_from(v) }
pub struct SSHFP { pub vp: u64 }
impl SSHFP { #[verifier::external_body] pub fn new(a: SshfpAlgorithm, t: FingerprintType, f: Vec<u8>) -> SSHFP { unimplemented!() } }
impl<'r> RecordDataDecodable<'r> for SSHFP {
//%fn crates/proto/src/rr/rdata/sshfp.rs :: impl<'r> RecordDataDecodable<'r> for SSHFP :: read_data
//%sub "decoder.read_u8()?.unverified().into()" => "vp_into(decoder.read_u8()?.unverified())" # R-shim: Into::into -> the From<u8> impl it resolves to (assumed total)
//%end
}
//%struct crates/proto/src/rr/rdata/tlsa.rs :: TLSA
//%end
impl RecordDataDecodable<'_> for TLSA {
//%fn crates/proto/src/rr/rdata/tlsa.rs :: impl RecordDataDecodable<'_> for TLSA :: read_data
//%sub "decoder.read_u8()?.unverified().into()" => "vp_into(decoder.read_u8()?.unverified())" # R-shim: Into::into -> From<u8> (assumed total)
//%end
}
pub struct SMIMEA(pub TLSA);
impl RecordDataDecodable<'_> for SMIMEA {
//%fn crates/proto/src/rr/rdata/smimea.rs :: impl RecordDataDecodable<'_> for SMIMEA :: read_data
//%sub1 ".map(Self)" => ".map(|v: TLSA| -> (o: SMIMEA) { SMIMEA(v) })" # R-shim: tuple-struct constructor used as a function value is eta-expanded
//%end
}
pub struct CertType(pub u16);
impl CertType { #[verifier::external_body] pub fn from(v: u16) -> CertType { unimplemented!() } }
pub mod cert { use super::*; pub struct Algorithm(pub u8);
    impl Algorithm { #[verifier::external_body] pub fn from(v: u8) -> Algorithm { unimplemented!() } } }
impl<'r> BinDecodable<'r> for CertType {
//%fn crates/proto/src/rr/rdata/cert.rs :: impl<'r> BinDecodable<'r> for CertType :: read
//%end
}
impl<'r> BinDecodable<'r> for cert::Algorithm {
//%fn crates/proto/src/rr/rdata/cert.rs :: impl<'r> BinDecodable<'r> for Algorithm :: read
//%end
}
pub struct CERT { pub cert_type: CertType, pub key_tag: u16, pub algorithm: cert::Algorithm, pub cert_data: Vec<u8> }
impl<'r> RecordDataDecodable<'r> for CERT {
//%fn crates/proto/src/rr/rdata/cert.rs :: impl<'r> RecordDataDecodable<'r> for CERT :: read_data
//%sub1 "Algorithm::read(decoder)" => "cert::Algorithm::read(decoder)" # R-sel: cert.rs has its own `Algorithm`, kept apart from dnssec::Algorithm by a module
//%end
}

// ---------- CAA ----------
pub struct VpString { pub n: usize }
impl VpString {
    #[verifier::external_body] pub fn with_capacity(n: usize) -> VpString { unimplemented!() }
    #[verifier::external_body] pub fn push(&mut self, c: char) { unimplemented!() }
}
//%fn crates/proto/src/rr/rdata/caa.rs :: read_tag
//%sub1 "Result<String, DecodeError>" => "Result<VpString, DecodeError>" # R-shim: alloc::string::String (with_capacity/push only) -> opaque stand-in
//%sub1 "String::with_capacity(len)" => "VpString::with_capacity(len)" # R-shim
//%sub1 ".map(char::from)" => ".map(|b: u8| -> (c: char) { b as char })" # R-shim: `char::from` as a function value (u8 -> char is the cast)
//%sub "|_| DecodeError::CaaTagInvalid" => "|vp_x| -> (e: DecodeError) { DecodeError::CaaTagInvalid }" # R-clo: `_` closure parameter named
//%closure "|len|"@1
|len: u8| -> (o: usize) ensures o == len as usize
//%closure "|len|"@2
|len: &usize| -> (b: bool)
//%closure "|ch|"
|ch: &char| -> (b: bool)
//%attr #[verifier::loop_isolation(false)]
//%contract
    requires old(decoder).wf()
    ensures final(decoder).wf(), final(decoder).buf() == old(decoder).buf(), final(decoder).idx() >= old(decoder).idx()
//%forloop "for _ in 0..len"
        invariant decoder.wf(), decoder.buf() == old(decoder).buf(), decoder.idx() >= old(decoder).idx(),
            vp_it0.obeys_prophetic_iter_laws(), vp_it0.decrease() is Some,
        decreases vp_it0.decrease().unwrap()
//%end
pub struct CAA { pub issuer_critical: bool, pub reserved_flags: u8, pub tag: VpString, pub value: Vec<u8> }
impl<'r> RecordDataDecodable<'r> for CAA {
//%fn crates/proto/src/rr/rdata/caa.rs :: impl<'r> RecordDataDecodable<'r> for CAA :: read_data
//%end
}

// ---------- TSIG ----------
pub struct TsigAlgorithm { pub vp: u64 }
impl TsigAlgorithm { #[verifier::external_body] pub fn from_name(n: Name) -> TsigAlgorithm { unimplemented!() } }
impl BinDecodable<'_> for TsigAlgorithm {
//%fn crates/proto/src/rr/rdata/tsig.rs :: impl BinDecodable<'_> for TsigAlgorithm :: read
//%end
}
pub struct TsigError(pub u16);
impl TsigError { #[verifier::external_body] pub fn from(v: u16) -> TsigError { unimplemented!() } }
//%struct crates/proto/src/rr/rdata/tsig.rs :: TSIG
//%end
impl<'r> RecordDataDecodable<'r> for TSIG {
//%fn crates/proto/src/rr/rdata/tsig.rs :: impl<'r> RecordDataDecodable<'r> for TSIG :: read_data
//%closure "|&size|"@1
|vp_size: &u16| -> (b: bool)
@body: let size = *vp_size;
//%closure "|&size|"@2
|vp_size: &u16| -> (b: bool)
@body: let size = *vp_size;
//%mutant mac_bound_unchecked "decoder.read_vec(mac_size as usize)?" => "decoder.read_vec(mac_size as usize + usize::MAX)?"
//%closure "||"
|| -> (e: DecodeError)
//%closure "|size|"@1
|size: u16| -> (e: DecodeError)
//%closure "|size|"@2
|size: u16| -> (e: DecodeError)
//%entry
        proof { axiom_slice_len_isize(decoder.buffer); }
//%end
}

// ---------- CNAME / NS / PTR / ANAME: one macro (`name_rdata!`, rr/rdata/name.rs) generates the four decoders;
//            the macro's `read` body is extracted from the macro definition once per type (`$name` = the type) ----------
pub struct CNAME(pub Name);
impl<'r> BinDecodable<'r> for CNAME {
//%fn crates/proto/src/rr/rdata/name.rs :: impl<'r> BinDecodable<'r> for $name :: read
//%sub1 ".map(Self)" => ".map(|v: Name| -> (o: CNAME) { CNAME(v) })" # R-shim: tuple-struct constructor used as a function value is eta-expanded (`$name` = CNAME)
//%end
}
pub struct NS(pub Name);
impl<'r> BinDecodable<'r> for NS {
//%fn crates/proto/src/rr/rdata/name.rs :: impl<'r> BinDecodable<'r> for $name :: read
//%sub1 ".map(Self)" => ".map(|v: Name| -> (o: NS) { NS(v) })" # R-shim: tuple-struct constructor used as a function value is eta-expanded (`$name` = NS)
//%end
}
pub struct PTR(pub Name);
impl<'r> BinDecodable<'r> for PTR {
//%fn crates/proto/src/rr/rdata/name.rs :: impl<'r> BinDecodable<'r> for $name :: read
//%sub1 ".map(Self)" => ".map(|v: Name| -> (o: PTR) { PTR(v) })" # R-shim: tuple-struct constructor used as a function value is eta-expanded (`$name` = PTR)
//%end
}
pub struct ANAME(pub Name);
impl<'r> BinDecodable<'r> for ANAME {
//%fn crates/proto/src/rr/rdata/name.rs :: impl<'r> BinDecodable<'r> for $name :: read
//%sub1 ".map(Self)" => ".map(|v: Name| -> (o: ANAME) { ANAME(v) })" # R-shim: tuple-struct constructor used as a function value is eta-expanded (`$name` = ANAME)
//%end
}

// ---------- small code readers (the real ones; other units use their contracts) ----------
#[derive(Clone, Copy, PartialEq, Eq)]
//%enum crates/proto/src/rr/record_type.rs :: RecordType
//%end
impl RecordType {
//%fn crates/proto/src/rr/record_type.rs :: impl RecordType :: is_dnssec
//%contract
        ensures r == (self is DNSKEY || self is CDNSKEY || self is CDS || self is DS || self is KEY || self is NSEC
            || self is NSEC3 || self is NSEC3PARAM || self is RRSIG || self is SIG || self is TSIG)
//%end
    // record_type.rs `impl From<u16> for RecordType` / `impl From<RecordType> for u16`: total matches (ASSUMED total)
    #[verifier::external_body] pub fn from(v: u16) -> RecordType { unimplemented!() }
    #[verifier::external_body] pub fn vp_to_u16(self) -> u16 { unimplemented!() }
}
impl BinDecodable<'_> for RecordType {
//%fn crates/proto/src/rr/record_type.rs :: impl BinDecodable<'_> for RecordType :: read
//%sub1 ".map( Restrict::unverified, )" => ".map(|v: Restrict<u16>| -> (o: u16) ensures o == v.0 { v.unverified() })" # R-shim: method path used as a function value is eta-expanded
//%sub1 ".map(Self::from)" => ".map(|v: u16| -> (o: RecordType) { RecordType::from(v) })" # R-shim: eta-expanded
//%contract
        ensures match r { Ok(_) => final(decoder).idx() == old(decoder).idx() + 2, Err(_) => final(decoder).idx() == old(decoder).idx() }
//%end
}
#[derive(Clone, Copy)] pub struct DNSClass(pub u16);
impl DNSClass { #[verifier::external_body] pub fn from(v: u16) -> DNSClass { unimplemented!() } }
impl BinDecodable<'_> for DNSClass {
//%fn crates/proto/src/rr/dns_class.rs :: impl BinDecodable<'_> for DNSClass :: read
//%contract
        ensures match r { Ok(_) => final(decoder).idx() == old(decoder).idx() + 2, Err(_) => final(decoder).idx() == old(decoder).idx() }
//%end
}
#[derive(Clone, Copy)] pub struct Algorithm(pub u8);
impl Algorithm { #[verifier::external_body] pub fn from_u8(v: u8) -> Algorithm { unimplemented!() } }
impl<'r> BinDecodable<'r> for Algorithm {
//%fn crates/proto/src/dnssec/algorithm.rs :: impl<'r> BinDecodable<'r> for Algorithm :: read
//%end
}

// ---------- CDNSKEY / CDS / KEY / RRSIG / NSEC3PARAM / HTTPS ----------
pub struct CDNSKEY { pub vp: u64 }
impl CDNSKEY { #[verifier::external_body] pub fn with_flags(flags: u16, algorithm: Option<Algorithm>, public_key: Vec<u8>) -> CDNSKEY { unimplemented!() } }
impl<'r> RecordDataDecodable<'r> for CDNSKEY {
//%fn crates/proto/src/dnssec/rdata/cdnskey.rs :: impl<'r> RecordDataDecodable<'r> for CDNSKEY :: read_data
//%sub1 ".map_err(DecodeError::DnsKeyProtocolNot3)" => ".map_err(|p: u8| -> (e: DecodeError) { DecodeError::DnsKeyProtocolNot3(p) })" # R-shim: eta-expanded constructor
//%closure "|protocol|"
|protocol: &u8| -> (b: bool)
//%end
}
#[derive(Clone, Copy)] pub struct DigestType(pub u8);
impl DigestType { #[verifier::external_body] pub fn from(v: u8) -> DigestType { unimplemented!() } }
pub struct CDS { pub vp: u64 }
impl CDS { #[verifier::external_body] pub fn new(key_tag: u16, a: Option<Algorithm>, d: DigestType, digest: Vec<u8>) -> CDS { unimplemented!() } }
impl<'r> RecordDataDecodable<'r> for CDS {
//%fn crates/proto/src/dnssec/rdata/cds.rs :: impl<'r> RecordDataDecodable<'r> for CDS :: read_data
//%end
}
// key.rs: KeyTrust / KeyUsage / UpdateScope `From<u16>`, Protocol `From<u8>`: total matches on masked bits (ASSUMED total)
pub struct KeyTrust(pub u16);  impl KeyTrust { #[verifier::external_body] pub fn from(v: u16) -> KeyTrust { unimplemented!() } }
pub struct KeyUsage(pub u16);  impl KeyUsage { #[verifier::external_body] pub fn from(v: u16) -> KeyUsage { unimplemented!() } }
pub struct UpdateScope(pub u16);  impl UpdateScope { #[verifier::external_body] pub fn from(v: u16) -> UpdateScope { unimplemented!() } }
pub struct Protocol(pub u8);  impl Protocol { #[verifier::external_body] pub fn from(v: u8) -> Protocol { unimplemented!() } }
//%struct crates/proto/src/dnssec/rdata/key.rs :: KEY
//%end
impl KEY {
//%fn crates/proto/src/dnssec/rdata/key.rs :: impl KEY :: new
//%end
}
impl<'r> RecordDataDecodable<'r> for KEY {
//%fn crates/proto/src/dnssec/rdata/key.rs :: impl<'r> RecordDataDecodable<'r> for KEY :: read_data
//%sub1 ".map_err(DecodeError::KeyFlagsReserved)" => ".map_err(|f: u16| -> (e: DecodeError) { DecodeError::KeyFlagsReserved(f) })" # R-shim: eta-expanded constructor
//%sub1 "|flags| { flags & 0b0010_1100_1111_0000 == 0 }" => "|flags: &u16| -> (b: bool) { *flags & 0b0010_1100_1111_0000 == 0 }" # R-clo + R-shim: typed closure, BitAnd on a &u16 operand written with an explicit deref
//%end
}
#[derive(Clone, Copy)] pub struct Nsec3HashAlgorithm(pub u8);
impl Nsec3HashAlgorithm {
    // nsec3.rs: TryFrom<u8>: 1 => SHA1, anything else => Err(UnknownNsec3HashAlgorithm)
    #[verifier::external_body] pub fn try_from(v: u8) -> (r: Result<Nsec3HashAlgorithm, DecodeError>) { unimplemented!() }
}
pub struct NSEC3PARAM { pub vp: u64 }
impl NSEC3PARAM { #[verifier::external_body] pub fn new(a: Nsec3HashAlgorithm, opt_out: bool, iterations: u16, salt: Vec<u8>) -> NSEC3PARAM { unimplemented!() } }
impl<'r> BinDecodable<'r> for NSEC3PARAM {
//%fn crates/proto/src/dnssec/rdata/nsec3param.rs :: impl<'r> BinDecodable<'r> for NSEC3PARAM :: read
//%sub1 ".map_err(DecodeError::UnrecognizedNsec3Flags)" => ".map_err(|f: u8| -> (e: DecodeError) { DecodeError::UnrecognizedNsec3Flags(f) })" # R-shim: eta-expanded constructor
//%sub1 "|flags| flags & 0b1111_1110 == 0" => "|flags: &u8| -> (b: bool) { *flags & 0b1111_1110 == 0 }" # R-clo + R-shim
//%closure "|u|"
|u: u8| -> (o: usize) ensures o == u as usize
//%closure "|salt_len|"@1
|salt_len: &usize| -> (b: bool)
//%closure "|salt_len|"@2
|salt_len: usize| -> (e: DecodeError)
//%end
}

// ---------- decoders proved in other units (rdata_loops: TXT, OPT, SVCB; rdata_dnssec: CSYNC, DNSKEY, DS, NSEC,
//            NSEC3, SIG): the trait contract proved there is assumed here ----------
pub struct TXT { pub vp: u64 }
impl<'r> RecordDataDecodable<'r> for TXT { #[verifier::external_body] fn read_data(decoder: &mut BinDecoder<'r>) -> (r: Result<Self, DecodeError>) { unimplemented!() } }
pub struct OPT { pub vp: u64 }
impl<'r> RecordDataDecodable<'r> for OPT { #[verifier::external_body] fn read_data(decoder: &mut BinDecoder<'r>) -> (r: Result<Self, DecodeError>) { unimplemented!() } }
pub struct SVCB { pub vp: u64 }
impl<'r> RecordDataDecodable<'r> for SVCB { #[verifier::external_body] fn read_data(decoder: &mut BinDecoder<'r>) -> (r: Result<Self, DecodeError>) { unimplemented!() } }
pub struct CSYNC { pub vp: u64 }
impl<'r> RecordDataDecodable<'r> for CSYNC { #[verifier::external_body] fn read_data(decoder: &mut BinDecoder<'r>) -> (r: Result<Self, DecodeError>) { unimplemented!() } }
pub struct DNSKEY { pub vp: u64 }
impl<'r> RecordDataDecodable<'r> for DNSKEY { #[verifier::external_body] fn read_data(decoder: &mut BinDecoder<'r>) -> (r: Result<Self, DecodeError>) { unimplemented!() } }
pub struct DS { pub vp: u64 }
impl<'r> RecordDataDecodable<'r> for DS { #[verifier::external_body] fn read_data(decoder: &mut BinDecoder<'r>) -> (r: Result<Self, DecodeError>) { unimplemented!() } }
pub struct NSEC { pub vp: u64 }
impl<'r> RecordDataDecodable<'r> for NSEC { #[verifier::external_body] fn read_data(decoder: &mut BinDecoder<'r>) -> (r: Result<Self, DecodeError>) { unimplemented!() } }
pub struct NSEC3 { pub vp: u64 }
impl<'r> RecordDataDecodable<'r> for NSEC3 { #[verifier::external_body] fn read_data(decoder: &mut BinDecoder<'r>) -> (r: Result<Self, DecodeError>) { unimplemented!() } }
pub struct SIG { pub vp: u64 }
impl<'r> RecordDataDecodable<'r> for SIG { #[verifier::external_body] fn read_data(decoder: &mut BinDecoder<'r>) -> (r: Result<Self, DecodeError>) { unimplemented!() } }

pub struct RRSIG(pub SIG);
impl<'r> RecordDataDecodable<'r> for RRSIG {
//%fn crates/proto/src/dnssec/rdata/rrsig.rs :: impl<'r> RecordDataDecodable<'r> for RRSIG :: read_data
//%sub1 ".map(Self)" => ".map(|v: SIG| -> (o: RRSIG) { RRSIG(v) })" # R-shim: eta-expanded constructor
//%end
}
pub struct HTTPS(pub SVCB);
impl<'r> RecordDataDecodable<'r> for HTTPS {
//%fn crates/proto/src/rr/rdata/https.rs :: impl<'r> RecordDataDecodable<'r> for HTTPS :: read_data
//%sub1 ".map(Self)" => ".map(|v: SVCB| -> (o: HTTPS) { HTTPS(v) })" # R-shim: eta-expanded constructor
//%end
}

// ---------- the DNSSEC dispatcher: its last arm is `panic!("not a dnssec RecordType")` ----------
pub enum DNSSECRData { CDNSKEY(CDNSKEY), CDS(CDS), DNSKEY(DNSKEY), DS(DS), KEY(KEY), NSEC(NSEC), NSEC3(NSEC3), NSEC3PARAM(NSEC3PARAM), RRSIG(RRSIG), SIG(SIG), Unknown { code: u16, rdata: NULL } }
pub open spec fn dnssec_arm(t: RecordType) -> bool {
    t is CDNSKEY || t is CDS || t is DNSKEY || t is DS || t is KEY || t is NSEC || t is NSEC3 || t is NSEC3PARAM || t is RRSIG || t is SIG
}
impl DNSSECRData {
//%fn crates/proto/src/dnssec/rdata/mod.rs :: impl DNSSECRData :: read
//%sub ". map ( Self :: __ID1 )" => ".map(|v: __ID1| -> (o: DNSSECRData) ensures o == DNSSECRData::__ID1(v) { DNSSECRData::__ID1(v) })" # R-shim: enum constructor used as a function value is eta-expanded
//%sub1 "panic!(\"not a dnssec RecordType: {}\", r);" => "assert(false); vstd::pervasive::unreached()" # R-ann: panic! becomes the proof obligation that the arm is unreachable
//%mutant key_arm_missing "RecordType::KEY =>" => "RecordType::ZERO =>"
//%contract
        requires old(decoder).wf(), dnssec_arm(record_type)      // C01: no message may reach the panic! arm
        ensures final(decoder).wf(), final(decoder).buf() == old(decoder).buf(), final(decoder).idx() >= old(decoder).idx(),
            r matches Ok(d) ==> ((d is SIG) == (record_type is SIG)) && !(d is Unknown),
//%end
}

// ---------- RData::read ----------
pub type DNSSEC = DNSSECRData;
pub enum RData { A(A), AAAA(AAAA), ANAME(ANAME), CAA(CAA), CERT(CERT), CNAME(CNAME), CSYNC(CSYNC), HINFO(HINFO), HTTPS(HTTPS), MX(MX), NAPTR(NAPTR),
    NULL(NULL), NS(NS), OPENPGPKEY(OPENPGPKEY), OPT(OPT), PTR(PTR), SMIMEA(SMIMEA), SOA(SOA), SRV(SRV), SSHFP(SSHFP), SVCB(SVCB), TLSA(TLSA),
    TSIG(TSIG), TXT(TXT), DNSSEC(DNSSECRData), Unknown { code: RecordType, rdata: NULL }, Update0(RecordType), ZERO }
impl RData {
//%fn crates/proto/src/rr/record_data.rs :: impl RData :: read
//%sub ". map ( Self :: __ID1 )" => ".map(|v: __ID1| -> (o: RData) ensures o == RData::__ID1(v) { RData::__ID1(v) })" # R-shim: enum constructor used as a function value is eta-expanded (`DNSSEC` is an alias of DNSSECRData)
//%sub1 "rt.into()" => "rt.vp_to_u16()" # R-shim: Into::into -> From<RecordType> for u16 (assumed total)
//%mutant length_check_dropped "if !decoder.is_empty()" => "if false"
//%mutant tsig_arm_after_dnssec_guard "RecordType::TSIG =>" => "RecordType::ZERO =>"
//%closure "|rdata|"
|rdata: NULL| -> (o: RData) ensures o == (RData::Unknown { code: record_type, rdata })
//%before "let read = decoder.index() - start_idx;"
        assert(decoder.wf() && decoder.idx() >= start_idx);     // the subtraction below cannot underflow
//%before "result }"
        assert(decoder.idx() == decoder.buf().len());           // C01: Ok only when the RDATA was consumed exactly
//%contract
        requires decoder.wf()
        ensures r matches Ok(d) ==> ((d is OPT) == (record_type is OPT)) && ((d is TSIG) == (record_type is TSIG))
            && ((d matches RData::DNSSEC(DNSSECRData::SIG(_))) == (record_type is SIG)) && !(d is Update0),
//%end
}

} // verus!
fn main() {}
