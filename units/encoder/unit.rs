//%unit encoder
//%features std
use vstd::prelude::*;
use vstd::std_specs::iter::IteratorSpec;
verus! {
//%include ../common/decoder.rs
//%include ../common/error.rs
//%include ../common/encoder.rs
} // verus!
fn main() {}
