//%unit mux_verify
//%features std __dnssec dnssec-ring
use vstd::prelude::*;
verus! {
// ---- C13 kernel: "the reply is then signed so that the client-side verifier accepts it and rejects any modified reply" on a
//      multiplexed stream connection (xfer/dns_multiplexer.rs::DnsMultiplexer::poll_next, the statement range that completes
//      a pending request with a response). A request sent with a TSIG signer carries a TSigVerifier; EVERY message routed to
//      that request -- a zone transfer answers with many -- must go through it, so the verifier has to stay with the request. ----
pub struct DnsResponse { pub id: u64 }
impl DnsResponse { #[verifier::external_body] pub fn as_buffer(&self) -> (r: &[u8]) { unimplemented!() } }
pub struct ProtoError { pub vp: u64 }
pub struct NetError { pub vp: u64 }
pub struct TSigVerifier { pub state: u64 }
pub uninterp spec fn vp_verify_spec(v: TSigVerifier, buf: Seq<u8>) -> (Result<DnsResponse, ProtoError>, TSigVerifier);
impl TSigVerifier {
    // TSigVerifier::verify (contract proved in unit tsig_kernels): a function of the verifier's chain state and the bytes
    #[verifier::external_body]
    pub fn verify(&mut self, bytes: &[u8]) -> (r: Result<DnsResponse, ProtoError>)
        ensures (r, *final(self)) == vp_verify_spec(*old(self), bytes@)
    { unimplemented!() }
}
// Result::map_err(NetError::from)
#[verifier::external_body]
pub fn vp_map_err(r: Result<DnsResponse, ProtoError>) -> (o: Result<DnsResponse, NetError>)
    ensures r is Ok == o is Ok, r matches Ok(x) ==> o == Ok::<DnsResponse, NetError>(x)
{ unimplemented!() }
pub struct VpSendError;
// the oneshot-like channel back to the caller: `sent` is the log of what was handed over
pub struct VpCompletion { pub sent: Ghost<Seq<Result<DnsResponse, NetError>>> }
impl VpCompletion {
    #[verifier::external_body]
    pub fn try_send(&mut self, m: Result<DnsResponse, NetError>) -> (r: Result<(), VpSendError>)
        ensures final(self).sent@ == old(self).sent@.push(m)
    { unimplemented!() }
}
pub fn ignore_send(r: Result<(), VpSendError>) {}
pub struct ActiveRequest { pub completion: VpCompletion, pub verifier: Option<TSigVerifier> }
pub struct VpEntry { pub r: ActiveRequest }
impl VpEntry { pub fn get_mut(&mut self) -> (r: &mut ActiveRequest) ensures *r == old(self).r, final(self).r == *final(r) { &mut self.r } }
fn complete_request(request_entry: &mut VpEntry, response: DnsResponse)
    ensures
        // exactly one item is handed to the caller ...
        final(request_entry).r.completion.sent@.len() == old(request_entry).r.completion.sent@.len() + 1,
        // ... with a verifier on the request it is an Ok only if THAT verifier accepted these bytes ...
        old(request_entry).r.verifier matches Some(v) ==> (final(request_entry).r.completion.sent@.last() is Ok ==> vp_verify_spec(v, arbitrary_bytes(response)).0 is Ok),
        // ... and the verifier (with its advanced chain state) stays on the request for the messages that follow
        old(request_entry).r.verifier matches Some(v) ==> final(request_entry).r.verifier == Some(vp_verify_spec(v, arbitrary_bytes(response)).1),
        old(request_entry).r.verifier is None ==> final(request_entry).r.verifier is None && final(request_entry).r.completion.sent@.last() == Ok::<DnsResponse, NetError>(response),
{
//%expr crates/net/src/xfer/dns_multiplexer.rs :: impl<S: DnsClientStream> Stream for DnsMultiplexer<S> :: poll_next :: "let active_request = request_entry.get_mut();" .. "ignore_send(active_request.completion.try_send(Ok(response))); }"
//%sub1 "verifier .verify(response.as_buffer()) .map_err(NetError::from)" => "vp_map_err(verifier.verify(vp_buf(&response)))" # R-shim: Result::map_err with a function item; the response's buffer
//%mutant verifier_consumed_by_the_first_reply "if let Some(verifier) = &mut active_request.verifier {" => "if let Some(mut vp_v) = active_request.verifier.take() { let verifier = &mut vp_v;"
//%end
}
pub uninterp spec fn arbitrary_bytes(r: DnsResponse) -> Seq<u8>;
#[verifier::external_body] pub fn vp_buf(r: &DnsResponse) -> (b: &[u8]) ensures b@ == arbitrary_bytes(*r) { unimplemented!() }
} // verus!
fn main() {}
