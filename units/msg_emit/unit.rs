//%unit msg_emit
//%features std
use vstd::prelude::*;
use vstd::std_specs::iter::IteratorSpec;
verus! {
//%include ../common/decoder.rs
//%include ../common/error.rs
//%include ../common/encoder.rs
//%include ../common/header.rs



// ---- second instantiation of the generic Place<T> machinery: T = Header (the header back-patch) ----
impl<'a> BinEncoder<'a> {
//%fn crates/proto/src/serialize/binary/encoder.rs :: impl<'a> BinEncoder<'a> :: place
//%rename place_header
//%sub1 "<T: EncodedSize>" => "" # R-mono: generic Place<T> verified at the instantiation T = Header
//%sub "T::LEN" => "<Header as EncodedSize>::LEN" # R-mono
//%sub1 "ProtoResult<Place<T>>" => "ProtoResult<Place<Header>>" # R-mono
//%sub1 "phantom: PhantomData," => "phantom: core::marker::PhantomData," # R-sel: path made explicit
//%contract
        requires old(self).wf(), old(self).tight()
        ensures final(self).wf(), final(self).max() == old(self).max(), final(self).name_pointers == old(self).name_pointers,
            match r {
                Ok(p) => p.start_index == old(self).offset && final(self).offset == old(self).offset + 12 && final(self).tight(),
                Err(_) => final(self).offset == old(self).offset && final(self).bytes() == old(self).bytes(),
            }
//%end
}
impl Place<Header> {
//%fn crates/proto/src/serialize/binary/encoder.rs :: impl<T: EncodedSize> Place<T> :: replace
//%sub1 "data: T" => "data: Header" # R-mono
//%sub "T::LEN" => "<Header as EncodedSize>::LEN" # R-mono
//%contract
        requires old(encoder).wf(), self.start_index + 12 <= old(encoder).offset, old(encoder).tight()
        ensures final(encoder).wf(), final(encoder).max() == old(encoder).max(), final(encoder).offset == old(encoder).offset,
            final(encoder).tight(), final(encoder).name_pointers == old(encoder).name_pointers,
            r is Ok,
            hdr_bytes_at(data, final(encoder).bytes(), self.start_index as int, 0xFF),
            forall|i: int| 0 <= i < old(encoder).bytes().len() && !(self.start_index <= i < self.start_index + 12) ==> final(encoder).bytes()[i] == old(encoder).bytes()[i],
//%end
}

// ---- stand-ins for the types emit_message_parts only passes around (their internals are not
//      read by the code under contract; each accessor below is an assumed contract) ----
#[derive(Clone, Copy)]
pub struct Edns { pub rcode_high: u8, pub max_payload: u16, pub vp_rest: u64 }
impl Edns {
//%fn crates/proto/src/op/edns.rs :: impl Edns :: rcode_high
//%contract
        ensures r == self.rcode_high
//%end
//%fn crates/proto/src/op/edns.rs :: impl Edns :: max_payload
//%contract
        ensures r == self.max_payload
//%end
    // assumed contract of Edns::set_rcode_high (returns &mut Self for chaining; the result is unused here)
    #[verifier::external_body]
    pub fn set_rcode_high(&mut self, rcode_high: u8)
        ensures final(self).rcode_high == rcode_high, final(self).max_payload == old(self).max_payload, final(self).vp_rest == old(self).vp_rest
    { self.rcode_high = rcode_high; }
}
// record-level stand-ins: Name / RecordType / DNSClass / RDATA are BinEncodable values whose own emitters
// are NOT extracted here (only the trait-level contract is assumed for them); Record::emit IS extracted
pub struct Name { pub vp: u64 }
#[derive(Clone, Copy)] pub struct RecordType(pub u16);
#[derive(Clone, Copy)] pub struct DNSClass(pub u16);
pub struct RData { pub vp: u64 }
pub struct TSIG { pub vp: u64 }
impl BinEncodable for Name { #[verifier::external_body] fn emit(&self, encoder: &mut BinEncoder<'_>) -> (r: ProtoResult<()>) { unimplemented!() } }
impl BinEncodable for RecordType { #[verifier::external_body] fn emit(&self, encoder: &mut BinEncoder<'_>) -> (r: ProtoResult<()>) { unimplemented!() } }
impl BinEncodable for DNSClass { #[verifier::external_body] fn emit(&self, encoder: &mut BinEncoder<'_>) -> (r: ProtoResult<()>) { unimplemented!() } }
impl BinEncodable for RData { #[verifier::external_body] fn emit(&self, encoder: &mut BinEncoder<'_>) -> (r: ProtoResult<()>) { unimplemented!() } }
impl BinEncodable for TSIG { #[verifier::external_body] fn emit(&self, encoder: &mut BinEncoder<'_>) -> (r: ProtoResult<()>) { unimplemented!() } }
// interface of record_data.rs::RecordData as far as Record::emit uses it
pub trait RecordData: BinEncodable + Sized {
    fn record_type(&self) -> RecordType;
    fn is_update(&self) -> bool;
}
impl RecordData for RData {
    #[verifier::external_body] fn record_type(&self) -> RecordType { unimplemented!() }
    #[verifier::external_body] fn is_update(&self) -> bool { unimplemented!() }
}
impl RecordData for TSIG {
    #[verifier::external_body] fn record_type(&self) -> RecordType { unimplemented!() }
    #[verifier::external_body] fn is_update(&self) -> bool { unimplemented!() }
}
pub struct Record<R: RecordData = RData> { pub name: Name, pub dns_class: DNSClass, pub ttl: u32, pub data: R }
impl<R: RecordData> Record<R> {
    pub fn record_type(&self) -> RecordType { self.data.record_type() }
}
// assumed contract of `impl From<&Edns> for Record` (edns.rs): the OPT pseudo-record carries the
// extended RCODE in the top 8 bits of its TTL field
impl vstd::std_specs::convert::FromSpecImpl<&Edns> for Record<RData> {
    open spec fn obeys_from_spec() -> bool { false }
    uninterp spec fn from_spec(e: &Edns) -> Self;
}
impl<'x> From<&'x Edns> for Record<RData> {
    #[verifier::external_body]
    fn from(value: &'x Edns) -> (r: Self) ensures (r.ttl >> 24) as u8 == value.rcode_high { unimplemented!() }
}
// ---- Record::emit (record.rs): owner, type, class, ttl, RDLENGTH placeholder, RDATA, back-patch ----
// proved against the trait-level contract (so emit_iter may rely on it for every record) plus: the two
// octets of RDLENGTH hold exactly the number of octets the RDATA emitter wrote (C02)
impl<R: RecordData> BinEncodable for Record<R> {
//%fn crates/proto/src/rr/record.rs :: impl<R: RecordData> BinEncodable for Record<R> :: emit
//%sub1 "encoder.place::<u16>()?" => "encoder.place_u16()?" # R-mono: call of the T = u16 instantiation
//%sub1 "encoder.len_since_place(&place)" => "encoder.len_since_place_u16(&place)" # R-mono
//%contract
        ensures old(encoder).tight() && r is Ok ==> exists|p: int| old(encoder).offset <= p && p + 2 <= final(encoder).offset
            && be16(#[trigger] final(encoder).bytes()[p], final(encoder).bytes()[p + 1]) == final(encoder).offset - p - 2,
//%before "Ok(())"
        proof { let p = place.start_index as int; assert(be16(encoder.bytes()[p], encoder.bytes()[p + 1]) == encoder.offset - p - 2); }
//%mutant rdlength_not_patched "place.replace(encoder, len as u16)?;" => ""
//%end
}
// assumed facts about std: a one-element array yields one item
#[verifier::external_body]
pub proof fn axiom_items_array1<T>() ensures forall|a: [T; 1]| #[trigger] vp_items(a) == 1 {}

// R-shim: u16::try_from(usize)
#[verifier::external_body]
pub fn vp_u16_try_from(n: usize) -> (r: Result<u16, ()>)
    ensures match r { Ok(v) => v as int == n as int, Err(_) => n > 0xFFFF }
{ u16::try_from(n).map_err(|_| ()) }

//%fn crates/proto/src/op/message.rs :: fn count_was_truncated
//%contract
    ensures match r {
        Ok((n, t)) => (result matches Ok(c) && c == n as int && !t) || (result matches Err(ProtoError::NotAllRecordsWritten { count }) && count == n as int && t),
        Err(_) => !(result matches Ok(c) && c <= 0xFFFF) && !(result matches Err(ProtoError::NotAllRecordsWritten { count }) && count <= 0xFFFF),
    }
//%sub1 "u16::try_from(count)" => "vp_u16_try_from(count)" # R-shim
//%mutant tc_lost "Err(ProtoError::NotAllRecordsWritten { count }) => (count, true)" => "Err(ProtoError::NotAllRecordsWritten { count }) => (count, false)"
//%end

// interface of message.rs::EmitAndCount with its contract.  The first three lines are what
// emit_iter is proved to guarantee; the last line is an ASSUMPTION on section emitters (every DNS
// question/record occupies at least one octet), needed only to rule out u16 overflow of the counts.
pub trait EmitAndCount {
    fn emit(&mut self, encoder: &mut BinEncoder<'_>) -> (r: ProtoResult<usize>)
        requires old(encoder).wf(), old(encoder).tight()
        ensures final(encoder).wf(), final(encoder).max() == old(encoder).max(),
            (r is Ok || r matches Err(ProtoError::NotAllRecordsWritten { .. })) ==> final(encoder).offset >= old(encoder).offset && final(encoder).tight(),
            forall|i: int| 0 <= i < old(encoder).offset ==> final(encoder).bytes()[i] == old(encoder).bytes()[i],
            r matches Ok(n) ==> old(encoder).offset + n <= final(encoder).offset,
            r matches Err(ProtoError::NotAllRecordsWritten { count }) ==> old(encoder).offset + count <= final(encoder).offset;
}

//%fn crates/proto/src/op/message.rs :: fn emit_message_parts
//%sub1 "encoder.place::<Header>()?" => "encoder.place_header()?" # R-mono: call of the T = Header instantiation
//%sub? "additional_count.1 |= count.1;" => "additional_count.1 = additional_count.1 || count.1;" # R-bor: `|=` on bool is rejected by Verus; `a |= b` == `a = a || b` for side-effect-free operands (applied wherever it occurs)
//%contract
    requires old(encoder).wf(), old(encoder).tight()
    ensures final(encoder).wf(), final(encoder).max() == old(encoder).max(),
        match r {
            Ok(h) =>
                // C03: the finished message has no bytes beyond its logical end, fits the limit (wf),
                // and the 12 octets at its start are the header that is returned
                final(encoder).tight()
                && hdr_bytes_at(h, final(encoder).bytes(), old(encoder).offset as int, 0xFF)
                // TC is never cleared, and everything else in the metadata is passed through
                && (metadata.truncation ==> h.metadata.truncation)
                && h.metadata.id == metadata.id && h.metadata.op_code == metadata.op_code && h.metadata.response_code == metadata.response_code,
            Err(_) => true,
        }
//%after "let query_count = queries.emit(encoder)?;"
    let ghost off_q = encoder.offset;
//%after "let answer_count = count_was_truncated(answers.emit(encoder))?;"
    let ghost t_ans = answer_count.1;
//%after "let authority_count = count_was_truncated(authorities.emit(encoder))?;"
    let ghost t_auth = authority_count.1;
//%after "let mut additional_count = count_was_truncated(additionals.emit(encoder))?;"
    let ghost t_add = additional_count.1;
    let ghost n_add = additional_count.0;
    let ghost mut t_edns = false;
    let ghost mut n_edns = 0int;
    assert(n_add <= encoder.offset - 12);
//%before "let count = count_was_truncated(encoder.emit_iter([&Record::from(&edns)]))?;"
        let vp_rec = Record::from(&edns);
        // C02: the OPT record that is written carries exactly the high bits of THIS message's rcode
        assert(((vp_rec.ttl >> 24) as u8) as int == (rcode_val(metadata.response_code) & 0x0FF0) >> 4);     // C02: obligation
        proof { axiom_items_array1::<&Record<RData>>(); }
//%sub1 "encoder.emit_iter([&Record::from(&edns)])" => "encoder.emit_iter([&vp_rec])" # R-tail: the temporary is let-bound one line earlier so that a proof block can name it
//%before "} else if metadata.response_code.high() > 0"
        proof { t_edns = count.1; n_edns = count.0 as int; }
//%before "let count = match signature"
    proof { axiom_items_array1::<&Record<TSIG>>(); }
    assert(additional_count.0 as int == n_add + n_edns && n_edns <= 1);
//%before "let counts = HeaderCounts"
    // C03: "header counts equal the records present ... TC set whenever a record was dropped"
    assert(additional_count.0 as int == n_add + n_edns + count.0);
    assert(additional_count.1 == (t_add || t_edns || count.1));     // C03: obligation
//%before "let header = Header"
    assert(final_metadata.truncation == (metadata.truncation || t_ans || t_auth || t_add || t_edns || count.1));     // C03: obligation
    assert(!(t_ans || t_auth || t_add || t_edns || count.1) ==> final_metadata.truncation == metadata.truncation);     // C03: obligation
//%mutant tc_overwritten_by_edns "count.0; additional_count.1 |= count.1; } else if" => "count.0; additional_count.1 = count.1; } else if"
//%mutant tc_not_propagated "metadata.truncation || answer_count.1 || authority_count.1 || additional_count.1" => "metadata.truncation || answer_count.1 || authority_count.1"
//%mutant stale_rcode_high "edns.set_rcode_high(metadata.response_code.high());" => "if metadata.response_code.high() > 0 { edns.set_rcode_high(metadata.response_code.high()); }"
//%mutant edns_not_counted "additional_count.0 += count.0;"@1 => ""
//%end
// ---- C03, server side: the SERVFAIL fallback of MessageResponse::encode (statement-range extraction).  When the first
//      encoding attempt fails with an error other than "does not fit", the reply is a bare SERVFAIL header written into
//      the SAME Vec: "decodes with no bytes left over" requires that nothing of the failed attempt survives. ----
#[verifier::external_body]
pub fn vp_reserve_512(buf: &mut Vec<u8>) ensures final(buf)@ == old(buf)@ { if buf.capacity() < 512 { let reserve = 512 - buf.capacity(); buf.reserve(reserve); } }
impl<'a> BinEncoder<'a> {
//%fn crates/proto/src/serialize/binary/encoder.rs :: impl<'a> BinEncoder<'a> :: new
//%contract
        requires old(buf)@.len() <= 0xFFFF
        ensures r.wf(), r.offset == 0, r.bytes() == old(buf)@, r.max() == 0xFFFF, *final(r.buffer.buffer) == *final(buf)
//%end
//%fn crates/proto/src/serialize/binary/encoder.rs :: impl<'a> BinEncoder<'a> :: with_offset
//%sub1 "private::MaximalBuf::new" => "MaximalBuf::new" # R-sel: `mod private` flattened (single-file unit)
//%sub1 "if buf.capacity() < 512 { let reserve = 512 - buf.capacity(); buf.reserve(reserve); }" => "vp_reserve_512(buf);" # R-shim: Vec::capacity / Vec::reserve (capacity only; the contents are unchanged)
//%contract
        requires old(buf)@.len() <= 0xFFFF, offset as int <= old(buf)@.len()
        ensures r.wf_buf(), r.offset == offset, r.bytes() == old(buf)@, r.max() == 0xFFFF, r.name_pointers@.len() == 0, *final(r.buffer.buffer) == *final(buf)
//%end
}
impl Metadata {
//%fn crates/proto/src/op/header.rs :: impl Metadata :: new
//%sub1 "pub const fn" => "pub fn" # R-shim: const fn (Verus: plain fn)
//%contract
        ensures r.id == id, r.message_type == message_type, r.op_code == op_code, r.response_code == ResponseCode::NoError
//%end
}
impl HeaderCounts { pub fn default() -> (r: HeaderCounts) ensures r.queries == 0 && r.answers == 0 && r.authorities == 0 && r.additionals == 0 { HeaderCounts { queries: 0, answers: 0, authorities: 0, additionals: 0 } } }   // #[derive(Default)]
pub struct ResponseInfo { pub header: Header }
impl ResponseInfo { pub fn from(header: Header) -> (r: ResponseInfo) ensures r.header == header { ResponseInfo { header } } }
fn servfail_fallback(vp_bytes: Vec<u8>, id: u16) -> (r: Result<(), ProtoError>)
    requires vp_bytes@.len() <= 0xFFFF
{
    let mut bytes = vp_bytes;
//%expr crates/server/src/zone_handler/message_response.rs :: impl<'q, 'a, A, N, S, D> MessageResponse<'q, 'a, A, N, S, D> where A: Iterator<Item = &'a Record> + Send + 'a, N: Iterator<Item = &'a Record> + Send + 'a, S: Iterator<Item = &'a Record> + Send + 'a, D: Iterator<Item = &'a Record> + Send + 'a, :: encode :: "error!(%error, \"error encoding message\");" .. "header.emit(&mut encoder)?;"
//%mutant failed_attempt_not_cleared "bytes.clear();" => ""
//%mutant fallback_is_not_servfail "metadata.response_code = ResponseCode::ServFail;" => ""
//%end
    // C03 ("decodes with no bytes left over") / C11 (ID echoed): what the encoder -- created on the Vec that is returned
    // to the caller right after this range (`Ok((ResponseInfo::from(header), bytes))`) -- holds now is exactly the 12-octet
    // SERVFAIL header carrying the request's ID.  That `bytes` is the Vec the encoder wrote through is the language's
    // borrow semantics, not re-proved here.
    assert(encoder.bytes().len() == 12);     // C03: obligation
    assert(hdr_bytes_at(header, encoder.bytes(), 0, 0xFF));     // C03: obligation
    assert(header.metadata.id == id && header.metadata.response_code == ResponseCode::ServFail);     // C11: obligation
    Ok(())
}

} // verus!
fn main() {}
