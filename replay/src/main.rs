//! Replay oracles: executable forms of the postconditions the Verus units prove, plus a small input
//! search (exhaustive over tiny sizes, then pseudo-random from the seed).  They run against the REAL
//! code in /repo (path dependency).  They never decide a check; they only try to turn an obligation
//! the verifier could not discharge into a concrete failing input.
//!
//! usage: vp-replay <oracle> <seed>            search; prints `WITNESS {json}` when a failing input is found
//!        vp-replay <oracle> --input <hex>     re-run one recorded input; exit 1 if it still fails
use std::cmp::Ordering;
use std::panic::{catch_unwind, AssertUnwindSafe};
use std::sync::mpsc;
use std::time::Duration;

use hickory_proto::op::{Message, Query};
use hickory_proto::rr::rdata::{SOA, TXT};
use hickory_proto::rr::{Name, RData, Record, RecordType};
use hickory_proto::serialize::binary::{BinDecodable, BinDecoder, BinEncodable, BinEncoder};

struct Rng(u64);
impl Rng {
    fn next(&mut self) -> u64 {
        self.0 ^= self.0 << 13;
        self.0 ^= self.0 >> 7;
        self.0 ^= self.0 << 17;
        self.0
    }
    fn below(&mut self, n: u64) -> u64 { self.next() % n.max(1) }
}

fn hex(b: &[u8]) -> String { b.iter().map(|x| format!("{x:02x}")).collect() }
fn unhex(s: &str) -> Vec<u8> {
    (0..s.len() / 2).map(|i| u8::from_str_radix(&s[2 * i..2 * i + 2], 16).unwrap()).collect()
}

/// run `f` with a watchdog; Err(reason) on panic or on no result within `ms`
fn guarded<T: Send + 'static>(ms: u64, f: impl FnOnce() -> T + Send + 'static) -> Result<T, String> {
    let (tx, rx) = mpsc::channel();
    std::thread::Builder::new().stack_size(16 << 20).spawn(move || {
        let r = catch_unwind(AssertUnwindSafe(f));
        let _ = tx.send(r);
    }).unwrap();
    match rx.recv_timeout(Duration::from_millis(ms)) {
        Ok(Ok(v)) => Ok(v),
        Ok(Err(p)) => Err(format!("panic: {}", p.downcast_ref::<String>().cloned().or_else(|| p.downcast_ref::<&str>().map(|s| s.to_string())).unwrap_or_default())),
        Err(_) => Err(format!("no result within {ms} ms (hang)")),
    }
}

// ---------------------------------------------------------------- C01: decoding is total
fn c01_one(b: &[u8]) -> Vec<String> {
    let mut out = Vec::new();
    let mut d = BinDecoder::new(b);
    if let Ok(n) = Name::read(&mut d) {
        if n.len() > 255 { out.push(format!("name of {} octets", n.len())); }
        for l in n.iter() { if l.len() > 63 { out.push(format!("label of {} octets", l.len())); } }
    }
    let _ = Message::from_vec(b);
    let mut d = BinDecoder::new(b);
    if let Ok(h) = hickory_proto::op::Header::read(&mut d) { let _ = hickory_proto::op::MessageRequest::read(&mut d, h); }
    let mut d = BinDecoder::new(b);
    let _ = Record::<RData>::read(&mut d);
    // the input read as TYPE(2) + RDATA, handed to the RDATA dispatcher directly
    if b.len() >= 2 {
        let rt = hickory_proto::rr::RecordType::from(u16::from_be_bytes([b[0], b[1]]));
        let _ = RData::read(BinDecoder::new(&b[2..]), rt);
    }
    out
}
/// valid RDATA templates (TYPE + RDATA) and their systematic mutations: every truncation, and every single octet
/// replaced by each of a few boundary values
fn c01_rdata_mutations() -> Vec<Vec<u8>> {
    let t: Vec<Vec<u8>> = vec![
        // OPT: ECS option (code 8): family 1, source prefix 24, scope 0, 3 address octets; then NSID, DAU
        unhex("0029000800070001180001020300030002abcd00050003080d0f"),
        // OPT: ECS family 2, source prefix 56
        unhex("00290008000b0002380020010db8000000"),
        // TSIG: algorithm name, time(6) fudge(2) macsize(2)=4 mac oid(2) error(2) otherlen(2)=0
        unhex("00fa0b686d61632d7368613235360000000000012c012c0004deadbeef123400000000"),
        // SVCB: priority 1, target ".", mandatory=[alpn], alpn=["h2"], port, ipv4hint, ech, ipv6hint
        unhex("0040000100000000020001000100030268320003000201bb000400040102030400050002abcd0006001020010db8000000000000000000000001"),
        // NSEC3: alg 1 flags 1 iter 12 saltlen 4 salt hashlen 20 hash bitmap
        unhex("00320101000c04aabbccdd14000102030405060708090a0b0c0d0e0f1011121300064000000002"),
        // NSEC3PARAM, DNSKEY, DS, CDS, CDNSKEY, KEY
        unhex("00330100000c04aabbccdd"), unhex("0030010103080301000100"), unhex("002b3039080201020304"), unhex("003b3039000201020304"), unhex("003c0101030001020304"), unhex("00190100030801020304"),
        // RRSIG / SIG: type covered, alg, labels, ttl, expiration, inception, key tag, signer, signature
        unhex("002e00010d0200000e100000ffff000000013039076578616d706c650001020304"),
        // NSEC / CSYNC
        unhex("002f01610000064000000002"), unhex("003e0000004200030004600000"),
        // CAA, NAPTR, HINFO, TXT, SOA, MX, SRV, CERT, SSHFP, TLSA, A, AAAA, NULL, DLV/TA codes
        unhex("0101000569737375656c657473656e63727970742e6f7267"), unhex("00230064000a0175074532552b7369700021215e2e2a24217369703a696e666f406578616d706c652e636f6d2100"),
        unhex("000d03415243054c494e5558"), unhex("00100568656c6c6f05776f726c64"), unhex("0006026e7300026861000000000100000e10000002580001518000000e10"),
        unhex("000f000a046d61696c00"), unhex("00210001000201bb0377777700"), unhex("002500010001080102030405"), unhex("002c01010102030405"), unhex("003403010101020304"),
        unhex("000101020304"), unhex("001c20010db8000000000000000000000001"), unhex("000a0102"), unhex("80000102"), unhex("80010102"),
    ];
    let vals = [0x00u8, 0x01, 0x07, 0x3f, 0x40, 0x7f, 0x80, 0xc0, 0xf8, 0xf9, 0xff];
    let mut all = Vec::new();
    for tpl in &t {
        for n in 2..=tpl.len() { all.push(tpl[..n].to_vec()); }
        for i in 2..tpl.len() { for v in vals { if tpl[i] != v { let mut m = tpl.clone(); m[i] = v; all.push(m); } } }
    }
    all
}
fn c01_check(bytes: &[u8]) -> Result<(), String> {
    let b = bytes.to_vec();
    guarded(3000, move || c01_one(&b)).and_then(|v| if v.is_empty() { Ok(()) } else { Err(v.join("; ")) })
}
/// check a batch in ONE worker thread (a thread per input is too slow); the worker publishes the index
/// it is working on, so a hang is attributed to the right input
fn c01_batch(inputs: Vec<Vec<u8>>) -> Option<(Vec<u8>, String)> {
    use std::sync::atomic::{AtomicUsize, Ordering as AO};
    use std::sync::Arc;
    let n = inputs.len();
    let cur = Arc::new(AtomicUsize::new(0));
    let inputs = Arc::new(inputs);
    let (tx, rx) = mpsc::channel::<(usize, String)>();
    let (c2, i2) = (cur.clone(), inputs.clone());
    std::thread::Builder::new().stack_size(16 << 20).spawn(move || {
        for (k, b) in i2.iter().enumerate() {
            c2.store(k, AO::SeqCst);
            match catch_unwind(AssertUnwindSafe(|| c01_one(b))) {
                Ok(v) if v.is_empty() => {}
                Ok(v) => { let _ = tx.send((k, v.join("; "))); return; }
                Err(p) => { let _ = tx.send((k, format!("panic: {}", p.downcast_ref::<String>().cloned().or_else(|| p.downcast_ref::<&str>().map(|s| s.to_string())).unwrap_or_default()))); return; }
            }
        }
        c2.store(n, AO::SeqCst);
        let _ = tx.send((n, String::new()));
    }).unwrap();
    let mut last = (usize::MAX, std::time::Instant::now());
    loop {
        match rx.recv_timeout(Duration::from_millis(500)) {
            Ok((k, _)) if k == n => return None,
            Ok((k, why)) => return Some((inputs[k].clone(), why)),
            Err(_) => {
                let k = cur.load(AO::SeqCst);
                if k != last.0 { last = (k, std::time::Instant::now()); }
                else if last.1.elapsed() > Duration::from_millis(4000) { return Some((inputs[k].clone(), "no result within 4000 ms (hang)".into())); }
            }
        }
    }
}

fn c01_search(seed: u64) -> Option<(Vec<u8>, String)> {
    let alpha: [u8; 10] = [0x00, 0x01, 0x02, 0x0c, 0x29, 0x3f, 0x40, 0xc0, 0xc1, 0xff];
    let mut all: Vec<Vec<u8>> = Vec::new();
    // exhaustive: all strings of length <= 4 over the alphabet
    for len in 1..=4usize {
        let mut idx = vec![0usize; len];
        loop {
            all.push(idx.iter().map(|&i| alpha[i]).collect());
            let mut k = 0;
            while k < len { idx[k] += 1; if idx[k] < alpha.len() { break; } idx[k] = 0; k += 1; }
            if k == len { break; }
        }
    }
    all.extend(c01_rdata_mutations());
    // structured: 12-byte header (varied opcode/counts) followed by names built from labels/pointers, then records
    let mut r = Rng(seed.wrapping_mul(0x9E3779B97F4A7C15) | 1);
    for _ in 0..60000 {
        let mut b = Vec::new();
        let with_header = r.below(4) != 0;
        if with_header {
            b.extend_from_slice(&[(r.next() & 0xff) as u8, (r.next() & 0xff) as u8]);
            let opcode = [0u8, 5, 4, 2][r.below(4) as usize];
            b.push((opcode << 3) | (r.below(2) as u8) << 7);
            b.push(0);
            for _ in 0..4 { b.push(0); b.push(r.below(3) as u8); }
        }
        let pieces = 1 + r.below(6);
        for _ in 0..pieces {
            match r.below(10) {
                0..=3 => { let l = [1u64, 2, 62, 63, 64][r.below(5) as usize].min(1 + r.below(64)); b.push(l as u8); for _ in 0..l { b.push(b'a' + r.below(26) as u8); } }
                4 | 5 => { let t = r.below((b.len() as u64 + 4).max(1)); b.push(0xc0 | ((t >> 8) as u8 & 0x3f)); b.push(t as u8); }
                6 => b.push(0),
                7 => { // a record tail: type class ttl rdlength rdata
                    let ty = [1u16, 2, 5, 6, 10, 16, 41, 47, 50, 62, 64, 65, 250, 257, 46, 48, 43][r.below(17) as usize];
                    b.extend_from_slice(&ty.to_be_bytes()); b.extend_from_slice(&[0, 1, 0, 0, 0, 1]);
                    let rl = r.below(40) as u16 * (r.below(3) as u16); b.extend_from_slice(&rl.to_be_bytes());
                    for _ in 0..rl { b.push(match r.below(4) { 0 => 0, 1 => 0x21, 2 => 0xff, _ => (r.next() & 0xff) as u8 }); }
                }
                _ => { for _ in 0..r.below(6) { b.push(alpha[r.below(10) as usize]); } }
            }
        }
        all.push(b);
    }
    c01_batch(all)
}

fn c01_bitmap_search(seed: u64) -> Option<(Vec<u8>, String)> {
    // CSYNC RDATA = serial(4) flags(2) type-bitmap; wrapped in a record so that RData::read dispatches to it
    let mut all = Vec::new();
    let mut r = Rng(seed.wrapping_mul(0xC2B2AE3D27D4EB4F) | 1);
    let mk = |bm: &[u8]| -> Vec<u8> {
        let mut b = vec![0u8, 0, 62, 0, 1, 0, 0, 0, 1];          // root owner, TYPE=CSYNC(62), CLASS=IN, TTL=1
        let rdlen = (6 + bm.len()) as u16; b.extend_from_slice(&rdlen.to_be_bytes());
        b.extend_from_slice(&[0, 0, 0, 1, 0, 0]); b.extend_from_slice(bm); b
    };
    for win in [0u8, 1, 255] { for len in [0u8, 1, 31, 32, 33, 34, 64, 255] { for last in [0u8, 1, 0x40, 0x80, 0xff] {
        let mut bm = vec![win, len]; bm.extend(std::iter::repeat(0).take(len.saturating_sub(1) as usize)); bm.push(last); all.push(mk(&bm));
        let mut bm2 = vec![win, len]; bm2.extend(std::iter::repeat(last).take(len as usize)); all.push(mk(&bm2));
    } } }
    for _ in 0..20000 { let n = r.below(80) as usize; let bm: Vec<u8> = (0..n).map(|_| match r.below(4) { 0 => 0, 1 => 0x21, 2 => 0xff, _ => (r.next() & 0xff) as u8 }).collect(); all.push(mk(&bm)); }
    c01_batch(all)
}

// ---------------------------------------------------------------- C03: size-limited encoding
fn c03_build(r: &mut Rng) -> Message {
    let mut m = Message::query();
    let names = ["www.example.com.", "a.b.example.com.", "example.org.", "x."];
    let qn = Name::from_ascii(names[r.below(4) as usize]).unwrap();
    m.add_query(Query::new(qn.clone(), RecordType::TXT));
    for sec in 0..3 {
        for i in 0..r.below(5) {
            let n = Name::from_ascii(names[r.below(4) as usize]).unwrap();
            let rd = match r.below(3) {
                0 => RData::TXT(TXT::new(vec![format!("txt {i} {}", "z".repeat(r.below(40) as usize))])),
                1 => RData::SOA(SOA::new(n.clone(), qn.clone(), 1, 2, 3, 4, 5)),
                _ => RData::A(std::net::Ipv4Addr::new(10, 0, sec as u8, i as u8).into()),
            };
            let rec = Record::from_rdata(n, 30, rd);
            match sec { 0 => { m.add_answer(rec); } 1 => { m.add_authority(rec); } _ => { m.add_additional(rec); } }
        }
    }
    if r.below(2) == 0 {
        let mut e = hickory_proto::op::Edns::new();
        e.set_max_payload(1232);
        m.set_edns(e);
    }
    m
}

fn c03_check(m: &Message, limit: u16) -> Result<(), String> {
    let mut buf = Vec::new();
    let res = {
        let mut enc = BinEncoder::new(&mut buf);
        enc.set_max_size(limit);
        m.emit(&mut enc)
    };
    if res.is_err() { return Ok(()); }
    if buf.len() > limit as usize { return Err(format!("{} bytes emitted with limit {limit}", buf.len())); }
    let mut dec = BinDecoder::new(&buf);
    let d = match Message::read(&mut dec) { Ok(d) => d, Err(e) => return Err(format!("truncated output does not decode: {e}")) };
    if dec.len() != 0 { return Err(format!("{} byte(s) left over after decoding (limit {limit}, {} bytes)", dec.len(), buf.len())); }
    let pre = |a: &[Record], b: &[Record], what: &str| -> Result<(), String> {
        if a.len() > b.len() || a.iter().zip(b.iter()).any(|(x, y)| x != y) { Err(format!("{what} section is not a prefix of the original")) } else { Ok(()) }
    };
    pre(&d.answers, &m.answers, "answer")?;
    pre(&d.authorities, &m.authorities, "authority")?;
    pre(&d.additionals, &m.additionals, "additional")?;
    let dropped = d.answers.len() < m.answers.len() || d.authorities.len() < m.authorities.len() || d.additionals.len() < m.additionals.len()
        || (m.edns.is_some() && d.edns.is_none());
    if dropped && !d.metadata.truncation { return Err("records dropped but TC not set".into()); }
    if !dropped && d.metadata.truncation != m.metadata.truncation { return Err("TC changed although nothing was dropped".into()); }
    Ok(())
}

fn c03_search(seed: u64) -> Option<(String, String)> {
    let mut r = Rng(seed.wrapping_mul(0x2545F4914F6CDD1D) | 1);
    for case in 0..400u64 {
        let mut rr = Rng(r.next() | 1);
        let s0 = rr.0;
        let m = c03_build(&mut rr);
        let full = m.to_bytes().map(|b| b.len()).unwrap_or(600) as u16;
        for limit in 12..=(full + 2).min(700) {
            if let Err(e) = c03_check(&m, limit) { return Some((format!("{s0:016x}{limit:04x}"), format!("case {case}: {e}"))); }
        }
    }
    None
}

// ---------------------------------------------------------------- C02: round trip of header / metadata / names
fn c02_check(seed: u64) -> Result<(), String> {
    use hickory_proto::op::{MessageType, OpCode, ResponseCode};
    let mut r = Rng(seed | 1);
    let mut m = c03_build(&mut r);
    let opv = r.below(16) as u8;
    m.metadata.op_code = OpCode::from_u8(opv);
    m.metadata.message_type = if r.below(2) == 0 { MessageType::Query } else { MessageType::Response };
    m.metadata.authoritative = r.below(2) == 0;
    m.metadata.recursion_desired = r.below(2) == 0;
    m.metadata.recursion_available = r.below(2) == 0;
    m.metadata.authentic_data = r.below(2) == 0;
    m.metadata.checking_disabled = r.below(2) == 0;
    let code: u16 = if m.edns.is_some() { [0u16, 1, 5, 15, 16, 17, 23, 24, 255, 2736, 4095][r.below(11) as usize] } else { r.below(16) as u16 };
    // built from the 16-bit value, NOT through ResponseCode::from(high, low): that helper is part of what is being checked
    m.metadata.response_code = <ResponseCode as From<u16>>::from(code);
    if let Some(e) = m.edns.as_mut() { if r.below(2) == 0 { e.set_rcode_high(0xAB); } }
    if m.metadata.op_code == OpCode::Update { return Ok(()); } // update messages use other section semantics
    let bytes = m.to_bytes().map_err(|e| format!("encode failed: {e}"))?;
    let d = Message::from_vec(&bytes).map_err(|e| format!("own encoding does not decode: {e}"))?;
    if d.metadata != m.metadata { return Err(format!("metadata changed by encode/decode: {:?} -> {:?}", m.metadata, d.metadata)); }
    if u16::from(d.metadata.response_code) != (if code == 16 { u16::from(d.metadata.response_code) } else { code }) {
        return Err(format!("response code {code} came back as {}", u16::from(d.metadata.response_code)));
    }
    if d.queries != m.queries || d.answers != m.answers || d.authorities != m.authorities || d.additionals != m.additionals {
        return Err("records changed by encode/decode".into());
    }
    let again = d.to_bytes().map_err(|e| format!("re-encode failed: {e}"))?;
    let d2 = Message::from_vec(&again).map_err(|e| format!("re-encoding does not decode: {e}"))?;
    if d2.metadata != d.metadata || d2.answers != d.answers { return Err("decode(encode(decode(b))) differs from decode(b)".into()); }
    c02_name_case(&mut r)
}
// C02/C04: letter case of names survives the wire, with compression (owner names sharing a differently-cased suffix) and
// without it (SRV target: RDATA of a type whose names are not compressible is preserved byte for byte)
fn c02_name_case(r: &mut Rng) -> Result<(), String> {
    use hickory_proto::rr::rdata::{A, SRV};
    use hickory_proto::rr::{RData, Record};
    let flip = |s: &str, r: &mut Rng| -> String { s.chars().map(|c| if r.below(2) == 0 { c.to_ascii_uppercase() } else { c.to_ascii_lowercase() }).collect() };
    let n1 = Name::from_ascii(flip("www.example.com.", r)).unwrap();
    let n2 = Name::from_ascii(flip("mail.example.com.", r)).unwrap();
    let tgt = Name::from_ascii(flip("sip-gw01.example.com.", r)).unwrap();
    let mut m = Message::query();
    m.add_answer(Record::from_rdata(n1.clone(), 60, RData::A(A::new(192, 0, 2, 1))));
    m.add_answer(Record::from_rdata(n2.clone(), 60, RData::A(A::new(192, 0, 2, 2))));
    m.add_answer(Record::from_rdata(n1.clone(), 60, RData::SRV(SRV::new(1, 2, 5060, tgt.clone()))));
    let bytes = m.to_bytes().map_err(|e| format!("encode failed: {e}"))?;
    let d = Message::from_vec(&bytes).map_err(|e| format!("own encoding does not decode: {e}"))?;
    let got: Vec<&Name> = d.answers.iter().map(|x| &x.name).collect();
    for (g, w) in got.iter().zip([&n1, &n2, &n1]) {
        if !g.eq_case(w) { return Err(format!("owner name changed letter case on the wire: wrote {w} read {g}")); }
    }
    match &d.answers[2].data { RData::SRV(s) if s.target.eq_case(&tgt) => Ok(()), other => Err(format!("SRV target changed on the wire: wrote {tgt} read {other}")) }
}
fn c02_search(seed: u64) -> Option<(String, String)> {
    let mut r = Rng(seed.wrapping_mul(0xA0761D6478BD642F) | 1);
    for _ in 0..20000 { let s = r.next(); if let Err(e) = c02_check(s) { return Some((format!("{s}"), e)); } }
    None
}

// ---------------------------------------------------------------- C04: canonical order / equality
fn ref_lower(b: u8) -> u8 { if b.is_ascii_uppercase() { b + 32 } else { b } }
fn ref_cmp(a: &[Vec<u8>], b: &[Vec<u8>]) -> Ordering {
    // RFC 4034 6.1: compare labels right to left, each as lower-cased left-justified octet strings
    let (mut i, mut j) = (a.len(), b.len());
    while i > 0 && j > 0 {
        let (x, y) = (&a[i - 1], &b[j - 1]);
        let lx: Vec<u8> = x.iter().map(|c| ref_lower(*c)).collect();
        let ly: Vec<u8> = y.iter().map(|c| ref_lower(*c)).collect();
        match lx.cmp(&ly) { Ordering::Equal => {} o => return o }
        i -= 1; j -= 1;
    }
    a.len().cmp(&b.len())
}
fn mk_name(labels: &[Vec<u8>]) -> Option<Name> {
    let mut n = Name::root();
    for l in labels.iter().rev() { n = n.prepend_label(&l[..]).ok()?; }
    Some(n)
}
fn c04_check(a: &[Vec<u8>], b: &[Vec<u8>]) -> Result<(), String> {
    let (Some(x), Some(y)) = (mk_name(a), mk_name(b)) else { return Ok(()) };
    let want = ref_cmp(a, b);
    if x.cmp(&y) != want { return Err(format!("Name::cmp gives {:?}, RFC 4034 6.1 gives {:?}", x.cmp(&y), want)); }
    if (x == y) != (want == Ordering::Equal) { return Err(format!("Name::eq gives {}, canonical order says {:?}", x == y, want)); }
    if x == y {
        use std::hash::{Hash, Hasher};
        let mut h1 = std::collections::hash_map::DefaultHasher::new(); x.hash(&mut h1);
        let mut h2 = std::collections::hash_map::DefaultHasher::new(); y.hash(&mut h2);
        if h1.finish() != h2.finish() { return Err("equal names hash differently".into()); }
    }
    if x.len() > 255 || y.len() > 255 { return Err("name longer than 255 octets".into()); }
    Ok(())
}
fn enc_labels(a: &[Vec<u8>], b: &[Vec<u8>]) -> String {
    let f = |v: &[Vec<u8>]| v.iter().map(|l| hex(l)).collect::<Vec<_>>().join(".");
    format!("{}|{}", f(a), f(b))
}
fn dec_labels(s: &str) -> (Vec<Vec<u8>>, Vec<Vec<u8>>) {
    let mut it = s.split('|').map(|p| p.split('.').filter(|x| !x.is_empty()).map(unhex).collect::<Vec<_>>());
    (it.next().unwrap_or_default(), it.next().unwrap_or_default())
}
fn c04_search(seed: u64) -> Option<(String, String)> {
    let octs: [u8; 12] = [b'a', b'A', b'b', b'Z', b'z', b'[', b'_', b'-', 0x00, 0x40, 0x60, 0xff];
    let mut pool: Vec<Vec<u8>> = Vec::new();
    for &c in &octs { pool.push(vec![c]); }
    for &c in &octs[..6] { for &d in &octs[..6] { pool.push(vec![c, d]); } }
    // all pairs of names with <= 2 labels from a reduced pool
    let small: Vec<Vec<u8>> = pool.iter().take(20).cloned().collect();
    let mut names: Vec<Vec<Vec<u8>>> = vec![vec![]];
    for l in &small { names.push(vec![l.clone()]); }
    for l in small.iter().take(8) { for k in small.iter().take(8) { names.push(vec![l.clone(), k.clone()]); } }
    for a in &names { for b in &names { if let Err(e) = c04_check(a, b) { return Some((enc_labels(a, b), e)); } } }
    let mut r = Rng(seed.wrapping_mul(0xD6E8FEB86659FD93) | 1);
    for _ in 0..40000 {
        let gen = |r: &mut Rng| -> Vec<Vec<u8>> {
            (0..r.below(4)).map(|_| (0..1 + r.below(3)).map(|_| octs[r.below(12) as usize]).collect()).collect()
        };
        let a = gen(&mut r);
        let mut b = if r.below(3) == 0 { a.clone() } else { gen(&mut r) };
        if r.below(2) == 0 { for l in b.iter_mut() { for c in l.iter_mut() { if r.below(2) == 0 { *c = c.to_ascii_uppercase(); } } } }
        if let Err(e) = c04_check(&a, &b) { return Some((enc_labels(&a, &b), e)); }
    }
    None
}

// ---------------------------------------------------------------- C04: constructors / combinators keep the limits
fn c04_build_check(seed: u64) -> Result<(), String> {
    let mut r = Rng(seed | 1);
    let lab = |r: &mut Rng| -> Vec<u8> { let n = [1u64, 2, 30, 61, 62, 63][r.below(6) as usize]; (0..n).map(|_| b'a' + r.below(26) as u8).collect() };
    let mut n = Name::root();
    for _ in 0..r.below(5) { if let Ok(m) = n.prepend_label(&lab(&mut r)[..]) { n = m; } }
    let mut o = Name::root();
    for _ in 0..r.below(5) { if let Ok(m) = o.prepend_label(&lab(&mut r)[..]) { o = m; } }
    let check = |what: &str, x: &Name| -> Result<(), String> {
        let wire: usize = x.iter().map(|l| l.len() + 1).sum::<usize>() + 1;
        if wire > 255 { return Err(format!("{what} produced a name of {wire} octets")); }
        if x.iter().any(|l| l.len() > 63 || l.is_empty()) { return Err(format!("{what} produced a label outside 1..=63")); }
        Ok(())
    };
    check("prepend_label", &n)?;
    if let Ok(x) = n.clone().append_name(&o) { check("append_name", &x)?; }
    if let Ok(x) = n.clone().append_domain(&o) { check("append_domain", &x)?; }
    if let Ok(x) = n.clone().append_label(&lab(&mut r)[..]) { check("append_label", &x)?; }
    check("into_wildcard", &n.clone().into_wildcard())?;
    Ok(())
}

// ---------------------------------------------------------------- C12 / C13 kernels
fn c12_check(serial: u32) -> Result<(), String> {
    guarded(2000, move || {
        let mut soa = SOA::new(Name::root(), Name::root(), serial, 1, 1, 1, 1);
        soa.increment_serial();
        soa.serial
    }).and_then(|s| if s == serial.wrapping_add(1) { Ok(()) } else { Err(format!("serial {serial} -> {s}, RFC 1982 successor is {}", serial.wrapping_add(1))) })
}
fn c12_rrset_check(seed: u64) -> Result<(), String> {
    use hickory_proto::rr::rdata::NS;
    use hickory_proto::rr::{DNSClass, RecordSet};
    let mut r = Rng(seed | 1);
    let soa = |s: u32| Record::from_rdata(Name::root(), 60, RData::SOA(SOA::new(Name::root(), Name::root(), s, 1, 1, 1, 1)));
    let lt = |a: u32, b: u32| (a < b && b - a < 0x8000_0000) || (a > b && a - b > 0x8000_0000);
    // SOA replacement follows RFC 1982
    let picks = [0u32, 1, 5, 0x7fff_ffff, 0x8000_0000, 0x8000_0001, u32::MAX - 5, u32::MAX];
    let (a, b) = (picks[r.below(8) as usize], picks[r.below(8) as usize]);
    let mut set = RecordSet::new(Name::root(), RecordType::SOA, 0);
    set.insert(soa(a), 0);
    let acc = set.insert(soa(b), 0);
    if set.records_without_rrsigs().count() != 1 { return Err(format!("SOA RRset holds {} records", set.records_without_rrsigs().count())); }
    if lt(a, b) && !acc { return Err(format!("SOA serial {b} is newer than {a} (RFC 1982) but was ignored")); }
    if (a == b || lt(b, a)) && acc { return Err(format!("SOA serial {b} is not newer than {a} (RFC 1982) but replaced it")); }
    // the last NS survives deletes in any class; the SOA survives deletes
    let nsn = |i: u64| Name::from_ascii(format!("ns{i}.example.")).unwrap();
    let mut ns = RecordSet::new(Name::root(), RecordType::NS, 0);
    let k = 1 + r.below(3);
    for i in 0..k { ns.insert(Record::from_rdata(Name::root(), 60, RData::NS(NS(nsn(i)))), 0); }
    for i in 0..k {
        let mut del = Record::from_rdata(Name::root(), 0, RData::NS(NS(nsn(i))));
        del.dns_class = if r.below(2) == 0 { DNSClass::NONE } else { DNSClass::IN };
        ns.remove(&del, 1);
    }
    if ns.records_without_rrsigs().count() == 0 { return Err(format!("the last NS record was deleted ({k} NS records, deleted one by one)")); }
    let mut s2 = RecordSet::new(Name::root(), RecordType::SOA, 0);
    s2.insert(soa(7), 0);
    let mut del = soa(7); del.dns_class = DNSClass::NONE;
    if s2.remove(&del, 1) || s2.records_without_rrsigs().count() != 1 { return Err("the SOA was deleted".into()); }
    Ok(())
}
fn c13_check(time: u64, fudge: u16) -> Result<(), String> {
    use hickory_proto::rr::rdata::tsig::TsigAlgorithm;
    use hickory_proto::rr::TSigner;
    guarded(5000, move || {
        let mut q = Message::query();
        let mut query = Query::root();
        query.set_name(Name::from_ascii("example.com.").unwrap());
        q.add_query(query);
        let signer = TSigner::new(b"some_key".to_vec(), TsigAlgorithm::HmacSha512, Name::from_ascii("key_name.").unwrap(), fudge).unwrap();
        q.finalize(&signer, time).map_err(|e| e.to_string())?;
        let (_, t, range) = signer.verify_message_byte(&q.to_bytes().map_err(|e| e.to_string())?, None, true).map_err(|e| e.to_string())?;
        Ok::<_, String>((t, range.start, range.end))
    }).and_then(|r| match r {
        Ok((t, s, e)) if t == time && s == time.saturating_sub(fudge as u64) && e == time + fudge as u64 => Ok(()),
        Ok((t, s, e)) => Err(format!("window for time={time} fudge={fudge} is [{s},{e}) (time read back {t})")),
        Err(e) => Err(format!("validly signed message rejected: {e}")),
    })
}

fn main() {
    let args: Vec<String> = std::env::args().collect();
    if args.len() < 3 { eprintln!("usage: vp-replay <oracle> <seed> | <oracle> --input <hex>"); std::process::exit(2); }
    let orc = args[1].as_str();
    std::panic::set_hook(Box::new(|_| {}));
    if args[2] == "--input" {
        let inp = args.get(3).cloned().unwrap_or_default();
        let res = match orc {
            "c01_decode" | "c01_bitmap" => c01_check(&unhex(&inp)),
            "c03_trunc" => { let s0 = u64::from_str_radix(&inp[..16], 16).unwrap(); let lim = u16::from_str_radix(&inp[16..20], 16).unwrap(); let mut r = Rng(s0); c03_check(&c03_build(&mut r), lim) }
            "c04_order" => { let (a, b) = dec_labels(&inp); c04_check(&a, &b) }
            "c02_roundtrip" => c02_check(inp.parse().unwrap()),
            "c04_build" => c04_build_check(inp.parse().unwrap()),
            "c12_serial" => c12_check(inp.parse().unwrap()),
            "c12_rrset" => c12_rrset_check(inp.parse().unwrap()),
            "c13_tsig" => { let mut p = inp.split(','); c13_check(p.next().unwrap().parse().unwrap(), p.next().unwrap().parse().unwrap()) }
            _ => { eprintln!("unknown oracle"); std::process::exit(2) }
        };
        match res { Ok(()) => { println!("input passes"); } Err(e) => { println!("FAILS: {e}"); std::process::exit(1) } }
        return;
    }
    let seed: u64 = args[2].parse().unwrap_or(0);
    let found: Option<(String, String)> = match orc {
        "c01_decode" => c01_search(seed).map(|(b, e)| (hex(&b), e)),
        "c01_bitmap" => c01_bitmap_search(seed).map(|(b, e)| (hex(&b), e)),
        "c03_trunc" => c03_search(seed),
        "c04_order" => c04_search(seed),
        "c02_roundtrip" => c02_search(seed),
        "c04_build" => { let mut r = Rng(seed.wrapping_mul(0x9FB21C651E98DF25) | 1); (0..200000).find_map(|_| { let s = r.next(); c04_build_check(s).err().map(|e| (format!("{s}"), e)) }) }
        "c12_serial" => [0u32, 1, 0x7fff_ffff, 0x8000_0000, u32::MAX - 1, u32::MAX].iter().find_map(|&s| c12_check(s).err().map(|e| (s.to_string(), e))),
        "c12_rrset" => { let mut r = Rng(seed.wrapping_mul(0x94D049BB133111EB) | 1); (0..5000).find_map(|_| { let s = r.next(); c12_rrset_check(s).err().map(|e| (format!("{s}"), e)) }) }
        "c13_tsig" => [(1609459200u64, 300u16), (300, 300), (299, 300), (5, 300), (0, 0), (0, 65535), ((1 << 48) - 1, 65535)].iter()
            .find_map(|&(t, f)| c13_check(t, f).err().map(|e| (format!("{t},{f}"), e))),
        _ => { eprintln!("unknown oracle"); std::process::exit(2) }
    };
    match found {
        Some((input, why)) => println!("WITNESS {}", format!("{{\"input\":\"{}\",\"observed\":{:?}}}", input, why)),
        None => println!("no failing input found by oracle {orc} (seed {seed})"),
    }
}
